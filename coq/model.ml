
type __ = Obj.t

type nat =
| O
| S of nat

(** val fst : ('a1 * 'a2) -> 'a1 **)

let fst = function
| (x, _) -> x

(** val snd : ('a1 * 'a2) -> 'a2 **)

let snd = function
| (_, y) -> y

(** val app : 'a1 list -> 'a1 list -> 'a1 list **)

let rec app l m =
  match l with
  | [] -> m
  | a :: l1 -> a :: (app l1 m)

(** val add : nat -> nat -> nat **)

let rec add n m =
  match n with
  | O -> m
  | S p -> S (add p m)

(** val mul : nat -> nat -> nat **)

let rec mul n m =
  match n with
  | O -> O
  | S p -> add m (mul p m)

type positive =
| XI of positive
| XO of positive
| XH

type z =
| Z0
| Zpos of positive
| Zneg of positive

module Pos =
 struct
  (** val eqb : positive -> positive -> bool **)

  let rec eqb p q =
    match p with
    | XI p0 -> (match q with
                | XI q0 -> eqb p0 q0
                | _ -> false)
    | XO p0 -> (match q with
                | XO q0 -> eqb p0 q0
                | _ -> false)
    | XH -> (match q with
             | XH -> true
             | _ -> false)
 end

module Z =
 struct
  (** val eqb : z -> z -> bool **)

  let eqb x y =
    match x with
    | Z0 -> (match y with
             | Z0 -> true
             | _ -> false)
    | Zpos p -> (match y with
                 | Zpos q -> Pos.eqb p q
                 | _ -> false)
    | Zneg p -> (match y with
                 | Zneg q -> Pos.eqb p q
                 | _ -> false)
 end

(** val nth : nat -> 'a1 list -> 'a1 -> 'a1 **)

let rec nth n l default =
  match n with
  | O -> (match l with
          | [] -> default
          | x :: _ -> x)
  | S m -> (match l with
            | [] -> default
            | _ :: t0 -> nth m t0 default)

(** val map : ('a1 -> 'a2) -> 'a1 list -> 'a2 list **)

let rec map f = function
| [] -> []
| a :: t0 -> (f a) :: (map f t0)

(** val flat_map : ('a1 -> 'a2 list) -> 'a1 list -> 'a2 list **)

let rec flat_map f = function
| [] -> []
| x :: t0 -> app (f x) (flat_map f t0)

(** val fold_left : ('a1 -> 'a2 -> 'a1) -> 'a2 list -> 'a1 -> 'a1 **)

let rec fold_left f l a0 =
  match l with
  | [] -> a0
  | b :: t0 -> fold_left f t0 (f a0 b)

(** val firstn : nat -> 'a1 list -> 'a1 list **)

let rec firstn n l =
  match n with
  | O -> []
  | S n0 -> (match l with
             | [] -> []
             | a :: l0 -> a :: (firstn n0 l0))

(** val skipn : nat -> 'a1 list -> 'a1 list **)

let rec skipn n l =
  match n with
  | O -> l
  | S n0 -> (match l with
             | [] -> []
             | _ :: l0 -> skipn n0 l0)

(** val seq : nat -> nat -> nat list **)

let rec seq start = function
| O -> []
| S len0 -> start :: (seq (S start) len0)

type num = { nzero : __; none : __; npi : __; nofZ : (z -> __);
             nadd : (__ -> __ -> __); nsub : (__ -> __ -> __);
             nmul : (__ -> __ -> __); ndiv : (__ -> __ -> __);
             nopp : (__ -> __); nabs : (__ -> __); nsqrt : (__ -> __);
             nexp : (__ -> __); ncos : (__ -> __); nsin : (__ -> __);
             nacos : (__ -> __); natan : (__ -> __); npow : (__ -> __ -> __);
             natan2 : (__ -> __ -> __); nltb : (__ -> __ -> bool);
             nleb : (__ -> __ -> bool); neqb : (__ -> __ -> bool) }

type t = __

type err =
| DivZero
| ValueError
| AssertionError
| NonFinite
| IndexError
| TypeError
| KeyError
| OtherError

type 'a res =
| Ok of 'a
| Err of err

type 'x arr = nat -> 'x

(** val mk_arr : 'a1 -> 'a1 list -> 'a1 arr **)

let mk_arr d l k =
  nth k l d

(** val arr_to_list : nat -> 'a1 arr -> 'a1 list **)

let arr_to_list n a =
  map a (seq O n)

type perm4 =
| P0123
| P0132
| P0213
| P0231
| P0312
| P0321
| P1023
| P1032
| P1203
| P1230
| P1302
| P1320
| P2013
| P2031
| P2103
| P2130
| P2301
| P2310
| P3012
| P3021
| P3102
| P3120
| P3201
| P3210

(** val perm4_of_list : nat list -> perm4 **)

let perm4_of_list = function
| [] -> P0123
| n :: l0 ->
  (match n with
   | O ->
     (match l0 with
      | [] -> P0123
      | n0 :: l1 ->
        (match n0 with
         | O -> P0123
         | S n1 ->
           (match n1 with
            | O ->
              (match l1 with
               | [] -> P0123
               | n2 :: l2 ->
                 (match n2 with
                  | O -> P0123
                  | S n3 ->
                    (match n3 with
                     | O -> P0123
                     | S n4 ->
                       (match n4 with
                        | O -> P0123
                        | S n5 ->
                          (match n5 with
                           | O ->
                             (match l2 with
                              | [] -> P0123
                              | n6 :: l3 ->
                                (match n6 with
                                 | O -> P0123
                                 | S n7 ->
                                   (match n7 with
                                    | O -> P0123
                                    | S n8 ->
                                      (match n8 with
                                       | O ->
                                         (match l3 with
                                          | [] -> P0132
                                          | _ :: _ -> P0123)
                                       | S _ -> P0123))))
                           | S _ -> P0123)))))
            | S n2 ->
              (match n2 with
               | O ->
                 (match l1 with
                  | [] -> P0123
                  | n3 :: l2 ->
                    (match n3 with
                     | O -> P0123
                     | S n4 ->
                       (match n4 with
                        | O ->
                          (match l2 with
                           | [] -> P0123
                           | n5 :: l3 ->
                             (match n5 with
                              | O -> P0123
                              | S n6 ->
                                (match n6 with
                                 | O -> P0123
                                 | S n7 ->
                                   (match n7 with
                                    | O -> P0123
                                    | S n8 ->
                                      (match n8 with
                                       | O ->
                                         (match l3 with
                                          | [] -> P0213
                                          | _ :: _ -> P0123)
                                       | S _ -> P0123)))))
                        | S n5 ->
                          (match n5 with
                           | O -> P0123
                           | S n6 ->
                             (match n6 with
                              | O ->
                                (match l2 with
                                 | [] -> P0123
                                 | n7 :: l3 ->
                                   (match n7 with
                                    | O -> P0123
                                    | S n8 ->
                                      (match n8 with
                                       | O ->
                                         (match l3 with
                                          | [] -> P0231
                                          | _ :: _ -> P0123)
                                       | S _ -> P0123)))
                              | S _ -> P0123)))))
               | S n3 ->
                 (match n3 with
                  | O ->
                    (match l1 with
                     | [] -> P0123
                     | n4 :: l2 ->
                       (match n4 with
                        | O -> P0123
                        | S n5 ->
                          (match n5 with
                           | O ->
                             (match l2 with
                              | [] -> P0123
                              | n6 :: l3 ->
                                (match n6 with
                                 | O -> P0123
                                 | S n7 ->
                                   (match n7 with
                                    | O -> P0123
                                    | S n8 ->
                                      (match n8 with
                                       | O ->
                                         (match l3 with
                                          | [] -> P0312
                                          | _ :: _ -> P0123)
                                       | S _ -> P0123))))
                           | S n6 ->
                             (match n6 with
                              | O ->
                                (match l2 with
                                 | [] -> P0123
                                 | n7 :: l3 ->
                                   (match n7 with
                                    | O -> P0123
                                    | S n8 ->
                                      (match n8 with
                                       | O ->
                                         (match l3 with
                                          | [] -> P0321
                                          | _ :: _ -> P0123)
                                       | S _ -> P0123)))
                              | S _ -> P0123))))
                  | S _ -> P0123)))))
   | S n0 ->
     (match n0 with
      | O ->
        (match l0 with
         | [] -> P0123
         | n1 :: l1 ->
           (match n1 with
            | O ->
              (match l1 with
               | [] -> P0123
               | n2 :: l2 ->
                 (match n2 with
                  | O -> P0123
                  | S n3 ->
                    (match n3 with
                     | O -> P0123
                     | S n4 ->
                       (match n4 with
                        | O ->
                          (match l2 with
                           | [] -> P0123
                           | n5 :: l3 ->
                             (match n5 with
                              | O -> P0123
                              | S n6 ->
                                (match n6 with
                                 | O -> P0123
                                 | S n7 ->
                                   (match n7 with
                                    | O -> P0123
                                    | S n8 ->
                                      (match n8 with
                                       | O ->
                                         (match l3 with
                                          | [] -> P1023
                                          | _ :: _ -> P0123)
                                       | S _ -> P0123)))))
                        | S n5 ->
                          (match n5 with
                           | O ->
                             (match l2 with
                              | [] -> P0123
                              | n6 :: l3 ->
                                (match n6 with
                                 | O -> P0123
                                 | S n7 ->
                                   (match n7 with
                                    | O -> P0123
                                    | S n8 ->
                                      (match n8 with
                                       | O ->
                                         (match l3 with
                                          | [] -> P1032
                                          | _ :: _ -> P0123)
                                       | S _ -> P0123))))
                           | S _ -> P0123)))))
            | S n2 ->
              (match n2 with
               | O -> P0123
               | S n3 ->
                 (match n3 with
                  | O ->
                    (match l1 with
                     | [] -> P0123
                     | n4 :: l2 ->
                       (match n4 with
                        | O ->
                          (match l2 with
                           | [] -> P0123
                           | n5 :: l3 ->
                             (match n5 with
                              | O -> P0123
                              | S n6 ->
                                (match n6 with
                                 | O -> P0123
                                 | S n7 ->
                                   (match n7 with
                                    | O -> P0123
                                    | S n8 ->
                                      (match n8 with
                                       | O ->
                                         (match l3 with
                                          | [] -> P1203
                                          | _ :: _ -> P0123)
                                       | S _ -> P0123)))))
                        | S n5 ->
                          (match n5 with
                           | O -> P0123
                           | S n6 ->
                             (match n6 with
                              | O -> P0123
                              | S n7 ->
                                (match n7 with
                                 | O ->
                                   (match l2 with
                                    | [] -> P0123
                                    | n8 :: l3 ->
                                      (match n8 with
                                       | O ->
                                         (match l3 with
                                          | [] -> P1230
                                          | _ :: _ -> P0123)
                                       | S _ -> P0123))
                                 | S _ -> P0123)))))
                  | S n4 ->
                    (match n4 with
                     | O ->
                       (match l1 with
                        | [] -> P0123
                        | n5 :: l2 ->
                          (match n5 with
                           | O ->
                             (match l2 with
                              | [] -> P0123
                              | n6 :: l3 ->
                                (match n6 with
                                 | O -> P0123
                                 | S n7 ->
                                   (match n7 with
                                    | O -> P0123
                                    | S n8 ->
                                      (match n8 with
                                       | O ->
                                         (match l3 with
                                          | [] -> P1302
                                          | _ :: _ -> P0123)
                                       | S _ -> P0123))))
                           | S n6 ->
                             (match n6 with
                              | O -> P0123
                              | S n7 ->
                                (match n7 with
                                 | O ->
                                   (match l2 with
                                    | [] -> P0123
                                    | n8 :: l3 ->
                                      (match n8 with
                                       | O ->
                                         (match l3 with
                                          | [] -> P1320
                                          | _ :: _ -> P0123)
                                       | S _ -> P0123))
                                 | S _ -> P0123))))
                     | S _ -> P0123)))))
      | S n1 ->
        (match n1 with
         | O ->
           (match l0 with
            | [] -> P0123
            | n2 :: l1 ->
              (match n2 with
               | O ->
                 (match l1 with
                  | [] -> P0123
                  | n3 :: l2 ->
                    (match n3 with
                     | O -> P0123
                     | S n4 ->
                       (match n4 with
                        | O ->
                          (match l2 with
                           | [] -> P0123
                           | n5 :: l3 ->
                             (match n5 with
                              | O -> P0123
                              | S n6 ->
                                (match n6 with
                                 | O -> P0123
                                 | S n7 ->
                                   (match n7 with
                                    | O -> P0123
                                    | S n8 ->
                                      (match n8 with
                                       | O ->
                                         (match l3 with
                                          | [] -> P2013
                                          | _ :: _ -> P0123)
                                       | S _ -> P0123)))))
                        | S n5 ->
                          (match n5 with
                           | O -> P0123
                           | S n6 ->
                             (match n6 with
                              | O ->
                                (match l2 with
                                 | [] -> P0123
                                 | n7 :: l3 ->
                                   (match n7 with
                                    | O -> P0123
                                    | S n8 ->
                                      (match n8 with
                                       | O ->
                                         (match l3 with
                                          | [] -> P2031
                                          | _ :: _ -> P0123)
                                       | S _ -> P0123)))
                              | S _ -> P0123)))))
               | S n3 ->
                 (match n3 with
                  | O ->
                    (match l1 with
                     | [] -> P0123
                     | n4 :: l2 ->
                       (match n4 with
                        | O ->
                          (match l2 with
                           | [] -> P0123
                           | n5 :: l3 ->
                             (match n5 with
                              | O -> P0123
                              | S n6 ->
                                (match n6 with
                                 | O -> P0123
                                 | S n7 ->
                                   (match n7 with
                                    | O -> P0123
                                    | S n8 ->
                                      (match n8 with
                                       | O ->
                                         (match l3 with
                                          | [] -> P2103
                                          | _ :: _ -> P0123)
                                       | S _ -> P0123)))))
                        | S n5 ->
                          (match n5 with
                           | O -> P0123
                           | S n6 ->
                             (match n6 with
                              | O -> P0123
                              | S n7 ->
                                (match n7 with
                                 | O ->
                                   (match l2 with
                                    | [] -> P0123
                                    | n8 :: l3 ->
                                      (match n8 with
                                       | O ->
                                         (match l3 with
                                          | [] -> P2130
                                          | _ :: _ -> P0123)
                                       | S _ -> P0123))
                                 | S _ -> P0123)))))
                  | S n4 ->
                    (match n4 with
                     | O -> P0123
                     | S n5 ->
                       (match n5 with
                        | O ->
                          (match l1 with
                           | [] -> P0123
                           | n6 :: l2 ->
                             (match n6 with
                              | O ->
                                (match l2 with
                                 | [] -> P0123
                                 | n7 :: l3 ->
                                   (match n7 with
                                    | O -> P0123
                                    | S n8 ->
                                      (match n8 with
                                       | O ->
                                         (match l3 with
                                          | [] -> P2301
                                          | _ :: _ -> P0123)
                                       | S _ -> P0123)))
                              | S n7 ->
                                (match n7 with
                                 | O ->
                                   (match l2 with
                                    | [] -> P0123
                                    | n8 :: l3 ->
                                      (match n8 with
                                       | O ->
                                         (match l3 with
                                          | [] -> P2310
                                          | _ :: _ -> P0123)
                                       | S _ -> P0123))
                                 | S _ -> P0123)))
                        | S _ -> P0123)))))
         | S n2 ->
           (match n2 with
            | O ->
              (match l0 with
               | [] -> P0123
               | n3 :: l1 ->
                 (match n3 with
                  | O ->
                    (match l1 with
                     | [] -> P0123
                     | n4 :: l2 ->
                       (match n4 with
                        | O -> P0123
                        | S n5 ->
                          (match n5 with
                           | O ->
                             (match l2 with
                              | [] -> P0123
                              | n6 :: l3 ->
                                (match n6 with
                                 | O -> P0123
                                 | S n7 ->
                                   (match n7 with
                                    | O -> P0123
                                    | S n8 ->
                                      (match n8 with
                                       | O ->
                                         (match l3 with
                                          | [] -> P3012
                                          | _ :: _ -> P0123)
                                       | S _ -> P0123))))
                           | S n6 ->
                             (match n6 with
                              | O ->
                                (match l2 with
                                 | [] -> P0123
                                 | n7 :: l3 ->
                                   (match n7 with
                                    | O -> P0123
                                    | S n8 ->
                                      (match n8 with
                                       | O ->
                                         (match l3 with
                                          | [] -> P3021
                                          | _ :: _ -> P0123)
                                       | S _ -> P0123)))
                              | S _ -> P0123))))
                  | S n4 ->
                    (match n4 with
                     | O ->
                       (match l1 with
                        | [] -> P0123
                        | n5 :: l2 ->
                          (match n5 with
                           | O ->
                             (match l2 with
                              | [] -> P0123
                              | n6 :: l3 ->
                                (match n6 with
                                 | O -> P0123
                                 | S n7 ->
                                   (match n7 with
                                    | O -> P0123
                                    | S n8 ->
                                      (match n8 with
                                       | O ->
                                         (match l3 with
                                          | [] -> P3102
                                          | _ :: _ -> P0123)
                                       | S _ -> P0123))))
                           | S n6 ->
                             (match n6 with
                              | O -> P0123
                              | S n7 ->
                                (match n7 with
                                 | O ->
                                   (match l2 with
                                    | [] -> P0123
                                    | n8 :: l3 ->
                                      (match n8 with
                                       | O ->
                                         (match l3 with
                                          | [] -> P3120
                                          | _ :: _ -> P0123)
                                       | S _ -> P0123))
                                 | S _ -> P0123))))
                     | S n5 ->
                       (match n5 with
                        | O ->
                          (match l1 with
                           | [] -> P0123
                           | n6 :: l2 ->
                             (match n6 with
                              | O ->
                                (match l2 with
                                 | [] -> P0123
                                 | n7 :: l3 ->
                                   (match n7 with
                                    | O -> P0123
                                    | S n8 ->
                                      (match n8 with
                                       | O ->
                                         (match l3 with
                                          | [] -> P3201
                                          | _ :: _ -> P0123)
                                       | S _ -> P0123)))
                              | S n7 ->
                                (match n7 with
                                 | O ->
                                   (match l2 with
                                    | [] -> P0123
                                    | n8 :: l3 ->
                                      (match n8 with
                                       | O ->
                                         (match l3 with
                                          | [] -> P3210
                                          | _ :: _ -> P0123)
                                       | S _ -> P0123))
                                 | S _ -> P0123)))
                        | S _ -> P0123))))
            | S _ -> P0123))))

(** val ins_stable : num -> t arr -> nat -> nat list -> nat list **)

let rec ins_stable n v i = function
| [] -> i :: []
| j :: l' ->
  if n.nltb (v i) (v j) then i :: (j :: l') else j :: (ins_stable n v i l')

(** val argsort4 : num -> t arr -> perm4 **)

let argsort4 n v =
  perm4_of_list
    (ins_stable n v (S (S (S O)))
      (ins_stable n v (S (S O)) (ins_stable n v (S O) (O :: []))))

(** val k_get_slip_invariants : num -> t arr -> t arr -> t arr **)

let k_get_slip_invariants f strain_rate orientation =
  let x1 = f.nmul (strain_rate O) (orientation O) in
  let x2 = f.nmul (strain_rate (S O)) (orientation O) in
  let x3 = f.nmul (strain_rate (S (S O))) (orientation O) in
  let x4 = f.nmul (strain_rate (S (S (S O)))) (orientation (S O)) in
  let x5 = f.nmul (strain_rate (S (S (S (S O))))) (orientation (S O)) in
  let x6 = f.nmul (strain_rate (S (S (S (S (S O)))))) (orientation (S O)) in
  let x7 =
    f.nmul (strain_rate (S (S (S (S (S (S O))))))) (orientation (S (S O)))
  in
  let x8 =
    f.nmul (strain_rate (S (S (S (S (S (S (S O)))))))) (orientation (S (S O)))
  in
  let x9 =
    f.nmul (strain_rate (S (S (S (S (S (S (S (S O)))))))))
      (orientation (S (S O)))
  in
  let x10 = f.nmul (strain_rate O) (orientation (S (S (S (S (S (S O))))))) in
  let x11 = f.nmul (strain_rate (S O)) (orientation (S (S (S (S (S (S O)))))))
  in
  let x12 =
    f.nmul (strain_rate (S (S O))) (orientation (S (S (S (S (S (S O)))))))
  in
  let x13 =
    f.nmul (strain_rate (S (S (S O))))
      (orientation (S (S (S (S (S (S (S O))))))))
  in
  let x14 =
    f.nmul (strain_rate (S (S (S (S O)))))
      (orientation (S (S (S (S (S (S (S O))))))))
  in
  let x15 =
    f.nmul (strain_rate (S (S (S (S (S O))))))
      (orientation (S (S (S (S (S (S (S O))))))))
  in
  let x16 =
    f.nmul (strain_rate (S (S (S (S (S (S O)))))))
      (orientation (S (S (S (S (S (S (S (S O)))))))))
  in
  let x17 =
    f.nmul (strain_rate (S (S (S (S (S (S (S O))))))))
      (orientation (S (S (S (S (S (S (S (S O)))))))))
  in
  let x18 =
    f.nmul (strain_rate (S (S (S (S (S (S (S (S O)))))))))
      (orientation (S (S (S (S (S (S (S (S O)))))))))
  in
  mk_arr f.nzero
    ((f.nadd
       (f.nadd
         (f.nadd
           (f.nadd
             (f.nadd
               (f.nadd
                 (f.nadd
                   (f.nadd (f.nmul x1 (orientation (S (S (S O)))))
                     (f.nmul x2 (orientation (S (S (S (S O)))))))
                   (f.nmul x3 (orientation (S (S (S (S (S O))))))))
                 (f.nmul x4 (orientation (S (S (S O))))))
               (f.nmul x5 (orientation (S (S (S (S O)))))))
             (f.nmul x6 (orientation (S (S (S (S (S O))))))))
           (f.nmul x7 (orientation (S (S (S O))))))
         (f.nmul x8 (orientation (S (S (S (S O)))))))
       (f.nmul x9 (orientation (S (S (S (S (S O)))))))) :: ((f.nadd
                                                              (f.nadd
                                                                (f.nadd
                                                                  (f.nadd
                                                                    (f.nadd
                                                                    (f.nadd
                                                                    (f.nadd
                                                                    (f.nadd
                                                                    (f.nmul
                                                                    x1
                                                                    (orientation
                                                                    (S (S (S
                                                                    (S (S (S
                                                                    O))))))))
                                                                    (f.nmul
                                                                    x2
                                                                    (orientation
                                                                    (S (S (S
                                                                    (S (S (S
                                                                    (S
                                                                    O))))))))))
                                                                    (f.nmul
                                                                    x3
                                                                    (orientation
                                                                    (S (S (S
                                                                    (S (S (S
                                                                    (S (S
                                                                    O)))))))))))
                                                                    (f.nmul
                                                                    x4
                                                                    (orientation
                                                                    (S (S (S
                                                                    (S (S (S
                                                                    O)))))))))
                                                                    (f.nmul
                                                                    x5
                                                                    (orientation
                                                                    (S (S (S
                                                                    (S (S (S
                                                                    (S
                                                                    O))))))))))
                                                                    (f.nmul
                                                                    x6
                                                                    (orientation
                                                                    (S (S (S
                                                                    (S (S (S
                                                                    (S (S
                                                                    O)))))))))))
                                                                  (f.nmul x7
                                                                    (orientation
                                                                    (S (S (S
                                                                    (S (S (S
                                                                    O)))))))))
                                                                (f.nmul x8
                                                                  (orientation
                                                                    (S (S (S
                                                                    (S (S (S
                                                                    (S
                                                                    O))))))))))
                                                              (f.nmul x9
                                                                (orientation
                                                                  (S (S (S (S
                                                                  (S (S (S (S
                                                                  O))))))))))) :: (
    (f.nadd
      (f.nadd
        (f.nadd
          (f.nadd
            (f.nadd
              (f.nadd
                (f.nadd
                  (f.nadd (f.nmul x10 (orientation (S (S (S O)))))
                    (f.nmul x11 (orientation (S (S (S (S O)))))))
                  (f.nmul x12 (orientation (S (S (S (S (S O))))))))
                (f.nmul x13 (orientation (S (S (S O))))))
              (f.nmul x14 (orientation (S (S (S (S O)))))))
            (f.nmul x15 (orientation (S (S (S (S (S O))))))))
          (f.nmul x16 (orientation (S (S (S O))))))
        (f.nmul x17 (orientation (S (S (S (S O)))))))
      (f.nmul x18 (orientation (S (S (S (S (S O)))))))) :: ((f.nadd
                                                              (f.nadd
                                                                (f.nadd
                                                                  (f.nadd
                                                                    (f.nadd
                                                                    (f.nadd
                                                                    (f.nadd
                                                                    (f.nadd
                                                                    (f.nmul
                                                                    x10
                                                                    (orientation
                                                                    O))
                                                                    (f.nmul
                                                                    x11
                                                                    (orientation
                                                                    (S O))))
                                                                    (f.nmul
                                                                    x12
                                                                    (orientation
                                                                    (S (S O)))))
                                                                    (f.nmul
                                                                    x13
                                                                    (orientation
                                                                    O)))
                                                                    (f.nmul
                                                                    x14
                                                                    (orientation
                                                                    (S O))))
                                                                    (f.nmul
                                                                    x15
                                                                    (orientation
                                                                    (S (S O)))))
                                                                  (f.nmul x16
                                                                    (orientation
                                                                    O)))
                                                                (f.nmul x17
                                                                  (orientation
                                                                    (S O))))
                                                              (f.nmul x18
                                                                (orientation
                                                                  (S (S O))))) :: []))))

(** val k_get_deformation_rate : num -> z -> t arr -> t arr -> t arr **)

let k_get_deformation_rate f _ orientation slip_rates =
  let x1 = f.nmul (slip_rates O) (orientation O) in
  let x2 = f.nmul (slip_rates (S O)) (orientation O) in
  let x3 =
    f.nmul (slip_rates (S (S O))) (orientation (S (S (S (S (S (S O)))))))
  in
  let x4 =
    f.nmul (slip_rates (S (S (S O)))) (orientation (S (S (S (S (S (S O)))))))
  in
  let x5 = f.nmul (slip_rates O) (orientation (S O)) in
  let x6 = f.nmul (slip_rates (S O)) (orientation (S O)) in
  let x7 =
    f.nmul (slip_rates (S (S O))) (orientation (S (S (S (S (S (S (S O))))))))
  in
  let x8 =
    f.nmul (slip_rates (S (S (S O))))
      (orientation (S (S (S (S (S (S (S O))))))))
  in
  let x9 = f.nmul (slip_rates O) (orientation (S (S O))) in
  let x10 = f.nmul (slip_rates (S O)) (orientation (S (S O))) in
  let x11 =
    f.nmul (slip_rates (S (S O)))
      (orientation (S (S (S (S (S (S (S (S O)))))))))
  in
  let x12 =
    f.nmul (slip_rates (S (S (S O))))
      (orientation (S (S (S (S (S (S (S (S O)))))))))
  in
  mk_arr f.nzero
    ((f.nmul (f.nofZ (Zpos (XO XH)))
       (f.nadd
         (f.nadd
           (f.nadd (f.nmul x1 (orientation (S (S (S O)))))
             (f.nmul x2 (orientation (S (S (S (S (S (S O)))))))))
           (f.nmul x3 (orientation (S (S (S O))))))
         (f.nmul x4 (orientation O)))) :: ((f.nmul (f.nofZ (Zpos (XO XH)))
                                             (f.nadd
                                               (f.nadd
                                                 (f.nadd
                                                   (f.nmul x1
                                                     (orientation (S (S (S (S
                                                       O))))))
                                                   (f.nmul x2
                                                     (orientation (S (S (S (S
                                                       (S (S (S O))))))))))
                                                 (f.nmul x3
                                                   (orientation (S (S (S (S
                                                     O)))))))
                                               (f.nmul x4 (orientation (S O))))) :: (
    (f.nmul (f.nofZ (Zpos (XO XH)))
      (f.nadd
        (f.nadd
          (f.nadd (f.nmul x1 (orientation (S (S (S (S (S O)))))))
            (f.nmul x2 (orientation (S (S (S (S (S (S (S (S O)))))))))))
          (f.nmul x3 (orientation (S (S (S (S (S O))))))))
        (f.nmul x4 (orientation (S (S O)))))) :: ((f.nmul
                                                    (f.nofZ (Zpos (XO XH)))
                                                    (f.nadd
                                                      (f.nadd
                                                        (f.nadd
                                                          (f.nmul x5
                                                            (orientation (S
                                                              (S (S O)))))
                                                          (f.nmul x6
                                                            (orientation (S
                                                              (S (S (S (S (S
                                                              O)))))))))
                                                        (f.nmul x7
                                                          (orientation (S (S
                                                            (S O))))))
                                                      (f.nmul x8
                                                        (orientation O)))) :: (
    (f.nmul (f.nofZ (Zpos (XO XH)))
      (f.nadd
        (f.nadd
          (f.nadd (f.nmul x5 (orientation (S (S (S (S O))))))
            (f.nmul x6 (orientation (S (S (S (S (S (S (S O))))))))))
          (f.nmul x7 (orientation (S (S (S (S O)))))))
        (f.nmul x8 (orientation (S O))))) :: ((f.nmul (f.nofZ (Zpos (XO XH)))
                                                (f.nadd
                                                  (f.nadd
                                                    (f.nadd
                                                      (f.nmul x5
                                                        (orientation (S (S (S
                                                          (S (S O)))))))
                                                      (f.nmul x6
                                                        (orientation (S (S (S
                                                          (S (S (S (S (S
                                                          O)))))))))))
                                                    (f.nmul x7
                                                      (orientation (S (S (S
                                                        (S (S O))))))))
                                                  (f.nmul x8
                                                    (orientation (S (S O)))))) :: (
    (f.nmul (f.nofZ (Zpos (XO XH)))
      (f.nadd
        (f.nadd
          (f.nadd (f.nmul x9 (orientation (S (S (S O)))))
            (f.nmul x10 (orientation (S (S (S (S (S (S O)))))))))
          (f.nmul x11 (orientation (S (S (S O))))))
        (f.nmul x12 (orientation O)))) :: ((f.nmul (f.nofZ (Zpos (XO XH)))
                                             (f.nadd
                                               (f.nadd
                                                 (f.nadd
                                                   (f.nmul x9
                                                     (orientation (S (S (S (S
                                                       O))))))
                                                   (f.nmul x10
                                                     (orientation (S (S (S (S
                                                       (S (S (S O))))))))))
                                                 (f.nmul x11
                                                   (orientation (S (S (S (S
                                                     O)))))))
                                               (f.nmul x12
                                                 (orientation (S O))))) :: (
    (f.nmul (f.nofZ (Zpos (XO XH)))
      (f.nadd
        (f.nadd
          (f.nadd (f.nmul x9 (orientation (S (S (S (S (S O)))))))
            (f.nmul x10 (orientation (S (S (S (S (S (S (S (S O)))))))))))
          (f.nmul x11 (orientation (S (S (S (S (S O))))))))
        (f.nmul x12 (orientation (S (S O)))))) :: [])))))))))

(** val k_get_slip_rate_softest : num -> t arr -> t arr -> t res **)

let k_get_slip_rate_softest f deformation_rate velocity_gradient =
  let x1 = f.nsub (deformation_rate (S O)) (deformation_rate (S (S (S O)))) in
  let x2 =
    f.nsub (deformation_rate (S (S (S (S (S O))))))
      (deformation_rate (S (S (S (S (S (S (S O))))))))
  in
  let x3 =
    f.nsub (deformation_rate (S (S (S (S (S (S O)))))))
      (deformation_rate (S (S O)))
  in
  let x4 =
    f.nadd
      (f.nadd
        (f.nadd
          (f.nsub
            (f.nadd
              (f.nadd
                (f.nadd
                  (f.nsub
                    (f.nadd
                      (f.nadd
                        (f.nadd (f.nopp (f.nmul x1 x1))
                          (f.nmul (f.nofZ (Zpos (XO XH)))
                            (f.nmul (deformation_rate O) (deformation_rate O))))
                        (f.nmul (f.nofZ (Zpos (XO XH)))
                          (f.nmul (deformation_rate (S O))
                            (deformation_rate (S O)))))
                      (f.nmul (f.nofZ (Zpos (XO XH)))
                        (f.nmul (deformation_rate (S (S O)))
                          (deformation_rate (S (S O)))))) (f.nmul x2 x2))
                  (f.nmul (f.nofZ (Zpos (XO XH)))
                    (f.nmul (deformation_rate (S (S (S O))))
                      (deformation_rate (S (S (S O)))))))
                (f.nmul (f.nofZ (Zpos (XO XH)))
                  (f.nmul (deformation_rate (S (S (S (S O)))))
                    (deformation_rate (S (S (S (S O))))))))
              (f.nmul (f.nofZ (Zpos (XO XH)))
                (f.nmul (deformation_rate (S (S (S (S (S O))))))
                  (deformation_rate (S (S (S (S (S O))))))))) (f.nmul x3 x3))
          (f.nmul (f.nofZ (Zpos (XO XH)))
            (f.nmul (deformation_rate (S (S (S (S (S (S O)))))))
              (deformation_rate (S (S (S (S (S (S O))))))))))
        (f.nmul (f.nofZ (Zpos (XO XH)))
          (f.nmul (deformation_rate (S (S (S (S (S (S (S O))))))))
            (deformation_rate (S (S (S (S (S (S (S O)))))))))))
      (f.nmul (f.nofZ (Zpos (XO XH)))
        (f.nmul (deformation_rate (S (S (S (S (S (S (S (S O)))))))))
          (deformation_rate (S (S (S (S (S (S (S (S O)))))))))))
  in
  if f.nltb
       (f.ndiv
         (f.nofZ (Zneg (XI (XI (XO (XI (XO (XO (XO (XO (XI (XI (XO (XI (XO
           (XI (XO (XI (XI (XI (XO (XO (XI (XI (XI (XO (XI (XI (XI (XI (XO
           (XO (XI (XI (XI (XI (XI (XO (XI (XO (XI (XI (XI (XO (XO (XO (XO
           (XO (XO (XO (XI (XO (XO
           XH)))))))))))))))))))))))))))))))))))))))))))))))))))))
         (f.nofZ (Zpos (XO (XO (XO (XO (XO (XO (XO (XO (XO (XO (XO (XO (XO
           (XO (XO (XO (XO (XO (XO (XO (XO (XO (XO (XO (XO (XO (XO (XO (XO
           (XO (XO (XO (XO (XO (XO (XO (XO (XO (XO (XO (XO (XO (XO (XO (XO
           (XO (XO (XO (XO (XO (XO (XO (XO (XO (XO (XO (XO (XO (XO (XO (XO
           (XO (XO (XO (XO (XO (XO (XO (XO (XO (XO (XO (XO (XO (XO (XO (XO
           (XO (XO (XO (XO (XO (XO (XO (XO (XO (XO (XO (XO (XO (XO (XO (XO
           (XO (XO (XO (XO (XO (XO (XO (XO
           XH))))))))))))))))))))))))))))))))))))))))))))))))))))))))))))))))))))))))))))))))))))))))))))))))))))))))
       x4
  then if f.nltb x4
            (f.ndiv
              (f.nofZ (Zpos (XI (XI (XO (XI (XO (XO (XO (XO (XI (XI (XO (XI
                (XO (XI (XO (XI (XI (XI (XO (XO (XI (XI (XI (XO (XI (XI (XI
                (XI (XO (XO (XI (XI (XI (XI (XI (XO (XI (XO (XI (XI (XI (XO
                (XO (XO (XO (XO (XO (XO (XI (XO (XO
                XH)))))))))))))))))))))))))))))))))))))))))))))))))))))
              (f.nofZ (Zpos (XO (XO (XO (XO (XO (XO (XO (XO (XO (XO (XO (XO
                (XO (XO (XO (XO (XO (XO (XO (XO (XO (XO (XO (XO (XO (XO (XO
                (XO (XO (XO (XO (XO (XO (XO (XO (XO (XO (XO (XO (XO (XO (XO
                (XO (XO (XO (XO (XO (XO (XO (XO (XO (XO (XO (XO (XO (XO (XO
                (XO (XO (XO (XO (XO (XO (XO (XO (XO (XO (XO (XO (XO (XO (XO
                (XO (XO (XO (XO (XO (XO (XO (XO (XO (XO (XO (XO (XO (XO (XO
                (XO (XO (XO (XO (XO (XO (XO (XO (XO (XO (XO (XO (XO (XO
                XH))))))))))))))))))))))))))))))))))))))))))))))))))))))))))))))))))))))))))))))))))))))))))))))))))))))))
       then Ok f.nzero
       else if f.neqb x4 f.nzero
            then Err DivZero
            else let x5 =
                   f.ndiv
                     (f.nadd
                       (f.nadd
                         (f.nadd
                           (f.nsub
                             (f.nadd
                               (f.nadd
                                 (f.nadd
                                   (f.nsub
                                     (f.nadd
                                       (f.nadd
                                         (f.nadd
                                           (f.nopp
                                             (f.nmul
                                               (f.nsub
                                                 (velocity_gradient (S O))
                                                 (velocity_gradient (S (S (S
                                                   O))))) x1))
                                           (f.nmul
                                             (f.nmul (f.nofZ (Zpos (XO XH)))
                                               (deformation_rate O))
                                             (velocity_gradient O)))
                                         (f.nmul
                                           (f.nmul (f.nofZ (Zpos (XO XH)))
                                             (deformation_rate (S O)))
                                           (velocity_gradient (S O))))
                                       (f.nmul
                                         (f.nmul (f.nofZ (Zpos (XO XH)))
                                           (deformation_rate (S (S O))))
                                         (velocity_gradient (S (S O)))))
                                     (f.nmul
                                       (f.nsub
                                         (velocity_gradient (S (S (S (S (S
                                           O))))))
                                         (velocity_gradient (S (S (S (S (S (S
                                           (S O))))))))) x2))
                                   (f.nmul
                                     (f.nmul (f.nofZ (Zpos (XO XH)))
                                       (deformation_rate (S (S (S O)))))
                                     (velocity_gradient (S (S (S O))))))
                                 (f.nmul
                                   (f.nmul (f.nofZ (Zpos (XO XH)))
                                     (deformation_rate (S (S (S (S O))))))
                                   (velocity_gradient (S (S (S (S O)))))))
                               (f.nmul
                                 (f.nmul (f.nofZ (Zpos (XO XH)))
                                   (deformation_rate (S (S (S (S (S O)))))))
                                 (velocity_gradient (S (S (S (S (S O))))))))
                             (f.nmul
                               (f.nsub
                                 (velocity_gradient (S (S (S (S (S (S O)))))))
                                 (velocity_gradient (S (S O)))) x3))
                           (f.nmul
                             (f.nmul (f.nofZ (Zpos (XO XH)))
                               (deformation_rate (S (S (S (S (S (S O))))))))
                             (velocity_gradient (S (S (S (S (S (S O)))))))))
                         (f.nmul
                           (f.nmul (f.nofZ (Zpos (XO XH)))
                             (deformation_rate (S (S (S (S (S (S (S O)))))))))
                           (velocity_gradient (S (S (S (S (S (S (S O))))))))))
                       (f.nmul
                         (f.nmul (f.nofZ (Zpos (XO XH)))
                           (deformation_rate (S (S (S (S (S (S (S (S
                             O))))))))))
                         (velocity_gradient (S (S (S (S (S (S (S (S O)))))))))))
                     x4
                 in
                 Ok x5
  else if f.neqb x4 f.nzero
       then Err DivZero
       else let x6 =
              f.ndiv
                (f.nadd
                  (f.nadd
                    (f.nadd
                      (f.nsub
                        (f.nadd
                          (f.nadd
                            (f.nadd
                              (f.nsub
                                (f.nadd
                                  (f.nadd
                                    (f.nadd
                                      (f.nopp
                                        (f.nmul
                                          (f.nsub (velocity_gradient (S O))
                                            (velocity_gradient (S (S (S O)))))
                                          x1))
                                      (f.nmul
                                        (f.nmul (f.nofZ (Zpos (XO XH)))
                                          (deformation_rate O))
                                        (velocity_gradient O)))
                                    (f.nmul
                                      (f.nmul (f.nofZ (Zpos (XO XH)))
                                        (deformation_rate (S O)))
                                      (velocity_gradient (S O))))
                                  (f.nmul
                                    (f.nmul (f.nofZ (Zpos (XO XH)))
                                      (deformation_rate (S (S O))))
                                    (velocity_gradient (S (S O)))))
                                (f.nmul
                                  (f.nsub
                                    (velocity_gradient (S (S (S (S (S O))))))
                                    (velocity_gradient (S (S (S (S (S (S (S
                                      O))))))))) x2))
                              (f.nmul
                                (f.nmul (f.nofZ (Zpos (XO XH)))
                                  (deformation_rate (S (S (S O)))))
                                (velocity_gradient (S (S (S O))))))
                            (f.nmul
                              (f.nmul (f.nofZ (Zpos (XO XH)))
                                (deformation_rate (S (S (S (S O))))))
                              (velocity_gradient (S (S (S (S O)))))))
                          (f.nmul
                            (f.nmul (f.nofZ (Zpos (XO XH)))
                              (deformation_rate (S (S (S (S (S O)))))))
                            (velocity_gradient (S (S (S (S (S O))))))))
                        (f.nmul
                          (f.nsub
                            (velocity_gradient (S (S (S (S (S (S O)))))))
                            (velocity_gradient (S (S O)))) x3))
                      (f.nmul
                        (f.nmul (f.nofZ (Zpos (XO XH)))
                          (deformation_rate (S (S (S (S (S (S O))))))))
                        (velocity_gradient (S (S (S (S (S (S O)))))))))
                    (f.nmul
                      (f.nmul (f.nofZ (Zpos (XO XH)))
                        (deformation_rate (S (S (S (S (S (S (S O)))))))))
                      (velocity_gradient (S (S (S (S (S (S (S O))))))))))
                  (f.nmul
                    (f.nmul (f.nofZ (Zpos (XO XH)))
                      (deformation_rate (S (S (S (S (S (S (S (S O))))))))))
                    (velocity_gradient (S (S (S (S (S (S (S (S O))))))))))) x4
            in
            Ok x6

(** val k_get_orientation_change :
    num -> t arr -> t arr -> t arr -> t -> t arr **)

let k_get_orientation_change f orientation velocity_gradient deformation_rate slip_rate_softest =
  let x1 =
    f.ndiv
      (f.nsub
        (f.nsub (velocity_gradient (S (S O)))
          (velocity_gradient (S (S (S (S (S (S O))))))))
        (f.nmul
          (f.nsub (deformation_rate (S (S O)))
            (deformation_rate (S (S (S (S (S (S O)))))))) slip_rate_softest))
      (f.nofZ (Zpos (XO XH)))
  in
  let x2 =
    f.ndiv
      (f.nsub
        (f.nsub (velocity_gradient (S (S (S O)))) (velocity_gradient (S O)))
        (f.nmul
          (f.nsub (deformation_rate (S (S (S O)))) (deformation_rate (S O)))
          slip_rate_softest)) (f.nofZ (Zpos (XO XH)))
  in
  let x3 =
    f.ndiv
      (f.nsub
        (f.nsub (velocity_gradient (S (S (S (S (S (S (S O))))))))
          (velocity_gradient (S (S (S (S (S O)))))))
        (f.nmul
          (f.nsub (deformation_rate (S (S (S (S (S (S (S O))))))))
            (deformation_rate (S (S (S (S (S O))))))) slip_rate_softest))
      (f.nofZ (Zpos (XO XH)))
  in
  mk_arr f.nzero
    ((f.nadd (f.nmul (orientation (S (S O))) x1)
       (f.nmul (f.nmul (f.nofZ (Zneg XH)) (orientation (S O))) x2)) :: (
    (f.nadd (f.nmul (f.nmul (f.nofZ (Zneg XH)) (orientation (S (S O)))) x3)
      (f.nmul (orientation O) x2)) :: ((f.nadd
                                         (f.nmul (orientation (S O)) x3)
                                         (f.nmul
                                           (f.nmul (f.nofZ (Zneg XH))
                                             (orientation O)) x1)) :: (
    (f.nadd (f.nmul (orientation (S (S (S (S (S O)))))) x1)
      (f.nmul (f.nmul (f.nofZ (Zneg XH)) (orientation (S (S (S (S O)))))) x2)) :: (
    (f.nadd
      (f.nmul (f.nmul (f.nofZ (Zneg XH)) (orientation (S (S (S (S (S O)))))))
        x3) (f.nmul (orientation (S (S (S O)))) x2)) :: ((f.nadd
                                                           (f.nmul
                                                             (orientation (S
                                                               (S (S (S O)))))
                                                             x3)
                                                           (f.nmul
                                                             (f.nmul
                                                               (f.nofZ (Zneg
                                                                 XH))
                                                               (orientation
                                                                 (S (S (S
                                                                 O))))) x1)) :: (
    (f.nadd (f.nmul (orientation (S (S (S (S (S (S (S (S O))))))))) x1)
      (f.nmul
        (f.nmul (f.nofZ (Zneg XH))
          (orientation (S (S (S (S (S (S (S O))))))))) x2)) :: ((f.nadd
                                                                  (f.nmul
                                                                    (f.nmul
                                                                    (f.nofZ
                                                                    (Zneg XH))
                                                                    (orientation
                                                                    (S (S (S
                                                                    (S (S (S
                                                                    (S (S
                                                                    O))))))))))
                                                                    x3)
                                                                  (f.nmul
                                                                    (orientation
                                                                    (S (S (S
                                                                    (S (S (S
                                                                    O)))))))
                                                                    x2)) :: (
    (f.nadd (f.nmul (orientation (S (S (S (S (S (S (S O)))))))) x3)
      (f.nmul
        (f.nmul (f.nofZ (Zneg XH)) (orientation (S (S (S (S (S (S O))))))))
        x1)) :: [])))))))))

(** val k_get_slip_rates_olivine_s_1_2_3_inf :
    num -> t arr -> perm4 -> t -> t arr res **)

let k_get_slip_rates_olivine_s_1_2_3_inf f invariants slip_indices deformation_exponent =
  match slip_indices with
  | P0132 ->
    if f.neqb (invariants (S (S O))) f.nzero
    then Err DivZero
    else let x1 = f.ndiv (f.nofZ (Zpos (XI XH))) (invariants (S (S O))) in
         let x2 =
           f.ndiv (f.nmul x1 (invariants (S O))) (f.nofZ (Zpos (XO XH)))
         in
         let x3 = f.nsub deformation_exponent f.none in
         let x4 = f.nmul x2 (f.npow (f.nabs x2) x3) in
         Ok (mk_arr f.nzero (f.nzero :: (x4 :: (f.none :: (f.nzero :: [])))))
  | P0231 ->
    if f.neqb (invariants (S O)) f.nzero
    then Err DivZero
    else let x5 = f.ndiv (f.nofZ (Zpos (XO XH))) (invariants (S O)) in
         let x6 =
           f.ndiv (f.nmul x5 (invariants (S (S O)))) (f.nofZ (Zpos (XI XH)))
         in
         let x7 = f.nsub deformation_exponent f.none in
         let x8 = f.nmul x6 (f.npow (f.nabs x6) x7) in
         Ok (mk_arr f.nzero (f.nzero :: (f.none :: (x8 :: (f.nzero :: [])))))
  | P0312 ->
    if f.neqb (invariants (S (S O))) f.nzero
    then Err DivZero
    else let x9 = f.ndiv (f.nofZ (Zpos (XI XH))) (invariants (S (S O))) in
         let x10 =
           f.ndiv (f.nmul x9 (invariants (S O))) (f.nofZ (Zpos (XO XH)))
         in
         let x11 = f.nsub deformation_exponent f.none in
         let x12 = f.nmul x10 (f.npow (f.nabs x10) x11) in
         Ok (mk_arr f.nzero (f.nzero :: (x12 :: (f.none :: (f.nzero :: [])))))
  | P0321 ->
    if f.neqb (invariants (S O)) f.nzero
    then Err DivZero
    else let x13 = f.ndiv (f.nofZ (Zpos (XO XH))) (invariants (S O)) in
         let x14 =
           f.ndiv (f.nmul x13 (invariants (S (S O)))) (f.nofZ (Zpos (XI XH)))
         in
         let x15 = f.nsub deformation_exponent f.none in
         let x16 = f.nmul x14 (f.npow (f.nabs x14) x15) in
         Ok (mk_arr f.nzero (f.nzero :: (f.none :: (x16 :: (f.nzero :: [])))))
  | P1032 ->
    if f.neqb (invariants (S (S O))) f.nzero
    then Err DivZero
    else let x17 = f.ndiv (f.nofZ (Zpos (XI XH))) (invariants (S (S O))) in
         let x18 = f.nmul x17 (invariants O) in
         let x19 = f.nsub deformation_exponent f.none in
         let x20 = f.nmul x18 (f.npow (f.nabs x18) x19) in
         Ok (mk_arr f.nzero (x20 :: (f.nzero :: (f.none :: (f.nzero :: [])))))
  | P1230 ->
    if f.neqb (invariants O) f.nzero
    then Err DivZero
    else let x21 = f.ndiv f.none (invariants O) in
         let x22 =
           f.ndiv (f.nmul x21 (invariants (S (S O)))) (f.nofZ (Zpos (XI XH)))
         in
         let x23 = f.nsub deformation_exponent f.none in
         let x24 = f.nmul x22 (f.npow (f.nabs x22) x23) in
         Ok (mk_arr f.nzero (f.none :: (f.nzero :: (x24 :: (f.nzero :: [])))))
  | P1302 ->
    if f.neqb (invariants (S (S O))) f.nzero
    then Err DivZero
    else let x25 = f.ndiv (f.nofZ (Zpos (XI XH))) (invariants (S (S O))) in
         let x26 = f.nmul x25 (invariants O) in
         let x27 = f.nsub deformation_exponent f.none in
         let x28 = f.nmul x26 (f.npow (f.nabs x26) x27) in
         Ok (mk_arr f.nzero (x28 :: (f.nzero :: (f.none :: (f.nzero :: [])))))
  | P1320 ->
    if f.neqb (invariants O) f.nzero
    then Err DivZero
    else let x29 = f.ndiv f.none (invariants O) in
         let x30 =
           f.ndiv (f.nmul x29 (invariants (S (S O)))) (f.nofZ (Zpos (XI XH)))
         in
         let x31 = f.nsub deformation_exponent f.none in
         let x32 = f.nmul x30 (f.npow (f.nabs x30) x31) in
         Ok (mk_arr f.nzero (f.none :: (f.nzero :: (x32 :: (f.nzero :: [])))))
  | P2031 ->
    if f.neqb (invariants (S O)) f.nzero
    then Err DivZero
    else let x33 = f.ndiv (f.nofZ (Zpos (XO XH))) (invariants (S O)) in
         let x34 = f.nmul x33 (invariants O) in
         let x35 = f.nsub deformation_exponent f.none in
         let x36 = f.nmul x34 (f.npow (f.nabs x34) x35) in
         Ok (mk_arr f.nzero (x36 :: (f.none :: (f.nzero :: (f.nzero :: [])))))
  | P2130 ->
    if f.neqb (invariants O) f.nzero
    then Err DivZero
    else let x37 = f.ndiv f.none (invariants O) in
         let x38 =
           f.ndiv (f.nmul x37 (invariants (S O))) (f.nofZ (Zpos (XO XH)))
         in
         let x39 = f.nsub deformation_exponent f.none in
         let x40 = f.nmul x38 (f.npow (f.nabs x38) x39) in
         Ok (mk_arr f.nzero (f.none :: (x40 :: (f.nzero :: (f.nzero :: [])))))
  | P2301 ->
    if f.neqb (invariants (S O)) f.nzero
    then Err DivZero
    else let x41 = f.ndiv (f.nofZ (Zpos (XO XH))) (invariants (S O)) in
         let x42 = f.nmul x41 (invariants O) in
         let x43 = f.nsub deformation_exponent f.none in
         let x44 = f.nmul x42 (f.npow (f.nabs x42) x43) in
         Ok (mk_arr f.nzero (x44 :: (f.none :: (f.nzero :: (f.nzero :: [])))))
  | P2310 ->
    if f.neqb (invariants O) f.nzero
    then Err DivZero
    else let x45 = f.ndiv f.none (invariants O) in
         let x46 =
           f.ndiv (f.nmul x45 (invariants (S O))) (f.nofZ (Zpos (XO XH)))
         in
         let x47 = f.nsub deformation_exponent f.none in
         let x48 = f.nmul x46 (f.npow (f.nabs x46) x47) in
         Ok (mk_arr f.nzero (f.none :: (x48 :: (f.nzero :: (f.nzero :: [])))))
  | P3012 ->
    if f.neqb (invariants (S (S O))) f.nzero
    then Err DivZero
    else let x49 = f.ndiv (f.nofZ (Zpos (XI XH))) (invariants (S (S O))) in
         let x50 = f.nmul x49 (invariants O) in
         let x51 = f.nsub deformation_exponent f.none in
         let x52 = f.nmul x50 (f.npow (f.nabs x50) x51) in
         let x53 =
           f.ndiv (f.nmul x49 (invariants (S O))) (f.nofZ (Zpos (XO XH)))
         in
         let x54 = f.nmul x53 (f.npow (f.nabs x53) x51) in
         Ok (mk_arr f.nzero (x52 :: (x54 :: (f.none :: (f.nzero :: [])))))
  | P3021 ->
    if f.neqb (invariants (S O)) f.nzero
    then Err DivZero
    else let x55 = f.ndiv (f.nofZ (Zpos (XO XH))) (invariants (S O)) in
         let x56 = f.nmul x55 (invariants O) in
         let x57 = f.nsub deformation_exponent f.none in
         let x58 = f.nmul x56 (f.npow (f.nabs x56) x57) in
         let x59 =
           f.ndiv (f.nmul x55 (invariants (S (S O)))) (f.nofZ (Zpos (XI XH)))
         in
         let x60 = f.nmul x59 (f.npow (f.nabs x59) x57) in
         Ok (mk_arr f.nzero (x58 :: (f.none :: (x60 :: (f.nzero :: [])))))
  | P3102 ->
    if f.neqb (invariants (S (S O))) f.nzero
    then Err DivZero
    else let x61 = f.ndiv (f.nofZ (Zpos (XI XH))) (invariants (S (S O))) in
         let x62 = f.nmul x61 (invariants O) in
         let x63 = f.nsub deformation_exponent f.none in
         let x64 = f.nmul x62 (f.npow (f.nabs x62) x63) in
         let x65 =
           f.ndiv (f.nmul x61 (invariants (S O))) (f.nofZ (Zpos (XO XH)))
         in
         let x66 = f.nmul x65 (f.npow (f.nabs x65) x63) in
         Ok (mk_arr f.nzero (x64 :: (x66 :: (f.none :: (f.nzero :: [])))))
  | P3120 ->
    if f.neqb (invariants O) f.nzero
    then Err DivZero
    else let x67 = f.ndiv f.none (invariants O) in
         let x68 =
           f.ndiv (f.nmul x67 (invariants (S O))) (f.nofZ (Zpos (XO XH)))
         in
         let x69 = f.nsub deformation_exponent f.none in
         let x70 = f.nmul x68 (f.npow (f.nabs x68) x69) in
         let x71 =
           f.ndiv (f.nmul x67 (invariants (S (S O)))) (f.nofZ (Zpos (XI XH)))
         in
         let x72 = f.nmul x71 (f.npow (f.nabs x71) x69) in
         Ok (mk_arr f.nzero (f.none :: (x70 :: (x72 :: (f.nzero :: [])))))
  | P3201 ->
    if f.neqb (invariants (S O)) f.nzero
    then Err DivZero
    else let x73 = f.ndiv (f.nofZ (Zpos (XO XH))) (invariants (S O)) in
         let x74 = f.nmul x73 (invariants O) in
         let x75 = f.nsub deformation_exponent f.none in
         let x76 = f.nmul x74 (f.npow (f.nabs x74) x75) in
         let x77 =
           f.ndiv (f.nmul x73 (invariants (S (S O)))) (f.nofZ (Zpos (XI XH)))
         in
         let x78 = f.nmul x77 (f.npow (f.nabs x77) x75) in
         Ok (mk_arr f.nzero (x76 :: (f.none :: (x78 :: (f.nzero :: [])))))
  | P3210 ->
    if f.neqb (invariants O) f.nzero
    then Err DivZero
    else let x79 = f.ndiv f.none (invariants O) in
         let x80 =
           f.ndiv (f.nmul x79 (invariants (S O))) (f.nofZ (Zpos (XO XH)))
         in
         let x81 = f.nsub deformation_exponent f.none in
         let x82 = f.nmul x80 (f.npow (f.nabs x80) x81) in
         let x83 =
           f.ndiv (f.nmul x79 (invariants (S (S O)))) (f.nofZ (Zpos (XI XH)))
         in
         let x84 = f.nmul x83 (f.npow (f.nabs x83) x81) in
         Ok (mk_arr f.nzero (f.none :: (x82 :: (x84 :: (f.nzero :: [])))))
  | _ ->
    if f.neqb (invariants (S (S (S O)))) f.nzero
    then Err DivZero
    else Err NonFinite

(** val k_get_strain_energy_s_1_2_3_inf :
    num -> t arr -> perm4 -> t -> t -> t -> t -> t res **)

let k_get_strain_energy_s_1_2_3_inf f slip_rates slip_indices slip_rate_softest stress_exponent deformation_exponent nucleation_efficiency =
  match slip_indices with
  | P0123 ->
    if f.neqb deformation_exponent f.nzero
    then Err DivZero
    else let x1 = f.nsub deformation_exponent stress_exponent in
         let x2 = f.ndiv stress_exponent deformation_exponent in
         let x3 =
           f.nmul
             (f.npow (f.ndiv (f.nofZ (Zpos XH)) (f.nofZ (Zpos (XO XH)))) x1)
             (f.npow (f.nabs (f.nmul (slip_rates (S O)) slip_rate_softest))
               x2)
         in
         let x4 = f.nopp nucleation_efficiency in
         let x5 = f.nmul x3 (f.nexp (f.nmul x4 (f.nmul x3 x3))) in
         let x6 =
           f.nmul
             (f.npow (f.ndiv (f.nofZ (Zpos XH)) (f.nofZ (Zpos (XI XH)))) x1)
             (f.npow
               (f.nabs (f.nmul (slip_rates (S (S O))) slip_rate_softest)) x2)
         in
         let x7 = f.nmul x6 (f.nexp (f.nmul x4 (f.nmul x6 x6))) in
         let x8 = f.nadd x5 x7 in
         let x9 =
           f.nmul (f.npow f.nzero x1)
             (f.npow
               (f.nabs (f.nmul (slip_rates (S (S (S O)))) slip_rate_softest))
               x2)
         in
         let x10 = f.nmul x9 (f.nexp (f.nmul x4 (f.nmul x9 x9))) in
         Ok (f.nadd x8 x10)
  | P0132 ->
    if f.neqb deformation_exponent f.nzero
    then Err DivZero
    else let x11 = f.nsub deformation_exponent stress_exponent in
         let x12 = f.ndiv stress_exponent deformation_exponent in
         let x13 =
           f.nmul
             (f.npow (f.ndiv (f.nofZ (Zpos XH)) (f.nofZ (Zpos (XO XH)))) x11)
             (f.npow (f.nabs (f.nmul (slip_rates (S O)) slip_rate_softest))
               x12)
         in
         let x14 = f.nopp nucleation_efficiency in
         let x15 = f.nmul x13 (f.nexp (f.nmul x14 (f.nmul x13 x13))) in
         let x16 =
           f.nmul (f.npow f.nzero x11)
             (f.npow
               (f.nabs (f.nmul (slip_rates (S (S (S O)))) slip_rate_softest))
               x12)
         in
         let x17 = f.nmul x16 (f.nexp (f.nmul x14 (f.nmul x16 x16))) in
         let x18 = f.nadd x15 x17 in
         let x19 =
           f.nmul
             (f.npow (f.ndiv (f.nofZ (Zpos XH)) (f.nofZ (Zpos (XI XH)))) x11)
             (f.npow
               (f.nabs (f.nmul (slip_rates (S (S O))) slip_rate_softest)) x12)
         in
         let x20 = f.nmul x19 (f.nexp (f.nmul x14 (f.nmul x19 x19))) in
         Ok (f.nadd x18 x20)
  | P0213 ->
    if f.neqb deformation_exponent f.nzero
    then Err DivZero
    else let x21 = f.nsub deformation_exponent stress_exponent in
         let x22 = f.ndiv stress_exponent deformation_exponent in
         let x23 =
           f.nmul
             (f.npow (f.ndiv (f.nofZ (Zpos XH)) (f.nofZ (Zpos (XI XH)))) x21)
             (f.npow
               (f.nabs (f.nmul (slip_rates (S (S O))) slip_rate_softest)) x22)
         in
         let x24 = f.nopp nucleation_efficiency in
         let x25 = f.nmul x23 (f.nexp (f.nmul x24 (f.nmul x23 x23))) in
         let x26 =
           f.nmul
             (f.npow (f.ndiv (f.nofZ (Zpos XH)) (f.nofZ (Zpos (XO XH)))) x21)
             (f.npow (f.nabs (f.nmul (slip_rates (S O)) slip_rate_softest))
               x22)
         in
         let x27 = f.nmul x26 (f.nexp (f.nmul x24 (f.nmul x26 x26))) in
         let x28 = f.nadd x25 x27 in
         let x29 =
           f.nmul (f.npow f.nzero x21)
             (f.npow
               (f.nabs (f.nmul (slip_rates (S (S (S O)))) slip_rate_softest))
               x22)
         in
         let x30 = f.nmul x29 (f.nexp (f.nmul x24 (f.nmul x29 x29))) in
         Ok (f.nadd x28 x30)
  | P0231 ->
    if f.neqb deformation_exponent f.nzero
    then Err DivZero
    else let x31 = f.nsub deformation_exponent stress_exponent in
         let x32 = f.ndiv stress_exponent deformation_exponent in
         let x33 =
           f.nmul
             (f.npow (f.ndiv (f.nofZ (Zpos XH)) (f.nofZ (Zpos (XI XH)))) x31)
             (f.npow
               (f.nabs (f.nmul (slip_rates (S (S O))) slip_rate_softest)) x32)
         in
         let x34 = f.nopp nucleation_efficiency in
         let x35 = f.nmul x33 (f.nexp (f.nmul x34 (f.nmul x33 x33))) in
         let x36 =
           f.nmul (f.npow f.nzero x31)
             (f.npow
               (f.nabs (f.nmul (slip_rates (S (S (S O)))) slip_rate_softest))
               x32)
         in
         let x37 = f.nmul x36 (f.nexp (f.nmul x34 (f.nmul x36 x36))) in
         let x38 = f.nadd x35 x37 in
         let x39 =
           f.nmul
             (f.npow (f.ndiv (f.nofZ (Zpos XH)) (f.nofZ (Zpos (XO XH)))) x31)
             (f.npow (f.nabs (f.nmul (slip_rates (S O)) slip_rate_softest))
               x32)
         in
         let x40 = f.nmul x39 (f.nexp (f.nmul x34 (f.nmul x39 x39))) in
         Ok (f.nadd x38 x40)
  | P0312 ->
    if f.neqb deformation_exponent f.nzero
    then Err DivZero
    else let x41 = f.nsub deformation_exponent stress_exponent in
         let x42 = f.ndiv stress_exponent deformation_exponent in
         let x43 =
           f.nmul (f.npow f.nzero x41)
             (f.npow
               (f.nabs (f.nmul (slip_rates (S (S (S O)))) slip_rate_softest))
               x42)
         in
         let x44 = f.nopp nucleation_efficiency in
         let x45 = f.nmul x43 (f.nexp (f.nmul x44 (f.nmul x43 x43))) in
         let x46 =
           f.nmul
             (f.npow (f.ndiv (f.nofZ (Zpos XH)) (f.nofZ (Zpos (XO XH)))) x41)
             (f.npow (f.nabs (f.nmul (slip_rates (S O)) slip_rate_softest))
               x42)
         in
         let x47 = f.nmul x46 (f.nexp (f.nmul x44 (f.nmul x46 x46))) in
         let x48 = f.nadd x45 x47 in
         let x49 =
           f.nmul
             (f.npow (f.ndiv (f.nofZ (Zpos XH)) (f.nofZ (Zpos (XI XH)))) x41)
             (f.npow
               (f.nabs (f.nmul (slip_rates (S (S O))) slip_rate_softest)) x42)
         in
         let x50 = f.nmul x49 (f.nexp (f.nmul x44 (f.nmul x49 x49))) in
         Ok (f.nadd x48 x50)
  | P0321 ->
    if f.neqb deformation_exponent f.nzero
    then Err DivZero
    else let x51 = f.nsub deformation_exponent stress_exponent in
         let x52 = f.ndiv stress_exponent deformation_exponent in
         let x53 =
           f.nmul (f.npow f.nzero x51)
             (f.npow
               (f.nabs (f.nmul (slip_rates (S (S (S O)))) slip_rate_softest))
               x52)
         in
         let x54 = f.nopp nucleation_efficiency in
         let x55 = f.nmul x53 (f.nexp (f.nmul x54 (f.nmul x53 x53))) in
         let x56 =
           f.nmul
             (f.npow (f.ndiv (f.nofZ (Zpos XH)) (f.nofZ (Zpos (XI XH)))) x51)
             (f.npow
               (f.nabs (f.nmul (slip_rates (S (S O))) slip_rate_softest)) x52)
         in
         let x57 = f.nmul x56 (f.nexp (f.nmul x54 (f.nmul x56 x56))) in
         let x58 = f.nadd x55 x57 in
         let x59 =
           f.nmul
             (f.npow (f.ndiv (f.nofZ (Zpos XH)) (f.nofZ (Zpos (XO XH)))) x51)
             (f.npow (f.nabs (f.nmul (slip_rates (S O)) slip_rate_softest))
               x52)
         in
         let x60 = f.nmul x59 (f.nexp (f.nmul x54 (f.nmul x59 x59))) in
         Ok (f.nadd x58 x60)
  | P1023 ->
    if f.neqb deformation_exponent f.nzero
    then Err DivZero
    else let x61 = f.nsub deformation_exponent stress_exponent in
         let x62 = f.ndiv stress_exponent deformation_exponent in
         let x63 =
           f.nmul (f.npow f.none x61)
             (f.npow (f.nabs (f.nmul (slip_rates O) slip_rate_softest)) x62)
         in
         let x64 = f.nopp nucleation_efficiency in
         let x65 = f.nmul x63 (f.nexp (f.nmul x64 (f.nmul x63 x63))) in
         let x66 =
           f.nmul
             (f.npow (f.ndiv (f.nofZ (Zpos XH)) (f.nofZ (Zpos (XI XH)))) x61)
             (f.npow
               (f.nabs (f.nmul (slip_rates (S (S O))) slip_rate_softest)) x62)
         in
         let x67 = f.nmul x66 (f.nexp (f.nmul x64 (f.nmul x66 x66))) in
         let x68 = f.nadd x65 x67 in
         let x69 =
           f.nmul (f.npow f.nzero x61)
             (f.npow
               (f.nabs (f.nmul (slip_rates (S (S (S O)))) slip_rate_softest))
               x62)
         in
         let x70 = f.nmul x69 (f.nexp (f.nmul x64 (f.nmul x69 x69))) in
         Ok (f.nadd x68 x70)
  | P1032 ->
    if f.neqb deformation_exponent f.nzero
    then Err DivZero
    else let x71 = f.nsub deformation_exponent stress_exponent in
         let x72 = f.ndiv stress_exponent deformation_exponent in
         let x73 =
           f.nmul (f.npow f.none x71)
             (f.npow (f.nabs (f.nmul (slip_rates O) slip_rate_softest)) x72)
         in
         let x74 = f.nopp nucleation_efficiency in
         let x75 = f.nmul x73 (f.nexp (f.nmul x74 (f.nmul x73 x73))) in
         let x76 =
           f.nmul (f.npow f.nzero x71)
             (f.npow
               (f.nabs (f.nmul (slip_rates (S (S (S O)))) slip_rate_softest))
               x72)
         in
         let x77 = f.nmul x76 (f.nexp (f.nmul x74 (f.nmul x76 x76))) in
         let x78 = f.nadd x75 x77 in
         let x79 =
           f.nmul
             (f.npow (f.ndiv (f.nofZ (Zpos XH)) (f.nofZ (Zpos (XI XH)))) x71)
             (f.npow
               (f.nabs (f.nmul (slip_rates (S (S O))) slip_rate_softest)) x72)
         in
         let x80 = f.nmul x79 (f.nexp (f.nmul x74 (f.nmul x79 x79))) in
         Ok (f.nadd x78 x80)
  | P1203 ->
    if f.neqb deformation_exponent f.nzero
    then Err DivZero
    else let x81 = f.nsub deformation_exponent stress_exponent in
         let x82 = f.ndiv stress_exponent deformation_exponent in
         let x83 =
           f.nmul
             (f.npow (f.ndiv (f.nofZ (Zpos XH)) (f.nofZ (Zpos (XI XH)))) x81)
             (f.npow
               (f.nabs (f.nmul (slip_rates (S (S O))) slip_rate_softest)) x82)
         in
         let x84 = f.nopp nucleation_efficiency in
         let x85 = f.nmul x83 (f.nexp (f.nmul x84 (f.nmul x83 x83))) in
         let x86 =
           f.nmul (f.npow f.none x81)
             (f.npow (f.nabs (f.nmul (slip_rates O) slip_rate_softest)) x82)
         in
         let x87 = f.nmul x86 (f.nexp (f.nmul x84 (f.nmul x86 x86))) in
         let x88 = f.nadd x85 x87 in
         let x89 =
           f.nmul (f.npow f.nzero x81)
             (f.npow
               (f.nabs (f.nmul (slip_rates (S (S (S O)))) slip_rate_softest))
               x82)
         in
         let x90 = f.nmul x89 (f.nexp (f.nmul x84 (f.nmul x89 x89))) in
         Ok (f.nadd x88 x90)
  | P1230 ->
    if f.neqb deformation_exponent f.nzero
    then Err DivZero
    else let x91 = f.nsub deformation_exponent stress_exponent in
         let x92 = f.ndiv stress_exponent deformation_exponent in
         let x93 =
           f.nmul
             (f.npow (f.ndiv (f.nofZ (Zpos XH)) (f.nofZ (Zpos (XI XH)))) x91)
             (f.npow
               (f.nabs (f.nmul (slip_rates (S (S O))) slip_rate_softest)) x92)
         in
         let x94 = f.nopp nucleation_efficiency in
         let x95 = f.nmul x93 (f.nexp (f.nmul x94 (f.nmul x93 x93))) in
         let x96 =
           f.nmul (f.npow f.nzero x91)
             (f.npow
               (f.nabs (f.nmul (slip_rates (S (S (S O)))) slip_rate_softest))
               x92)
         in
         let x97 = f.nmul x96 (f.nexp (f.nmul x94 (f.nmul x96 x96))) in
         let x98 = f.nadd x95 x97 in
         let x99 =
           f.nmul (f.npow f.none x91)
             (f.npow (f.nabs (f.nmul (slip_rates O) slip_rate_softest)) x92)
         in
         let x100 = f.nmul x99 (f.nexp (f.nmul x94 (f.nmul x99 x99))) in
         Ok (f.nadd x98 x100)
  | P1302 ->
    if f.neqb deformation_exponent f.nzero
    then Err DivZero
    else let x101 = f.nsub deformation_exponent stress_exponent in
         let x102 = f.ndiv stress_exponent deformation_exponent in
         let x103 =
           f.nmul (f.npow f.nzero x101)
             (f.npow
               (f.nabs (f.nmul (slip_rates (S (S (S O)))) slip_rate_softest))
               x102)
         in
         let x104 = f.nopp nucleation_efficiency in
         let x105 = f.nmul x103 (f.nexp (f.nmul x104 (f.nmul x103 x103))) in
         let x106 =
           f.nmul (f.npow f.none x101)
             (f.npow (f.nabs (f.nmul (slip_rates O) slip_rate_softest)) x102)
         in
         let x107 = f.nmul x106 (f.nexp (f.nmul x104 (f.nmul x106 x106))) in
         let x108 = f.nadd x105 x107 in
         let x109 =
           f.nmul
             (f.npow (f.ndiv (f.nofZ (Zpos XH)) (f.nofZ (Zpos (XI XH)))) x101)
             (f.npow
               (f.nabs (f.nmul (slip_rates (S (S O))) slip_rate_softest))
               x102)
         in
         let x110 = f.nmul x109 (f.nexp (f.nmul x104 (f.nmul x109 x109))) in
         Ok (f.nadd x108 x110)
  | P1320 ->
    if f.neqb deformation_exponent f.nzero
    then Err DivZero
    else let x111 = f.nsub deformation_exponent stress_exponent in
         let x112 = f.ndiv stress_exponent deformation_exponent in
         let x113 =
           f.nmul (f.npow f.nzero x111)
             (f.npow
               (f.nabs (f.nmul (slip_rates (S (S (S O)))) slip_rate_softest))
               x112)
         in
         let x114 = f.nopp nucleation_efficiency in
         let x115 = f.nmul x113 (f.nexp (f.nmul x114 (f.nmul x113 x113))) in
         let x116 =
           f.nmul
             (f.npow (f.ndiv (f.nofZ (Zpos XH)) (f.nofZ (Zpos (XI XH)))) x111)
             (f.npow
               (f.nabs (f.nmul (slip_rates (S (S O))) slip_rate_softest))
               x112)
         in
         let x117 = f.nmul x116 (f.nexp (f.nmul x114 (f.nmul x116 x116))) in
         let x118 = f.nadd x115 x117 in
         let x119 =
           f.nmul (f.npow f.none x111)
             (f.npow (f.nabs (f.nmul (slip_rates O) slip_rate_softest)) x112)
         in
         let x120 = f.nmul x119 (f.nexp (f.nmul x114 (f.nmul x119 x119))) in
         Ok (f.nadd x118 x120)
  | P2013 ->
    if f.neqb deformation_exponent f.nzero
    then Err DivZero
    else let x121 = f.nsub deformation_exponent stress_exponent in
         let x122 = f.ndiv stress_exponent deformation_exponent in
         let x123 =
           f.nmul (f.npow f.none x121)
             (f.npow (f.nabs (f.nmul (slip_rates O) slip_rate_softest)) x122)
         in
         let x124 = f.nopp nucleation_efficiency in
         let x125 = f.nmul x123 (f.nexp (f.nmul x124 (f.nmul x123 x123))) in
         let x126 =
           f.nmul
             (f.npow (f.ndiv (f.nofZ (Zpos XH)) (f.nofZ (Zpos (XO XH)))) x121)
             (f.npow (f.nabs (f.nmul (slip_rates (S O)) slip_rate_softest))
               x122)
         in
         let x127 = f.nmul x126 (f.nexp (f.nmul x124 (f.nmul x126 x126))) in
         let x128 = f.nadd x125 x127 in
         let x129 =
           f.nmul (f.npow f.nzero x121)
             (f.npow
               (f.nabs (f.nmul (slip_rates (S (S (S O)))) slip_rate_softest))
               x122)
         in
         let x130 = f.nmul x129 (f.nexp (f.nmul x124 (f.nmul x129 x129))) in
         Ok (f.nadd x128 x130)
  | P2031 ->
    if f.neqb deformation_exponent f.nzero
    then Err DivZero
    else let x131 = f.nsub deformation_exponent stress_exponent in
         let x132 = f.ndiv stress_exponent deformation_exponent in
         let x133 =
           f.nmul (f.npow f.none x131)
             (f.npow (f.nabs (f.nmul (slip_rates O) slip_rate_softest)) x132)
         in
         let x134 = f.nopp nucleation_efficiency in
         let x135 = f.nmul x133 (f.nexp (f.nmul x134 (f.nmul x133 x133))) in
         let x136 =
           f.nmul (f.npow f.nzero x131)
             (f.npow
               (f.nabs (f.nmul (slip_rates (S (S (S O)))) slip_rate_softest))
               x132)
         in
         let x137 = f.nmul x136 (f.nexp (f.nmul x134 (f.nmul x136 x136))) in
         let x138 = f.nadd x135 x137 in
         let x139 =
           f.nmul
             (f.npow (f.ndiv (f.nofZ (Zpos XH)) (f.nofZ (Zpos (XO XH)))) x131)
             (f.npow (f.nabs (f.nmul (slip_rates (S O)) slip_rate_softest))
               x132)
         in
         let x140 = f.nmul x139 (f.nexp (f.nmul x134 (f.nmul x139 x139))) in
         Ok (f.nadd x138 x140)
  | P2103 ->
    if f.neqb deformation_exponent f.nzero
    then Err DivZero
    else let x141 = f.nsub deformation_exponent stress_exponent in
         let x142 = f.ndiv stress_exponent deformation_exponent in
         let x143 =
           f.nmul
             (f.npow (f.ndiv (f.nofZ (Zpos XH)) (f.nofZ (Zpos (XO XH)))) x141)
             (f.npow (f.nabs (f.nmul (slip_rates (S O)) slip_rate_softest))
               x142)
         in
         let x144 = f.nopp nucleation_efficiency in
         let x145 = f.nmul x143 (f.nexp (f.nmul x144 (f.nmul x143 x143))) in
         let x146 =
           f.nmul (f.npow f.none x141)
             (f.npow (f.nabs (f.nmul (slip_rates O) slip_rate_softest)) x142)
         in
         let x147 = f.nmul x146 (f.nexp (f.nmul x144 (f.nmul x146 x146))) in
         let x148 = f.nadd x145 x147 in
         let x149 =
           f.nmul (f.npow f.nzero x141)
             (f.npow
               (f.nabs (f.nmul (slip_rates (S (S (S O)))) slip_rate_softest))
               x142)
         in
         let x150 = f.nmul x149 (f.nexp (f.nmul x144 (f.nmul x149 x149))) in
         Ok (f.nadd x148 x150)
  | P2130 ->
    if f.neqb deformation_exponent f.nzero
    then Err DivZero
    else let x151 = f.nsub deformation_exponent stress_exponent in
         let x152 = f.ndiv stress_exponent deformation_exponent in
         let x153 =
           f.nmul
             (f.npow (f.ndiv (f.nofZ (Zpos XH)) (f.nofZ (Zpos (XO XH)))) x151)
             (f.npow (f.nabs (f.nmul (slip_rates (S O)) slip_rate_softest))
               x152)
         in
         let x154 = f.nopp nucleation_efficiency in
         let x155 = f.nmul x153 (f.nexp (f.nmul x154 (f.nmul x153 x153))) in
         let x156 =
           f.nmul (f.npow f.nzero x151)
             (f.npow
               (f.nabs (f.nmul (slip_rates (S (S (S O)))) slip_rate_softest))
               x152)
         in
         let x157 = f.nmul x156 (f.nexp (f.nmul x154 (f.nmul x156 x156))) in
         let x158 = f.nadd x155 x157 in
         let x159 =
           f.nmul (f.npow f.none x151)
             (f.npow (f.nabs (f.nmul (slip_rates O) slip_rate_softest)) x152)
         in
         let x160 = f.nmul x159 (f.nexp (f.nmul x154 (f.nmul x159 x159))) in
         Ok (f.nadd x158 x160)
  | P2301 ->
    if f.neqb deformation_exponent f.nzero
    then Err DivZero
    else let x161 = f.nsub deformation_exponent stress_exponent in
         let x162 = f.ndiv stress_exponent deformation_exponent in
         let x163 =
           f.nmul (f.npow f.nzero x161)
             (f.npow
               (f.nabs (f.nmul (slip_rates (S (S (S O)))) slip_rate_softest))
               x162)
         in
         let x164 = f.nopp nucleation_efficiency in
         let x165 = f.nmul x163 (f.nexp (f.nmul x164 (f.nmul x163 x163))) in
         let x166 =
           f.nmul (f.npow f.none x161)
             (f.npow (f.nabs (f.nmul (slip_rates O) slip_rate_softest)) x162)
         in
         let x167 = f.nmul x166 (f.nexp (f.nmul x164 (f.nmul x166 x166))) in
         let x168 = f.nadd x165 x167 in
         let x169 =
           f.nmul
             (f.npow (f.ndiv (f.nofZ (Zpos XH)) (f.nofZ (Zpos (XO XH)))) x161)
             (f.npow (f.nabs (f.nmul (slip_rates (S O)) slip_rate_softest))
               x162)
         in
         let x170 = f.nmul x169 (f.nexp (f.nmul x164 (f.nmul x169 x169))) in
         Ok (f.nadd x168 x170)
  | P2310 ->
    if f.neqb deformation_exponent f.nzero
    then Err DivZero
    else let x171 = f.nsub deformation_exponent stress_exponent in
         let x172 = f.ndiv stress_exponent deformation_exponent in
         let x173 =
           f.nmul (f.npow f.nzero x171)
             (f.npow
               (f.nabs (f.nmul (slip_rates (S (S (S O)))) slip_rate_softest))
               x172)
         in
         let x174 = f.nopp nucleation_efficiency in
         let x175 = f.nmul x173 (f.nexp (f.nmul x174 (f.nmul x173 x173))) in
         let x176 =
           f.nmul
             (f.npow (f.ndiv (f.nofZ (Zpos XH)) (f.nofZ (Zpos (XO XH)))) x171)
             (f.npow (f.nabs (f.nmul (slip_rates (S O)) slip_rate_softest))
               x172)
         in
         let x177 = f.nmul x176 (f.nexp (f.nmul x174 (f.nmul x176 x176))) in
         let x178 = f.nadd x175 x177 in
         let x179 =
           f.nmul (f.npow f.none x171)
             (f.npow (f.nabs (f.nmul (slip_rates O) slip_rate_softest)) x172)
         in
         let x180 = f.nmul x179 (f.nexp (f.nmul x174 (f.nmul x179 x179))) in
         Ok (f.nadd x178 x180)
  | P3012 ->
    if f.neqb deformation_exponent f.nzero
    then Err DivZero
    else let x181 = f.nsub deformation_exponent stress_exponent in
         let x182 = f.ndiv stress_exponent deformation_exponent in
         let x183 =
           f.nmul (f.npow f.none x181)
             (f.npow (f.nabs (f.nmul (slip_rates O) slip_rate_softest)) x182)
         in
         let x184 = f.nopp nucleation_efficiency in
         let x185 = f.nmul x183 (f.nexp (f.nmul x184 (f.nmul x183 x183))) in
         let x186 =
           f.nmul
             (f.npow (f.ndiv (f.nofZ (Zpos XH)) (f.nofZ (Zpos (XO XH)))) x181)
             (f.npow (f.nabs (f.nmul (slip_rates (S O)) slip_rate_softest))
               x182)
         in
         let x187 = f.nmul x186 (f.nexp (f.nmul x184 (f.nmul x186 x186))) in
         let x188 = f.nadd x185 x187 in
         let x189 =
           f.nmul
             (f.npow (f.ndiv (f.nofZ (Zpos XH)) (f.nofZ (Zpos (XI XH)))) x181)
             (f.npow
               (f.nabs (f.nmul (slip_rates (S (S O))) slip_rate_softest))
               x182)
         in
         let x190 = f.nmul x189 (f.nexp (f.nmul x184 (f.nmul x189 x189))) in
         Ok (f.nadd x188 x190)
  | P3021 ->
    if f.neqb deformation_exponent f.nzero
    then Err DivZero
    else let x191 = f.nsub deformation_exponent stress_exponent in
         let x192 = f.ndiv stress_exponent deformation_exponent in
         let x193 =
           f.nmul (f.npow f.none x191)
             (f.npow (f.nabs (f.nmul (slip_rates O) slip_rate_softest)) x192)
         in
         let x194 = f.nopp nucleation_efficiency in
         let x195 = f.nmul x193 (f.nexp (f.nmul x194 (f.nmul x193 x193))) in
         let x196 =
           f.nmul
             (f.npow (f.ndiv (f.nofZ (Zpos XH)) (f.nofZ (Zpos (XI XH)))) x191)
             (f.npow
               (f.nabs (f.nmul (slip_rates (S (S O))) slip_rate_softest))
               x192)
         in
         let x197 = f.nmul x196 (f.nexp (f.nmul x194 (f.nmul x196 x196))) in
         let x198 = f.nadd x195 x197 in
         let x199 =
           f.nmul
             (f.npow (f.ndiv (f.nofZ (Zpos XH)) (f.nofZ (Zpos (XO XH)))) x191)
             (f.npow (f.nabs (f.nmul (slip_rates (S O)) slip_rate_softest))
               x192)
         in
         let x200 = f.nmul x199 (f.nexp (f.nmul x194 (f.nmul x199 x199))) in
         Ok (f.nadd x198 x200)
  | P3102 ->
    if f.neqb deformation_exponent f.nzero
    then Err DivZero
    else let x201 = f.nsub deformation_exponent stress_exponent in
         let x202 = f.ndiv stress_exponent deformation_exponent in
         let x203 =
           f.nmul
             (f.npow (f.ndiv (f.nofZ (Zpos XH)) (f.nofZ (Zpos (XO XH)))) x201)
             (f.npow (f.nabs (f.nmul (slip_rates (S O)) slip_rate_softest))
               x202)
         in
         let x204 = f.nopp nucleation_efficiency in
         let x205 = f.nmul x203 (f.nexp (f.nmul x204 (f.nmul x203 x203))) in
         let x206 =
           f.nmul (f.npow f.none x201)
             (f.npow (f.nabs (f.nmul (slip_rates O) slip_rate_softest)) x202)
         in
         let x207 = f.nmul x206 (f.nexp (f.nmul x204 (f.nmul x206 x206))) in
         let x208 = f.nadd x205 x207 in
         let x209 =
           f.nmul
             (f.npow (f.ndiv (f.nofZ (Zpos XH)) (f.nofZ (Zpos (XI XH)))) x201)
             (f.npow
               (f.nabs (f.nmul (slip_rates (S (S O))) slip_rate_softest))
               x202)
         in
         let x210 = f.nmul x209 (f.nexp (f.nmul x204 (f.nmul x209 x209))) in
         Ok (f.nadd x208 x210)
  | P3120 ->
    if f.neqb deformation_exponent f.nzero
    then Err DivZero
    else let x211 = f.nsub deformation_exponent stress_exponent in
         let x212 = f.ndiv stress_exponent deformation_exponent in
         let x213 =
           f.nmul
             (f.npow (f.ndiv (f.nofZ (Zpos XH)) (f.nofZ (Zpos (XO XH)))) x211)
             (f.npow (f.nabs (f.nmul (slip_rates (S O)) slip_rate_softest))
               x212)
         in
         let x214 = f.nopp nucleation_efficiency in
         let x215 = f.nmul x213 (f.nexp (f.nmul x214 (f.nmul x213 x213))) in
         let x216 =
           f.nmul
             (f.npow (f.ndiv (f.nofZ (Zpos XH)) (f.nofZ (Zpos (XI XH)))) x211)
             (f.npow
               (f.nabs (f.nmul (slip_rates (S (S O))) slip_rate_softest))
               x212)
         in
         let x217 = f.nmul x216 (f.nexp (f.nmul x214 (f.nmul x216 x216))) in
         let x218 = f.nadd x215 x217 in
         let x219 =
           f.nmul (f.npow f.none x211)
             (f.npow (f.nabs (f.nmul (slip_rates O) slip_rate_softest)) x212)
         in
         let x220 = f.nmul x219 (f.nexp (f.nmul x214 (f.nmul x219 x219))) in
         Ok (f.nadd x218 x220)
  | P3201 ->
    if f.neqb deformation_exponent f.nzero
    then Err DivZero
    else let x221 = f.nsub deformation_exponent stress_exponent in
         let x222 = f.ndiv stress_exponent deformation_exponent in
         let x223 =
           f.nmul
             (f.npow (f.ndiv (f.nofZ (Zpos XH)) (f.nofZ (Zpos (XI XH)))) x221)
             (f.npow
               (f.nabs (f.nmul (slip_rates (S (S O))) slip_rate_softest))
               x222)
         in
         let x224 = f.nopp nucleation_efficiency in
         let x225 = f.nmul x223 (f.nexp (f.nmul x224 (f.nmul x223 x223))) in
         let x226 =
           f.nmul (f.npow f.none x221)
             (f.npow (f.nabs (f.nmul (slip_rates O) slip_rate_softest)) x222)
         in
         let x227 = f.nmul x226 (f.nexp (f.nmul x224 (f.nmul x226 x226))) in
         let x228 = f.nadd x225 x227 in
         let x229 =
           f.nmul
             (f.npow (f.ndiv (f.nofZ (Zpos XH)) (f.nofZ (Zpos (XO XH)))) x221)
             (f.npow (f.nabs (f.nmul (slip_rates (S O)) slip_rate_softest))
               x222)
         in
         let x230 = f.nmul x229 (f.nexp (f.nmul x224 (f.nmul x229 x229))) in
         Ok (f.nadd x228 x230)
  | P3210 ->
    if f.neqb deformation_exponent f.nzero
    then Err DivZero
    else let x231 = f.nsub deformation_exponent stress_exponent in
         let x232 = f.ndiv stress_exponent deformation_exponent in
         let x233 =
           f.nmul
             (f.npow (f.ndiv (f.nofZ (Zpos XH)) (f.nofZ (Zpos (XI XH)))) x231)
             (f.npow
               (f.nabs (f.nmul (slip_rates (S (S O))) slip_rate_softest))
               x232)
         in
         let x234 = f.nopp nucleation_efficiency in
         let x235 = f.nmul x233 (f.nexp (f.nmul x234 (f.nmul x233 x233))) in
         let x236 =
           f.nmul
             (f.npow (f.ndiv (f.nofZ (Zpos XH)) (f.nofZ (Zpos (XO XH)))) x231)
             (f.npow (f.nabs (f.nmul (slip_rates (S O)) slip_rate_softest))
               x232)
         in
         let x237 = f.nmul x236 (f.nexp (f.nmul x234 (f.nmul x236 x236))) in
         let x238 = f.nadd x235 x237 in
         let x239 =
           f.nmul (f.npow f.none x231)
             (f.npow (f.nabs (f.nmul (slip_rates O) slip_rate_softest)) x232)
         in
         let x240 = f.nmul x239 (f.nexp (f.nmul x234 (f.nmul x239 x239))) in
         Ok (f.nadd x238 x240)

(** val k_get_slip_rates_olivine_s_3_2_1_inf :
    num -> t arr -> perm4 -> t -> t arr res **)

let k_get_slip_rates_olivine_s_3_2_1_inf f invariants slip_indices deformation_exponent =
  match slip_indices with
  | P0132 ->
    if f.neqb (invariants (S (S O))) f.nzero
    then Err DivZero
    else let x1 = f.ndiv f.none (invariants (S (S O))) in
         let x2 =
           f.ndiv (f.nmul x1 (invariants (S O))) (f.nofZ (Zpos (XO XH)))
         in
         let x3 = f.nsub deformation_exponent f.none in
         let x4 = f.nmul x2 (f.npow (f.nabs x2) x3) in
         Ok (mk_arr f.nzero (f.nzero :: (x4 :: (f.none :: (f.nzero :: [])))))
  | P0231 ->
    if f.neqb (invariants (S O)) f.nzero
    then Err DivZero
    else let x5 = f.ndiv (f.nofZ (Zpos (XO XH))) (invariants (S O)) in
         let x6 = f.nmul x5 (invariants (S (S O))) in
         let x7 = f.nsub deformation_exponent f.none in
         let x8 = f.nmul x6 (f.npow (f.nabs x6) x7) in
         Ok (mk_arr f.nzero (f.nzero :: (f.none :: (x8 :: (f.nzero :: [])))))
  | P0312 ->
    if f.neqb (invariants (S (S O))) f.nzero
    then Err DivZero
    else let x9 = f.ndiv f.none (invariants (S (S O))) in
         let x10 =
           f.ndiv (f.nmul x9 (invariants (S O))) (f.nofZ (Zpos (XO XH)))
         in
         let x11 = f.nsub deformation_exponent f.none in
         let x12 = f.nmul x10 (f.npow (f.nabs x10) x11) in
         Ok (mk_arr f.nzero (f.nzero :: (x12 :: (f.none :: (f.nzero :: [])))))
  | P0321 ->
    if f.neqb (invariants (S O)) f.nzero
    then Err DivZero
    else let x13 = f.ndiv (f.nofZ (Zpos (XO XH))) (invariants (S O)) in
         let x14 = f.nmul x13 (invariants (S (S O))) in
         let x15 = f.nsub deformation_exponent f.none in
         let x16 = f.nmul x14 (f.npow (f.nabs x14) x15) in
         Ok (mk_arr f.nzero (f.nzero :: (f.none :: (x16 :: (f.nzero :: [])))))
  | P1032 ->
    if f.neqb (invariants (S (S O))) f.nzero
    then Err DivZero
    else let x17 = f.ndiv f.none (invariants (S (S O))) in
         let x18 = f.ndiv (f.nmul x17 (invariants O)) (f.nofZ (Zpos (XI XH)))
         in
         let x19 = f.nsub deformation_exponent f.none in
         let x20 = f.nmul x18 (f.npow (f.nabs x18) x19) in
         Ok (mk_arr f.nzero (x20 :: (f.nzero :: (f.none :: (f.nzero :: [])))))
  | P1230 ->
    if f.neqb (invariants O) f.nzero
    then Err DivZero
    else let x21 = f.ndiv (f.nofZ (Zpos (XI XH))) (invariants O) in
         let x22 = f.nmul x21 (invariants (S (S O))) in
         let x23 = f.nsub deformation_exponent f.none in
         let x24 = f.nmul x22 (f.npow (f.nabs x22) x23) in
         Ok (mk_arr f.nzero (f.none :: (f.nzero :: (x24 :: (f.nzero :: [])))))
  | P1302 ->
    if f.neqb (invariants (S (S O))) f.nzero
    then Err DivZero
    else let x25 = f.ndiv f.none (invariants (S (S O))) in
         let x26 = f.ndiv (f.nmul x25 (invariants O)) (f.nofZ (Zpos (XI XH)))
         in
         let x27 = f.nsub deformation_exponent f.none in
         let x28 = f.nmul x26 (f.npow (f.nabs x26) x27) in
         Ok (mk_arr f.nzero (x28 :: (f.nzero :: (f.none :: (f.nzero :: [])))))
  | P1320 ->
    if f.neqb (invariants O) f.nzero
    then Err DivZero
    else let x29 = f.ndiv (f.nofZ (Zpos (XI XH))) (invariants O) in
         let x30 = f.nmul x29 (invariants (S (S O))) in
         let x31 = f.nsub deformation_exponent f.none in
         let x32 = f.nmul x30 (f.npow (f.nabs x30) x31) in
         Ok (mk_arr f.nzero (f.none :: (f.nzero :: (x32 :: (f.nzero :: [])))))
  | P2031 ->
    if f.neqb (invariants (S O)) f.nzero
    then Err DivZero
    else let x33 = f.ndiv (f.nofZ (Zpos (XO XH))) (invariants (S O)) in
         let x34 = f.ndiv (f.nmul x33 (invariants O)) (f.nofZ (Zpos (XI XH)))
         in
         let x35 = f.nsub deformation_exponent f.none in
         let x36 = f.nmul x34 (f.npow (f.nabs x34) x35) in
         Ok (mk_arr f.nzero (x36 :: (f.none :: (f.nzero :: (f.nzero :: [])))))
  | P2130 ->
    if f.neqb (invariants O) f.nzero
    then Err DivZero
    else let x37 = f.ndiv (f.nofZ (Zpos (XI XH))) (invariants O) in
         let x38 =
           f.ndiv (f.nmul x37 (invariants (S O))) (f.nofZ (Zpos (XO XH)))
         in
         let x39 = f.nsub deformation_exponent f.none in
         let x40 = f.nmul x38 (f.npow (f.nabs x38) x39) in
         Ok (mk_arr f.nzero (f.none :: (x40 :: (f.nzero :: (f.nzero :: [])))))
  | P2301 ->
    if f.neqb (invariants (S O)) f.nzero
    then Err DivZero
    else let x41 = f.ndiv (f.nofZ (Zpos (XO XH))) (invariants (S O)) in
         let x42 = f.ndiv (f.nmul x41 (invariants O)) (f.nofZ (Zpos (XI XH)))
         in
         let x43 = f.nsub deformation_exponent f.none in
         let x44 = f.nmul x42 (f.npow (f.nabs x42) x43) in
         Ok (mk_arr f.nzero (x44 :: (f.none :: (f.nzero :: (f.nzero :: [])))))
  | P2310 ->
    if f.neqb (invariants O) f.nzero
    then Err DivZero
    else let x45 = f.ndiv (f.nofZ (Zpos (XI XH))) (invariants O) in
         let x46 =
           f.ndiv (f.nmul x45 (invariants (S O))) (f.nofZ (Zpos (XO XH)))
         in
         let x47 = f.nsub deformation_exponent f.none in
         let x48 = f.nmul x46 (f.npow (f.nabs x46) x47) in
         Ok (mk_arr f.nzero (f.none :: (x48 :: (f.nzero :: (f.nzero :: [])))))
  | P3012 ->
    if f.neqb (invariants (S (S O))) f.nzero
    then Err DivZero
    else let x49 = f.ndiv f.none (invariants (S (S O))) in
         let x50 = f.ndiv (f.nmul x49 (invariants O)) (f.nofZ (Zpos (XI XH)))
         in
         let x51 = f.nsub deformation_exponent f.none in
         let x52 = f.nmul x50 (f.npow (f.nabs x50) x51) in
         let x53 =
           f.ndiv (f.nmul x49 (invariants (S O))) (f.nofZ (Zpos (XO XH)))
         in
         let x54 = f.nmul x53 (f.npow (f.nabs x53) x51) in
         Ok (mk_arr f.nzero (x52 :: (x54 :: (f.none :: (f.nzero :: [])))))
  | P3021 ->
    if f.neqb (invariants (S O)) f.nzero
    then Err DivZero
    else let x55 = f.ndiv (f.nofZ (Zpos (XO XH))) (invariants (S O)) in
         let x56 = f.ndiv (f.nmul x55 (invariants O)) (f.nofZ (Zpos (XI XH)))
         in
         let x57 = f.nsub deformation_exponent f.none in
         let x58 = f.nmul x56 (f.npow (f.nabs x56) x57) in
         let x59 = f.nmul x55 (invariants (S (S O))) in
         let x60 = f.nmul x59 (f.npow (f.nabs x59) x57) in
         Ok (mk_arr f.nzero (x58 :: (f.none :: (x60 :: (f.nzero :: [])))))
  | P3102 ->
    if f.neqb (invariants (S (S O))) f.nzero
    then Err DivZero
    else let x61 = f.ndiv f.none (invariants (S (S O))) in
         let x62 = f.ndiv (f.nmul x61 (invariants O)) (f.nofZ (Zpos (XI XH)))
         in
         let x63 = f.nsub deformation_exponent f.none in
         let x64 = f.nmul x62 (f.npow (f.nabs x62) x63) in
         let x65 =
           f.ndiv (f.nmul x61 (invariants (S O))) (f.nofZ (Zpos (XO XH)))
         in
         let x66 = f.nmul x65 (f.npow (f.nabs x65) x63) in
         Ok (mk_arr f.nzero (x64 :: (x66 :: (f.none :: (f.nzero :: [])))))
  | P3120 ->
    if f.neqb (invariants O) f.nzero
    then Err DivZero
    else let x67 = f.ndiv (f.nofZ (Zpos (XI XH))) (invariants O) in
         let x68 =
           f.ndiv (f.nmul x67 (invariants (S O))) (f.nofZ (Zpos (XO XH)))
         in
         let x69 = f.nsub deformation_exponent f.none in
         let x70 = f.nmul x68 (f.npow (f.nabs x68) x69) in
         let x71 = f.nmul x67 (invariants (S (S O))) in
         let x72 = f.nmul x71 (f.npow (f.nabs x71) x69) in
         Ok (mk_arr f.nzero (f.none :: (x70 :: (x72 :: (f.nzero :: [])))))
  | P3201 ->
    if f.neqb (invariants (S O)) f.nzero
    then Err DivZero
    else let x73 = f.ndiv (f.nofZ (Zpos (XO XH))) (invariants (S O)) in
         let x74 = f.ndiv (f.nmul x73 (invariants O)) (f.nofZ (Zpos (XI XH)))
         in
         let x75 = f.nsub deformation_exponent f.none in
         let x76 = f.nmul x74 (f.npow (f.nabs x74) x75) in
         let x77 = f.nmul x73 (invariants (S (S O))) in
         let x78 = f.nmul x77 (f.npow (f.nabs x77) x75) in
         Ok (mk_arr f.nzero (x76 :: (f.none :: (x78 :: (f.nzero :: [])))))
  | P3210 ->
    if f.neqb (invariants O) f.nzero
    then Err DivZero
    else let x79 = f.ndiv (f.nofZ (Zpos (XI XH))) (invariants O) in
         let x80 =
           f.ndiv (f.nmul x79 (invariants (S O))) (f.nofZ (Zpos (XO XH)))
         in
         let x81 = f.nsub deformation_exponent f.none in
         let x82 = f.nmul x80 (f.npow (f.nabs x80) x81) in
         let x83 = f.nmul x79 (invariants (S (S O))) in
         let x84 = f.nmul x83 (f.npow (f.nabs x83) x81) in
         Ok (mk_arr f.nzero (f.none :: (x82 :: (x84 :: (f.nzero :: [])))))
  | _ ->
    if f.neqb (invariants (S (S (S O)))) f.nzero
    then Err DivZero
    else Err NonFinite

(** val k_get_strain_energy_s_3_2_1_inf :
    num -> t arr -> perm4 -> t -> t -> t -> t -> t res **)

let k_get_strain_energy_s_3_2_1_inf f slip_rates slip_indices slip_rate_softest stress_exponent deformation_exponent nucleation_efficiency =
  match slip_indices with
  | P0123 ->
    if f.neqb deformation_exponent f.nzero
    then Err DivZero
    else let x1 = f.nsub deformation_exponent stress_exponent in
         let x2 = f.ndiv stress_exponent deformation_exponent in
         let x3 =
           f.nmul
             (f.npow (f.ndiv (f.nofZ (Zpos XH)) (f.nofZ (Zpos (XO XH)))) x1)
             (f.npow (f.nabs (f.nmul (slip_rates (S O)) slip_rate_softest))
               x2)
         in
         let x4 = f.nopp nucleation_efficiency in
         let x5 = f.nmul x3 (f.nexp (f.nmul x4 (f.nmul x3 x3))) in
         let x6 =
           f.nmul (f.npow f.none x1)
             (f.npow
               (f.nabs (f.nmul (slip_rates (S (S O))) slip_rate_softest)) x2)
         in
         let x7 = f.nmul x6 (f.nexp (f.nmul x4 (f.nmul x6 x6))) in
         let x8 = f.nadd x5 x7 in
         let x9 =
           f.nmul (f.npow f.nzero x1)
             (f.npow
               (f.nabs (f.nmul (slip_rates (S (S (S O)))) slip_rate_softest))
               x2)
         in
         let x10 = f.nmul x9 (f.nexp (f.nmul x4 (f.nmul x9 x9))) in
         Ok (f.nadd x8 x10)
  | P0132 ->
    if f.neqb deformation_exponent f.nzero
    then Err DivZero
    else let x11 = f.nsub deformation_exponent stress_exponent in
         let x12 = f.ndiv stress_exponent deformation_exponent in
         let x13 =
           f.nmul
             (f.npow (f.ndiv (f.nofZ (Zpos XH)) (f.nofZ (Zpos (XO XH)))) x11)
             (f.npow (f.nabs (f.nmul (slip_rates (S O)) slip_rate_softest))
               x12)
         in
         let x14 = f.nopp nucleation_efficiency in
         let x15 = f.nmul x13 (f.nexp (f.nmul x14 (f.nmul x13 x13))) in
         let x16 =
           f.nmul (f.npow f.nzero x11)
             (f.npow
               (f.nabs (f.nmul (slip_rates (S (S (S O)))) slip_rate_softest))
               x12)
         in
         let x17 = f.nmul x16 (f.nexp (f.nmul x14 (f.nmul x16 x16))) in
         let x18 = f.nadd x15 x17 in
         let x19 =
           f.nmul (f.npow f.none x11)
             (f.npow
               (f.nabs (f.nmul (slip_rates (S (S O))) slip_rate_softest)) x12)
         in
         let x20 = f.nmul x19 (f.nexp (f.nmul x14 (f.nmul x19 x19))) in
         Ok (f.nadd x18 x20)
  | P0213 ->
    if f.neqb deformation_exponent f.nzero
    then Err DivZero
    else let x21 = f.nsub deformation_exponent stress_exponent in
         let x22 = f.ndiv stress_exponent deformation_exponent in
         let x23 =
           f.nmul (f.npow f.none x21)
             (f.npow
               (f.nabs (f.nmul (slip_rates (S (S O))) slip_rate_softest)) x22)
         in
         let x24 = f.nopp nucleation_efficiency in
         let x25 = f.nmul x23 (f.nexp (f.nmul x24 (f.nmul x23 x23))) in
         let x26 =
           f.nmul
             (f.npow (f.ndiv (f.nofZ (Zpos XH)) (f.nofZ (Zpos (XO XH)))) x21)
             (f.npow (f.nabs (f.nmul (slip_rates (S O)) slip_rate_softest))
               x22)
         in
         let x27 = f.nmul x26 (f.nexp (f.nmul x24 (f.nmul x26 x26))) in
         let x28 = f.nadd x25 x27 in
         let x29 =
           f.nmul (f.npow f.nzero x21)
             (f.npow
               (f.nabs (f.nmul (slip_rates (S (S (S O)))) slip_rate_softest))
               x22)
         in
         let x30 = f.nmul x29 (f.nexp (f.nmul x24 (f.nmul x29 x29))) in
         Ok (f.nadd x28 x30)
  | P0231 ->
    if f.neqb deformation_exponent f.nzero
    then Err DivZero
    else let x31 = f.nsub deformation_exponent stress_exponent in
         let x32 = f.ndiv stress_exponent deformation_exponent in
         let x33 =
           f.nmul (f.npow f.none x31)
             (f.npow
               (f.nabs (f.nmul (slip_rates (S (S O))) slip_rate_softest)) x32)
         in
         let x34 = f.nopp nucleation_efficiency in
         let x35 = f.nmul x33 (f.nexp (f.nmul x34 (f.nmul x33 x33))) in
         let x36 =
           f.nmul (f.npow f.nzero x31)
             (f.npow
               (f.nabs (f.nmul (slip_rates (S (S (S O)))) slip_rate_softest))
               x32)
         in
         let x37 = f.nmul x36 (f.nexp (f.nmul x34 (f.nmul x36 x36))) in
         let x38 = f.nadd x35 x37 in
         let x39 =
           f.nmul
             (f.npow (f.ndiv (f.nofZ (Zpos XH)) (f.nofZ (Zpos (XO XH)))) x31)
             (f.npow (f.nabs (f.nmul (slip_rates (S O)) slip_rate_softest))
               x32)
         in
         let x40 = f.nmul x39 (f.nexp (f.nmul x34 (f.nmul x39 x39))) in
         Ok (f.nadd x38 x40)
  | P0312 ->
    if f.neqb deformation_exponent f.nzero
    then Err DivZero
    else let x41 = f.nsub deformation_exponent stress_exponent in
         let x42 = f.ndiv stress_exponent deformation_exponent in
         let x43 =
           f.nmul (f.npow f.nzero x41)
             (f.npow
               (f.nabs (f.nmul (slip_rates (S (S (S O)))) slip_rate_softest))
               x42)
         in
         let x44 = f.nopp nucleation_efficiency in
         let x45 = f.nmul x43 (f.nexp (f.nmul x44 (f.nmul x43 x43))) in
         let x46 =
           f.nmul
             (f.npow (f.ndiv (f.nofZ (Zpos XH)) (f.nofZ (Zpos (XO XH)))) x41)
             (f.npow (f.nabs (f.nmul (slip_rates (S O)) slip_rate_softest))
               x42)
         in
         let x47 = f.nmul x46 (f.nexp (f.nmul x44 (f.nmul x46 x46))) in
         let x48 = f.nadd x45 x47 in
         let x49 =
           f.nmul (f.npow f.none x41)
             (f.npow
               (f.nabs (f.nmul (slip_rates (S (S O))) slip_rate_softest)) x42)
         in
         let x50 = f.nmul x49 (f.nexp (f.nmul x44 (f.nmul x49 x49))) in
         Ok (f.nadd x48 x50)
  | P0321 ->
    if f.neqb deformation_exponent f.nzero
    then Err DivZero
    else let x51 = f.nsub deformation_exponent stress_exponent in
         let x52 = f.ndiv stress_exponent deformation_exponent in
         let x53 =
           f.nmul (f.npow f.nzero x51)
             (f.npow
               (f.nabs (f.nmul (slip_rates (S (S (S O)))) slip_rate_softest))
               x52)
         in
         let x54 = f.nopp nucleation_efficiency in
         let x55 = f.nmul x53 (f.nexp (f.nmul x54 (f.nmul x53 x53))) in
         let x56 =
           f.nmul (f.npow f.none x51)
             (f.npow
               (f.nabs (f.nmul (slip_rates (S (S O))) slip_rate_softest)) x52)
         in
         let x57 = f.nmul x56 (f.nexp (f.nmul x54 (f.nmul x56 x56))) in
         let x58 = f.nadd x55 x57 in
         let x59 =
           f.nmul
             (f.npow (f.ndiv (f.nofZ (Zpos XH)) (f.nofZ (Zpos (XO XH)))) x51)
             (f.npow (f.nabs (f.nmul (slip_rates (S O)) slip_rate_softest))
               x52)
         in
         let x60 = f.nmul x59 (f.nexp (f.nmul x54 (f.nmul x59 x59))) in
         Ok (f.nadd x58 x60)
  | P1023 ->
    if f.neqb deformation_exponent f.nzero
    then Err DivZero
    else let x61 = f.nsub deformation_exponent stress_exponent in
         let x62 = f.ndiv stress_exponent deformation_exponent in
         let x63 =
           f.nmul
             (f.npow (f.ndiv (f.nofZ (Zpos XH)) (f.nofZ (Zpos (XI XH)))) x61)
             (f.npow (f.nabs (f.nmul (slip_rates O) slip_rate_softest)) x62)
         in
         let x64 = f.nopp nucleation_efficiency in
         let x65 = f.nmul x63 (f.nexp (f.nmul x64 (f.nmul x63 x63))) in
         let x66 =
           f.nmul (f.npow f.none x61)
             (f.npow
               (f.nabs (f.nmul (slip_rates (S (S O))) slip_rate_softest)) x62)
         in
         let x67 = f.nmul x66 (f.nexp (f.nmul x64 (f.nmul x66 x66))) in
         let x68 = f.nadd x65 x67 in
         let x69 =
           f.nmul (f.npow f.nzero x61)
             (f.npow
               (f.nabs (f.nmul (slip_rates (S (S (S O)))) slip_rate_softest))
               x62)
         in
         let x70 = f.nmul x69 (f.nexp (f.nmul x64 (f.nmul x69 x69))) in
         Ok (f.nadd x68 x70)
  | P1032 ->
    if f.neqb deformation_exponent f.nzero
    then Err DivZero
    else let x71 = f.nsub deformation_exponent stress_exponent in
         let x72 = f.ndiv stress_exponent deformation_exponent in
         let x73 =
           f.nmul
             (f.npow (f.ndiv (f.nofZ (Zpos XH)) (f.nofZ (Zpos (XI XH)))) x71)
             (f.npow (f.nabs (f.nmul (slip_rates O) slip_rate_softest)) x72)
         in
         let x74 = f.nopp nucleation_efficiency in
         let x75 = f.nmul x73 (f.nexp (f.nmul x74 (f.nmul x73 x73))) in
         let x76 =
           f.nmul (f.npow f.nzero x71)
             (f.npow
               (f.nabs (f.nmul (slip_rates (S (S (S O)))) slip_rate_softest))
               x72)
         in
         let x77 = f.nmul x76 (f.nexp (f.nmul x74 (f.nmul x76 x76))) in
         let x78 = f.nadd x75 x77 in
         let x79 =
           f.nmul (f.npow f.none x71)
             (f.npow
               (f.nabs (f.nmul (slip_rates (S (S O))) slip_rate_softest)) x72)
         in
         let x80 = f.nmul x79 (f.nexp (f.nmul x74 (f.nmul x79 x79))) in
         Ok (f.nadd x78 x80)
  | P1203 ->
    if f.neqb deformation_exponent f.nzero
    then Err DivZero
    else let x81 = f.nsub deformation_exponent stress_exponent in
         let x82 = f.ndiv stress_exponent deformation_exponent in
         let x83 =
           f.nmul (f.npow f.none x81)
             (f.npow
               (f.nabs (f.nmul (slip_rates (S (S O))) slip_rate_softest)) x82)
         in
         let x84 = f.nopp nucleation_efficiency in
         let x85 = f.nmul x83 (f.nexp (f.nmul x84 (f.nmul x83 x83))) in
         let x86 =
           f.nmul
             (f.npow (f.ndiv (f.nofZ (Zpos XH)) (f.nofZ (Zpos (XI XH)))) x81)
             (f.npow (f.nabs (f.nmul (slip_rates O) slip_rate_softest)) x82)
         in
         let x87 = f.nmul x86 (f.nexp (f.nmul x84 (f.nmul x86 x86))) in
         let x88 = f.nadd x85 x87 in
         let x89 =
           f.nmul (f.npow f.nzero x81)
             (f.npow
               (f.nabs (f.nmul (slip_rates (S (S (S O)))) slip_rate_softest))
               x82)
         in
         let x90 = f.nmul x89 (f.nexp (f.nmul x84 (f.nmul x89 x89))) in
         Ok (f.nadd x88 x90)
  | P1230 ->
    if f.neqb deformation_exponent f.nzero
    then Err DivZero
    else let x91 = f.nsub deformation_exponent stress_exponent in
         let x92 = f.ndiv stress_exponent deformation_exponent in
         let x93 =
           f.nmul (f.npow f.none x91)
             (f.npow
               (f.nabs (f.nmul (slip_rates (S (S O))) slip_rate_softest)) x92)
         in
         let x94 = f.nopp nucleation_efficiency in
         let x95 = f.nmul x93 (f.nexp (f.nmul x94 (f.nmul x93 x93))) in
         let x96 =
           f.nmul (f.npow f.nzero x91)
             (f.npow
               (f.nabs (f.nmul (slip_rates (S (S (S O)))) slip_rate_softest))
               x92)
         in
         let x97 = f.nmul x96 (f.nexp (f.nmul x94 (f.nmul x96 x96))) in
         let x98 = f.nadd x95 x97 in
         let x99 =
           f.nmul
             (f.npow (f.ndiv (f.nofZ (Zpos XH)) (f.nofZ (Zpos (XI XH)))) x91)
             (f.npow (f.nabs (f.nmul (slip_rates O) slip_rate_softest)) x92)
         in
         let x100 = f.nmul x99 (f.nexp (f.nmul x94 (f.nmul x99 x99))) in
         Ok (f.nadd x98 x100)
  | P1302 ->
    if f.neqb deformation_exponent f.nzero
    then Err DivZero
    else let x101 = f.nsub deformation_exponent stress_exponent in
         let x102 = f.ndiv stress_exponent deformation_exponent in
         let x103 =
           f.nmul (f.npow f.nzero x101)
             (f.npow
               (f.nabs (f.nmul (slip_rates (S (S (S O)))) slip_rate_softest))
               x102)
         in
         let x104 = f.nopp nucleation_efficiency in
         let x105 = f.nmul x103 (f.nexp (f.nmul x104 (f.nmul x103 x103))) in
         let x106 =
           f.nmul
             (f.npow (f.ndiv (f.nofZ (Zpos XH)) (f.nofZ (Zpos (XI XH)))) x101)
             (f.npow (f.nabs (f.nmul (slip_rates O) slip_rate_softest)) x102)
         in
         let x107 = f.nmul x106 (f.nexp (f.nmul x104 (f.nmul x106 x106))) in
         let x108 = f.nadd x105 x107 in
         let x109 =
           f.nmul (f.npow f.none x101)
             (f.npow
               (f.nabs (f.nmul (slip_rates (S (S O))) slip_rate_softest))
               x102)
         in
         let x110 = f.nmul x109 (f.nexp (f.nmul x104 (f.nmul x109 x109))) in
         Ok (f.nadd x108 x110)
  | P1320 ->
    if f.neqb deformation_exponent f.nzero
    then Err DivZero
    else let x111 = f.nsub deformation_exponent stress_exponent in
         let x112 = f.ndiv stress_exponent deformation_exponent in
         let x113 =
           f.nmul (f.npow f.nzero x111)
             (f.npow
               (f.nabs (f.nmul (slip_rates (S (S (S O)))) slip_rate_softest))
               x112)
         in
         let x114 = f.nopp nucleation_efficiency in
         let x115 = f.nmul x113 (f.nexp (f.nmul x114 (f.nmul x113 x113))) in
         let x116 =
           f.nmul (f.npow f.none x111)
             (f.npow
               (f.nabs (f.nmul (slip_rates (S (S O))) slip_rate_softest))
               x112)
         in
         let x117 = f.nmul x116 (f.nexp (f.nmul x114 (f.nmul x116 x116))) in
         let x118 = f.nadd x115 x117 in
         let x119 =
           f.nmul
             (f.npow (f.ndiv (f.nofZ (Zpos XH)) (f.nofZ (Zpos (XI XH)))) x111)
             (f.npow (f.nabs (f.nmul (slip_rates O) slip_rate_softest)) x112)
         in
         let x120 = f.nmul x119 (f.nexp (f.nmul x114 (f.nmul x119 x119))) in
         Ok (f.nadd x118 x120)
  | P2013 ->
    if f.neqb deformation_exponent f.nzero
    then Err DivZero
    else let x121 = f.nsub deformation_exponent stress_exponent in
         let x122 = f.ndiv stress_exponent deformation_exponent in
         let x123 =
           f.nmul
             (f.npow (f.ndiv (f.nofZ (Zpos XH)) (f.nofZ (Zpos (XI XH)))) x121)
             (f.npow (f.nabs (f.nmul (slip_rates O) slip_rate_softest)) x122)
         in
         let x124 = f.nopp nucleation_efficiency in
         let x125 = f.nmul x123 (f.nexp (f.nmul x124 (f.nmul x123 x123))) in
         let x126 =
           f.nmul
             (f.npow (f.ndiv (f.nofZ (Zpos XH)) (f.nofZ (Zpos (XO XH)))) x121)
             (f.npow (f.nabs (f.nmul (slip_rates (S O)) slip_rate_softest))
               x122)
         in
         let x127 = f.nmul x126 (f.nexp (f.nmul x124 (f.nmul x126 x126))) in
         let x128 = f.nadd x125 x127 in
         let x129 =
           f.nmul (f.npow f.nzero x121)
             (f.npow
               (f.nabs (f.nmul (slip_rates (S (S (S O)))) slip_rate_softest))
               x122)
         in
         let x130 = f.nmul x129 (f.nexp (f.nmul x124 (f.nmul x129 x129))) in
         Ok (f.nadd x128 x130)
  | P2031 ->
    if f.neqb deformation_exponent f.nzero
    then Err DivZero
    else let x131 = f.nsub deformation_exponent stress_exponent in
         let x132 = f.ndiv stress_exponent deformation_exponent in
         let x133 =
           f.nmul
             (f.npow (f.ndiv (f.nofZ (Zpos XH)) (f.nofZ (Zpos (XI XH)))) x131)
             (f.npow (f.nabs (f.nmul (slip_rates O) slip_rate_softest)) x132)
         in
         let x134 = f.nopp nucleation_efficiency in
         let x135 = f.nmul x133 (f.nexp (f.nmul x134 (f.nmul x133 x133))) in
         let x136 =
           f.nmul (f.npow f.nzero x131)
             (f.npow
               (f.nabs (f.nmul (slip_rates (S (S (S O)))) slip_rate_softest))
               x132)
         in
         let x137 = f.nmul x136 (f.nexp (f.nmul x134 (f.nmul x136 x136))) in
         let x138 = f.nadd x135 x137 in
         let x139 =
           f.nmul
             (f.npow (f.ndiv (f.nofZ (Zpos XH)) (f.nofZ (Zpos (XO XH)))) x131)
             (f.npow (f.nabs (f.nmul (slip_rates (S O)) slip_rate_softest))
               x132)
         in
         let x140 = f.nmul x139 (f.nexp (f.nmul x134 (f.nmul x139 x139))) in
         Ok (f.nadd x138 x140)
  | P2103 ->
    if f.neqb deformation_exponent f.nzero
    then Err DivZero
    else let x141 = f.nsub deformation_exponent stress_exponent in
         let x142 = f.ndiv stress_exponent deformation_exponent in
         let x143 =
           f.nmul
             (f.npow (f.ndiv (f.nofZ (Zpos XH)) (f.nofZ (Zpos (XO XH)))) x141)
             (f.npow (f.nabs (f.nmul (slip_rates (S O)) slip_rate_softest))
               x142)
         in
         let x144 = f.nopp nucleation_efficiency in
         let x145 = f.nmul x143 (f.nexp (f.nmul x144 (f.nmul x143 x143))) in
         let x146 =
           f.nmul
             (f.npow (f.ndiv (f.nofZ (Zpos XH)) (f.nofZ (Zpos (XI XH)))) x141)
             (f.npow (f.nabs (f.nmul (slip_rates O) slip_rate_softest)) x142)
         in
         let x147 = f.nmul x146 (f.nexp (f.nmul x144 (f.nmul x146 x146))) in
         let x148 = f.nadd x145 x147 in
         let x149 =
           f.nmul (f.npow f.nzero x141)
             (f.npow
               (f.nabs (f.nmul (slip_rates (S (S (S O)))) slip_rate_softest))
               x142)
         in
         let x150 = f.nmul x149 (f.nexp (f.nmul x144 (f.nmul x149 x149))) in
         Ok (f.nadd x148 x150)
  | P2130 ->
    if f.neqb deformation_exponent f.nzero
    then Err DivZero
    else let x151 = f.nsub deformation_exponent stress_exponent in
         let x152 = f.ndiv stress_exponent deformation_exponent in
         let x153 =
           f.nmul
             (f.npow (f.ndiv (f.nofZ (Zpos XH)) (f.nofZ (Zpos (XO XH)))) x151)
             (f.npow (f.nabs (f.nmul (slip_rates (S O)) slip_rate_softest))
               x152)
         in
         let x154 = f.nopp nucleation_efficiency in
         let x155 = f.nmul x153 (f.nexp (f.nmul x154 (f.nmul x153 x153))) in
         let x156 =
           f.nmul (f.npow f.nzero x151)
             (f.npow
               (f.nabs (f.nmul (slip_rates (S (S (S O)))) slip_rate_softest))
               x152)
         in
         let x157 = f.nmul x156 (f.nexp (f.nmul x154 (f.nmul x156 x156))) in
         let x158 = f.nadd x155 x157 in
         let x159 =
           f.nmul
             (f.npow (f.ndiv (f.nofZ (Zpos XH)) (f.nofZ (Zpos (XI XH)))) x151)
             (f.npow (f.nabs (f.nmul (slip_rates O) slip_rate_softest)) x152)
         in
         let x160 = f.nmul x159 (f.nexp (f.nmul x154 (f.nmul x159 x159))) in
         Ok (f.nadd x158 x160)
  | P2301 ->
    if f.neqb deformation_exponent f.nzero
    then Err DivZero
    else let x161 = f.nsub deformation_exponent stress_exponent in
         let x162 = f.ndiv stress_exponent deformation_exponent in
         let x163 =
           f.nmul (f.npow f.nzero x161)
             (f.npow
               (f.nabs (f.nmul (slip_rates (S (S (S O)))) slip_rate_softest))
               x162)
         in
         let x164 = f.nopp nucleation_efficiency in
         let x165 = f.nmul x163 (f.nexp (f.nmul x164 (f.nmul x163 x163))) in
         let x166 =
           f.nmul
             (f.npow (f.ndiv (f.nofZ (Zpos XH)) (f.nofZ (Zpos (XI XH)))) x161)
             (f.npow (f.nabs (f.nmul (slip_rates O) slip_rate_softest)) x162)
         in
         let x167 = f.nmul x166 (f.nexp (f.nmul x164 (f.nmul x166 x166))) in
         let x168 = f.nadd x165 x167 in
         let x169 =
           f.nmul
             (f.npow (f.ndiv (f.nofZ (Zpos XH)) (f.nofZ (Zpos (XO XH)))) x161)
             (f.npow (f.nabs (f.nmul (slip_rates (S O)) slip_rate_softest))
               x162)
         in
         let x170 = f.nmul x169 (f.nexp (f.nmul x164 (f.nmul x169 x169))) in
         Ok (f.nadd x168 x170)
  | P2310 ->
    if f.neqb deformation_exponent f.nzero
    then Err DivZero
    else let x171 = f.nsub deformation_exponent stress_exponent in
         let x172 = f.ndiv stress_exponent deformation_exponent in
         let x173 =
           f.nmul (f.npow f.nzero x171)
             (f.npow
               (f.nabs (f.nmul (slip_rates (S (S (S O)))) slip_rate_softest))
               x172)
         in
         let x174 = f.nopp nucleation_efficiency in
         let x175 = f.nmul x173 (f.nexp (f.nmul x174 (f.nmul x173 x173))) in
         let x176 =
           f.nmul
             (f.npow (f.ndiv (f.nofZ (Zpos XH)) (f.nofZ (Zpos (XO XH)))) x171)
             (f.npow (f.nabs (f.nmul (slip_rates (S O)) slip_rate_softest))
               x172)
         in
         let x177 = f.nmul x176 (f.nexp (f.nmul x174 (f.nmul x176 x176))) in
         let x178 = f.nadd x175 x177 in
         let x179 =
           f.nmul
             (f.npow (f.ndiv (f.nofZ (Zpos XH)) (f.nofZ (Zpos (XI XH)))) x171)
             (f.npow (f.nabs (f.nmul (slip_rates O) slip_rate_softest)) x172)
         in
         let x180 = f.nmul x179 (f.nexp (f.nmul x174 (f.nmul x179 x179))) in
         Ok (f.nadd x178 x180)
  | P3012 ->
    if f.neqb deformation_exponent f.nzero
    then Err DivZero
    else let x181 = f.nsub deformation_exponent stress_exponent in
         let x182 = f.ndiv stress_exponent deformation_exponent in
         let x183 =
           f.nmul
             (f.npow (f.ndiv (f.nofZ (Zpos XH)) (f.nofZ (Zpos (XI XH)))) x181)
             (f.npow (f.nabs (f.nmul (slip_rates O) slip_rate_softest)) x182)
         in
         let x184 = f.nopp nucleation_efficiency in
         let x185 = f.nmul x183 (f.nexp (f.nmul x184 (f.nmul x183 x183))) in
         let x186 =
           f.nmul
             (f.npow (f.ndiv (f.nofZ (Zpos XH)) (f.nofZ (Zpos (XO XH)))) x181)
             (f.npow (f.nabs (f.nmul (slip_rates (S O)) slip_rate_softest))
               x182)
         in
         let x187 = f.nmul x186 (f.nexp (f.nmul x184 (f.nmul x186 x186))) in
         let x188 = f.nadd x185 x187 in
         let x189 =
           f.nmul (f.npow f.none x181)
             (f.npow
               (f.nabs (f.nmul (slip_rates (S (S O))) slip_rate_softest))
               x182)
         in
         let x190 = f.nmul x189 (f.nexp (f.nmul x184 (f.nmul x189 x189))) in
         Ok (f.nadd x188 x190)
  | P3021 ->
    if f.neqb deformation_exponent f.nzero
    then Err DivZero
    else let x191 = f.nsub deformation_exponent stress_exponent in
         let x192 = f.ndiv stress_exponent deformation_exponent in
         let x193 =
           f.nmul
             (f.npow (f.ndiv (f.nofZ (Zpos XH)) (f.nofZ (Zpos (XI XH)))) x191)
             (f.npow (f.nabs (f.nmul (slip_rates O) slip_rate_softest)) x192)
         in
         let x194 = f.nopp nucleation_efficiency in
         let x195 = f.nmul x193 (f.nexp (f.nmul x194 (f.nmul x193 x193))) in
         let x196 =
           f.nmul (f.npow f.none x191)
             (f.npow
               (f.nabs (f.nmul (slip_rates (S (S O))) slip_rate_softest))
               x192)
         in
         let x197 = f.nmul x196 (f.nexp (f.nmul x194 (f.nmul x196 x196))) in
         let x198 = f.nadd x195 x197 in
         let x199 =
           f.nmul
             (f.npow (f.ndiv (f.nofZ (Zpos XH)) (f.nofZ (Zpos (XO XH)))) x191)
             (f.npow (f.nabs (f.nmul (slip_rates (S O)) slip_rate_softest))
               x192)
         in
         let x200 = f.nmul x199 (f.nexp (f.nmul x194 (f.nmul x199 x199))) in
         Ok (f.nadd x198 x200)
  | P3102 ->
    if f.neqb deformation_exponent f.nzero
    then Err DivZero
    else let x201 = f.nsub deformation_exponent stress_exponent in
         let x202 = f.ndiv stress_exponent deformation_exponent in
         let x203 =
           f.nmul
             (f.npow (f.ndiv (f.nofZ (Zpos XH)) (f.nofZ (Zpos (XO XH)))) x201)
             (f.npow (f.nabs (f.nmul (slip_rates (S O)) slip_rate_softest))
               x202)
         in
         let x204 = f.nopp nucleation_efficiency in
         let x205 = f.nmul x203 (f.nexp (f.nmul x204 (f.nmul x203 x203))) in
         let x206 =
           f.nmul
             (f.npow (f.ndiv (f.nofZ (Zpos XH)) (f.nofZ (Zpos (XI XH)))) x201)
             (f.npow (f.nabs (f.nmul (slip_rates O) slip_rate_softest)) x202)
         in
         let x207 = f.nmul x206 (f.nexp (f.nmul x204 (f.nmul x206 x206))) in
         let x208 = f.nadd x205 x207 in
         let x209 =
           f.nmul (f.npow f.none x201)
             (f.npow
               (f.nabs (f.nmul (slip_rates (S (S O))) slip_rate_softest))
               x202)
         in
         let x210 = f.nmul x209 (f.nexp (f.nmul x204 (f.nmul x209 x209))) in
         Ok (f.nadd x208 x210)
  | P3120 ->
    if f.neqb deformation_exponent f.nzero
    then Err DivZero
    else let x211 = f.nsub deformation_exponent stress_exponent in
         let x212 = f.ndiv stress_exponent deformation_exponent in
         let x213 =
           f.nmul
             (f.npow (f.ndiv (f.nofZ (Zpos XH)) (f.nofZ (Zpos (XO XH)))) x211)
             (f.npow (f.nabs (f.nmul (slip_rates (S O)) slip_rate_softest))
               x212)
         in
         let x214 = f.nopp nucleation_efficiency in
         let x215 = f.nmul x213 (f.nexp (f.nmul x214 (f.nmul x213 x213))) in
         let x216 =
           f.nmul (f.npow f.none x211)
             (f.npow
               (f.nabs (f.nmul (slip_rates (S (S O))) slip_rate_softest))
               x212)
         in
         let x217 = f.nmul x216 (f.nexp (f.nmul x214 (f.nmul x216 x216))) in
         let x218 = f.nadd x215 x217 in
         let x219 =
           f.nmul
             (f.npow (f.ndiv (f.nofZ (Zpos XH)) (f.nofZ (Zpos (XI XH)))) x211)
             (f.npow (f.nabs (f.nmul (slip_rates O) slip_rate_softest)) x212)
         in
         let x220 = f.nmul x219 (f.nexp (f.nmul x214 (f.nmul x219 x219))) in
         Ok (f.nadd x218 x220)
  | P3201 ->
    if f.neqb deformation_exponent f.nzero
    then Err DivZero
    else let x221 = f.nsub deformation_exponent stress_exponent in
         let x222 = f.ndiv stress_exponent deformation_exponent in
         let x223 =
           f.nmul (f.npow f.none x221)
             (f.npow
               (f.nabs (f.nmul (slip_rates (S (S O))) slip_rate_softest))
               x222)
         in
         let x224 = f.nopp nucleation_efficiency in
         let x225 = f.nmul x223 (f.nexp (f.nmul x224 (f.nmul x223 x223))) in
         let x226 =
           f.nmul
             (f.npow (f.ndiv (f.nofZ (Zpos XH)) (f.nofZ (Zpos (XI XH)))) x221)
             (f.npow (f.nabs (f.nmul (slip_rates O) slip_rate_softest)) x222)
         in
         let x227 = f.nmul x226 (f.nexp (f.nmul x224 (f.nmul x226 x226))) in
         let x228 = f.nadd x225 x227 in
         let x229 =
           f.nmul
             (f.npow (f.ndiv (f.nofZ (Zpos XH)) (f.nofZ (Zpos (XO XH)))) x221)
             (f.npow (f.nabs (f.nmul (slip_rates (S O)) slip_rate_softest))
               x222)
         in
         let x230 = f.nmul x229 (f.nexp (f.nmul x224 (f.nmul x229 x229))) in
         Ok (f.nadd x228 x230)
  | P3210 ->
    if f.neqb deformation_exponent f.nzero
    then Err DivZero
    else let x231 = f.nsub deformation_exponent stress_exponent in
         let x232 = f.ndiv stress_exponent deformation_exponent in
         let x233 =
           f.nmul (f.npow f.none x231)
             (f.npow
               (f.nabs (f.nmul (slip_rates (S (S O))) slip_rate_softest))
               x232)
         in
         let x234 = f.nopp nucleation_efficiency in
         let x235 = f.nmul x233 (f.nexp (f.nmul x234 (f.nmul x233 x233))) in
         let x236 =
           f.nmul
             (f.npow (f.ndiv (f.nofZ (Zpos XH)) (f.nofZ (Zpos (XO XH)))) x231)
             (f.npow (f.nabs (f.nmul (slip_rates (S O)) slip_rate_softest))
               x232)
         in
         let x237 = f.nmul x236 (f.nexp (f.nmul x234 (f.nmul x236 x236))) in
         let x238 = f.nadd x235 x237 in
         let x239 =
           f.nmul
             (f.npow (f.ndiv (f.nofZ (Zpos XH)) (f.nofZ (Zpos (XI XH)))) x231)
             (f.npow (f.nabs (f.nmul (slip_rates O) slip_rate_softest)) x232)
         in
         let x240 = f.nmul x239 (f.nexp (f.nmul x234 (f.nmul x239 x239))) in
         Ok (f.nadd x238 x240)

(** val k_get_slip_rates_olivine_s_3_2_inf_1 :
    num -> t arr -> perm4 -> t -> t arr res **)

let k_get_slip_rates_olivine_s_3_2_inf_1 f invariants slip_indices deformation_exponent =
  match slip_indices with
  | P0123 ->
    if f.neqb (invariants (S (S (S O)))) f.nzero
    then Err DivZero
    else let x1 = f.ndiv f.none (invariants (S (S (S O)))) in
         let x2 =
           f.ndiv (f.nmul x1 (invariants (S O))) (f.nofZ (Zpos (XO XH)))
         in
         let x3 = f.nsub deformation_exponent f.none in
         let x4 = f.nmul x2 (f.npow (f.nabs x2) x3) in
         Ok (mk_arr f.nzero (f.nzero :: (x4 :: (f.nzero :: (f.none :: [])))))
  | P0213 ->
    if f.neqb (invariants (S (S (S O)))) f.nzero
    then Err DivZero
    else let x5 = f.ndiv f.none (invariants (S (S (S O)))) in
         let x6 =
           f.ndiv (f.nmul x5 (invariants (S O))) (f.nofZ (Zpos (XO XH)))
         in
         let x7 = f.nsub deformation_exponent f.none in
         let x8 = f.nmul x6 (f.npow (f.nabs x6) x7) in
         Ok (mk_arr f.nzero (f.nzero :: (x8 :: (f.nzero :: (f.none :: [])))))
  | P0231 ->
    if f.neqb (invariants (S O)) f.nzero
    then Err DivZero
    else let x9 = f.ndiv (f.nofZ (Zpos (XO XH))) (invariants (S O)) in
         let x10 = f.nmul x9 (invariants (S (S (S O)))) in
         let x11 = f.nsub deformation_exponent f.none in
         let x12 = f.nmul x10 (f.npow (f.nabs x10) x11) in
         Ok (mk_arr f.nzero (f.nzero :: (f.none :: (f.nzero :: (x12 :: [])))))
  | P0321 ->
    if f.neqb (invariants (S O)) f.nzero
    then Err DivZero
    else let x13 = f.ndiv (f.nofZ (Zpos (XO XH))) (invariants (S O)) in
         let x14 = f.nmul x13 (invariants (S (S (S O)))) in
         let x15 = f.nsub deformation_exponent f.none in
         let x16 = f.nmul x14 (f.npow (f.nabs x14) x15) in
         Ok (mk_arr f.nzero (f.nzero :: (f.none :: (f.nzero :: (x16 :: [])))))
  | P1023 ->
    if f.neqb (invariants (S (S (S O)))) f.nzero
    then Err DivZero
    else let x17 = f.ndiv f.none (invariants (S (S (S O)))) in
         let x18 = f.ndiv (f.nmul x17 (invariants O)) (f.nofZ (Zpos (XI XH)))
         in
         let x19 = f.nsub deformation_exponent f.none in
         let x20 = f.nmul x18 (f.npow (f.nabs x18) x19) in
         Ok (mk_arr f.nzero (x20 :: (f.nzero :: (f.nzero :: (f.none :: [])))))
  | P1203 ->
    if f.neqb (invariants (S (S (S O)))) f.nzero
    then Err DivZero
    else let x21 = f.ndiv f.none (invariants (S (S (S O)))) in
         let x22 = f.ndiv (f.nmul x21 (invariants O)) (f.nofZ (Zpos (XI XH)))
         in
         let x23 = f.nsub deformation_exponent f.none in
         let x24 = f.nmul x22 (f.npow (f.nabs x22) x23) in
         Ok (mk_arr f.nzero (x24 :: (f.nzero :: (f.nzero :: (f.none :: [])))))
  | P1230 ->
    if f.neqb (invariants O) f.nzero
    then Err DivZero
    else let x25 = f.ndiv (f.nofZ (Zpos (XI XH))) (invariants O) in
         let x26 = f.nmul x25 (invariants (S (S (S O)))) in
         let x27 = f.nsub deformation_exponent f.none in
         let x28 = f.nmul x26 (f.npow (f.nabs x26) x27) in
         Ok (mk_arr f.nzero (f.none :: (f.nzero :: (f.nzero :: (x28 :: [])))))
  | P1320 ->
    if f.neqb (invariants O) f.nzero
    then Err DivZero
    else let x29 = f.ndiv (f.nofZ (Zpos (XI XH))) (invariants O) in
         let x30 = f.nmul x29 (invariants (S (S (S O)))) in
         let x31 = f.nsub deformation_exponent f.none in
         let x32 = f.nmul x30 (f.npow (f.nabs x30) x31) in
         Ok (mk_arr f.nzero (f.none :: (f.nzero :: (f.nzero :: (x32 :: [])))))
  | P2013 ->
    if f.neqb (invariants (S (S (S O)))) f.nzero
    then Err DivZero
    else let x33 = f.ndiv f.none (invariants (S (S (S O)))) in
         let x34 = f.ndiv (f.nmul x33 (invariants O)) (f.nofZ (Zpos (XI XH)))
         in
         let x35 = f.nsub deformation_exponent f.none in
         let x36 = f.nmul x34 (f.npow (f.nabs x34) x35) in
         let x37 =
           f.ndiv (f.nmul x33 (invariants (S O))) (f.nofZ (Zpos (XO XH)))
         in
         let x38 = f.nmul x37 (f.npow (f.nabs x37) x35) in
         Ok (mk_arr f.nzero (x36 :: (x38 :: (f.nzero :: (f.none :: [])))))
  | P2031 ->
    if f.neqb (invariants (S O)) f.nzero
    then Err DivZero
    else let x39 = f.ndiv (f.nofZ (Zpos (XO XH))) (invariants (S O)) in
         let x40 = f.ndiv (f.nmul x39 (invariants O)) (f.nofZ (Zpos (XI XH)))
         in
         let x41 = f.nsub deformation_exponent f.none in
         let x42 = f.nmul x40 (f.npow (f.nabs x40) x41) in
         let x43 = f.nmul x39 (invariants (S (S (S O)))) in
         let x44 = f.nmul x43 (f.npow (f.nabs x43) x41) in
         Ok (mk_arr f.nzero (x42 :: (f.none :: (f.nzero :: (x44 :: [])))))
  | P2103 ->
    if f.neqb (invariants (S (S (S O)))) f.nzero
    then Err DivZero
    else let x45 = f.ndiv f.none (invariants (S (S (S O)))) in
         let x46 = f.ndiv (f.nmul x45 (invariants O)) (f.nofZ (Zpos (XI XH)))
         in
         let x47 = f.nsub deformation_exponent f.none in
         let x48 = f.nmul x46 (f.npow (f.nabs x46) x47) in
         let x49 =
           f.ndiv (f.nmul x45 (invariants (S O))) (f.nofZ (Zpos (XO XH)))
         in
         let x50 = f.nmul x49 (f.npow (f.nabs x49) x47) in
         Ok (mk_arr f.nzero (x48 :: (x50 :: (f.nzero :: (f.none :: [])))))
  | P2130 ->
    if f.neqb (invariants O) f.nzero
    then Err DivZero
    else let x51 = f.ndiv (f.nofZ (Zpos (XI XH))) (invariants O) in
         let x52 =
           f.ndiv (f.nmul x51 (invariants (S O))) (f.nofZ (Zpos (XO XH)))
         in
         let x53 = f.nsub deformation_exponent f.none in
         let x54 = f.nmul x52 (f.npow (f.nabs x52) x53) in
         let x55 = f.nmul x51 (invariants (S (S (S O)))) in
         let x56 = f.nmul x55 (f.npow (f.nabs x55) x53) in
         Ok (mk_arr f.nzero (f.none :: (x54 :: (f.nzero :: (x56 :: [])))))
  | P2301 ->
    if f.neqb (invariants (S O)) f.nzero
    then Err DivZero
    else let x57 = f.ndiv (f.nofZ (Zpos (XO XH))) (invariants (S O)) in
         let x58 = f.ndiv (f.nmul x57 (invariants O)) (f.nofZ (Zpos (XI XH)))
         in
         let x59 = f.nsub deformation_exponent f.none in
         let x60 = f.nmul x58 (f.npow (f.nabs x58) x59) in
         let x61 = f.nmul x57 (invariants (S (S (S O)))) in
         let x62 = f.nmul x61 (f.npow (f.nabs x61) x59) in
         Ok (mk_arr f.nzero (x60 :: (f.none :: (f.nzero :: (x62 :: [])))))
  | P2310 ->
    if f.neqb (invariants O) f.nzero
    then Err DivZero
    else let x63 = f.ndiv (f.nofZ (Zpos (XI XH))) (invariants O) in
         let x64 =
           f.ndiv (f.nmul x63 (invariants (S O))) (f.nofZ (Zpos (XO XH)))
         in
         let x65 = f.nsub deformation_exponent f.none in
         let x66 = f.nmul x64 (f.npow (f.nabs x64) x65) in
         let x67 = f.nmul x63 (invariants (S (S (S O)))) in
         let x68 = f.nmul x67 (f.npow (f.nabs x67) x65) in
         Ok (mk_arr f.nzero (f.none :: (x66 :: (f.nzero :: (x68 :: [])))))
  | P3021 ->
    if f.neqb (invariants (S O)) f.nzero
    then Err DivZero
    else let x69 = f.ndiv (f.nofZ (Zpos (XO XH))) (invariants (S O)) in
         let x70 = f.ndiv (f.nmul x69 (invariants O)) (f.nofZ (Zpos (XI XH)))
         in
         let x71 = f.nsub deformation_exponent f.none in
         let x72 = f.nmul x70 (f.npow (f.nabs x70) x71) in
         Ok (mk_arr f.nzero (x72 :: (f.none :: (f.nzero :: (f.nzero :: [])))))
  | P3120 ->
    if f.neqb (invariants O) f.nzero
    then Err DivZero
    else let x73 = f.ndiv (f.nofZ (Zpos (XI XH))) (invariants O) in
         let x74 =
           f.ndiv (f.nmul x73 (invariants (S O))) (f.nofZ (Zpos (XO XH)))
         in
         let x75 = f.nsub deformation_exponent f.none in
         let x76 = f.nmul x74 (f.npow (f.nabs x74) x75) in
         Ok (mk_arr f.nzero (f.none :: (x76 :: (f.nzero :: (f.nzero :: [])))))
  | P3201 ->
    if f.neqb (invariants (S O)) f.nzero
    then Err DivZero
    else let x77 = f.ndiv (f.nofZ (Zpos (XO XH))) (invariants (S O)) in
         let x78 = f.ndiv (f.nmul x77 (invariants O)) (f.nofZ (Zpos (XI XH)))
         in
         let x79 = f.nsub deformation_exponent f.none in
         let x80 = f.nmul x78 (f.npow (f.nabs x78) x79) in
         Ok (mk_arr f.nzero (x80 :: (f.none :: (f.nzero :: (f.nzero :: [])))))
  | P3210 ->
    if f.neqb (invariants O) f.nzero
    then Err DivZero
    else let x81 = f.ndiv (f.nofZ (Zpos (XI XH))) (invariants O) in
         let x82 =
           f.ndiv (f.nmul x81 (invariants (S O))) (f.nofZ (Zpos (XO XH)))
         in
         let x83 = f.nsub deformation_exponent f.none in
         let x84 = f.nmul x82 (f.npow (f.nabs x82) x83) in
         Ok (mk_arr f.nzero (f.none :: (x84 :: (f.nzero :: (f.nzero :: [])))))
  | _ ->
    if f.neqb (invariants (S (S O))) f.nzero
    then Err DivZero
    else Err NonFinite

(** val k_get_strain_energy_s_3_2_inf_1 :
    num -> t arr -> perm4 -> t -> t -> t -> t -> t res **)

let k_get_strain_energy_s_3_2_inf_1 f slip_rates slip_indices slip_rate_softest stress_exponent deformation_exponent nucleation_efficiency =
  match slip_indices with
  | P0123 ->
    if f.neqb deformation_exponent f.nzero
    then Err DivZero
    else let x1 = f.nsub deformation_exponent stress_exponent in
         let x2 = f.ndiv stress_exponent deformation_exponent in
         let x3 =
           f.nmul
             (f.npow (f.ndiv (f.nofZ (Zpos XH)) (f.nofZ (Zpos (XO XH)))) x1)
             (f.npow (f.nabs (f.nmul (slip_rates (S O)) slip_rate_softest))
               x2)
         in
         let x4 = f.nopp nucleation_efficiency in
         let x5 = f.nmul x3 (f.nexp (f.nmul x4 (f.nmul x3 x3))) in
         let x6 =
           f.nmul (f.npow f.nzero x1)
             (f.npow
               (f.nabs (f.nmul (slip_rates (S (S O))) slip_rate_softest)) x2)
         in
         let x7 = f.nmul x6 (f.nexp (f.nmul x4 (f.nmul x6 x6))) in
         let x8 = f.nadd x5 x7 in
         let x9 =
           f.nmul (f.npow f.none x1)
             (f.npow
               (f.nabs (f.nmul (slip_rates (S (S (S O)))) slip_rate_softest))
               x2)
         in
         let x10 = f.nmul x9 (f.nexp (f.nmul x4 (f.nmul x9 x9))) in
         Ok (f.nadd x8 x10)
  | P0132 ->
    if f.neqb deformation_exponent f.nzero
    then Err DivZero
    else let x11 = f.nsub deformation_exponent stress_exponent in
         let x12 = f.ndiv stress_exponent deformation_exponent in
         let x13 =
           f.nmul
             (f.npow (f.ndiv (f.nofZ (Zpos XH)) (f.nofZ (Zpos (XO XH)))) x11)
             (f.npow (f.nabs (f.nmul (slip_rates (S O)) slip_rate_softest))
               x12)
         in
         let x14 = f.nopp nucleation_efficiency in
         let x15 = f.nmul x13 (f.nexp (f.nmul x14 (f.nmul x13 x13))) in
         let x16 =
           f.nmul (f.npow f.none x11)
             (f.npow
               (f.nabs (f.nmul (slip_rates (S (S (S O)))) slip_rate_softest))
               x12)
         in
         let x17 = f.nmul x16 (f.nexp (f.nmul x14 (f.nmul x16 x16))) in
         let x18 = f.nadd x15 x17 in
         let x19 =
           f.nmul (f.npow f.nzero x11)
             (f.npow
               (f.nabs (f.nmul (slip_rates (S (S O))) slip_rate_softest)) x12)
         in
         let x20 = f.nmul x19 (f.nexp (f.nmul x14 (f.nmul x19 x19))) in
         Ok (f.nadd x18 x20)
  | P0213 ->
    if f.neqb deformation_exponent f.nzero
    then Err DivZero
    else let x21 = f.nsub deformation_exponent stress_exponent in
         let x22 = f.ndiv stress_exponent deformation_exponent in
         let x23 =
           f.nmul (f.npow f.nzero x21)
             (f.npow
               (f.nabs (f.nmul (slip_rates (S (S O))) slip_rate_softest)) x22)
         in
         let x24 = f.nopp nucleation_efficiency in
         let x25 = f.nmul x23 (f.nexp (f.nmul x24 (f.nmul x23 x23))) in
         let x26 =
           f.nmul
             (f.npow (f.ndiv (f.nofZ (Zpos XH)) (f.nofZ (Zpos (XO XH)))) x21)
             (f.npow (f.nabs (f.nmul (slip_rates (S O)) slip_rate_softest))
               x22)
         in
         let x27 = f.nmul x26 (f.nexp (f.nmul x24 (f.nmul x26 x26))) in
         let x28 = f.nadd x25 x27 in
         let x29 =
           f.nmul (f.npow f.none x21)
             (f.npow
               (f.nabs (f.nmul (slip_rates (S (S (S O)))) slip_rate_softest))
               x22)
         in
         let x30 = f.nmul x29 (f.nexp (f.nmul x24 (f.nmul x29 x29))) in
         Ok (f.nadd x28 x30)
  | P0231 ->
    if f.neqb deformation_exponent f.nzero
    then Err DivZero
    else let x31 = f.nsub deformation_exponent stress_exponent in
         let x32 = f.ndiv stress_exponent deformation_exponent in
         let x33 =
           f.nmul (f.npow f.nzero x31)
             (f.npow
               (f.nabs (f.nmul (slip_rates (S (S O))) slip_rate_softest)) x32)
         in
         let x34 = f.nopp nucleation_efficiency in
         let x35 = f.nmul x33 (f.nexp (f.nmul x34 (f.nmul x33 x33))) in
         let x36 =
           f.nmul (f.npow f.none x31)
             (f.npow
               (f.nabs (f.nmul (slip_rates (S (S (S O)))) slip_rate_softest))
               x32)
         in
         let x37 = f.nmul x36 (f.nexp (f.nmul x34 (f.nmul x36 x36))) in
         let x38 = f.nadd x35 x37 in
         let x39 =
           f.nmul
             (f.npow (f.ndiv (f.nofZ (Zpos XH)) (f.nofZ (Zpos (XO XH)))) x31)
             (f.npow (f.nabs (f.nmul (slip_rates (S O)) slip_rate_softest))
               x32)
         in
         let x40 = f.nmul x39 (f.nexp (f.nmul x34 (f.nmul x39 x39))) in
         Ok (f.nadd x38 x40)
  | P0312 ->
    if f.neqb deformation_exponent f.nzero
    then Err DivZero
    else let x41 = f.nsub deformation_exponent stress_exponent in
         let x42 = f.ndiv stress_exponent deformation_exponent in
         let x43 =
           f.nmul (f.npow f.none x41)
             (f.npow
               (f.nabs (f.nmul (slip_rates (S (S (S O)))) slip_rate_softest))
               x42)
         in
         let x44 = f.nopp nucleation_efficiency in
         let x45 = f.nmul x43 (f.nexp (f.nmul x44 (f.nmul x43 x43))) in
         let x46 =
           f.nmul
             (f.npow (f.ndiv (f.nofZ (Zpos XH)) (f.nofZ (Zpos (XO XH)))) x41)
             (f.npow (f.nabs (f.nmul (slip_rates (S O)) slip_rate_softest))
               x42)
         in
         let x47 = f.nmul x46 (f.nexp (f.nmul x44 (f.nmul x46 x46))) in
         let x48 = f.nadd x45 x47 in
         let x49 =
           f.nmul (f.npow f.nzero x41)
             (f.npow
               (f.nabs (f.nmul (slip_rates (S (S O))) slip_rate_softest)) x42)
         in
         let x50 = f.nmul x49 (f.nexp (f.nmul x44 (f.nmul x49 x49))) in
         Ok (f.nadd x48 x50)
  | P0321 ->
    if f.neqb deformation_exponent f.nzero
    then Err DivZero
    else let x51 = f.nsub deformation_exponent stress_exponent in
         let x52 = f.ndiv stress_exponent deformation_exponent in
         let x53 =
           f.nmul (f.npow f.none x51)
             (f.npow
               (f.nabs (f.nmul (slip_rates (S (S (S O)))) slip_rate_softest))
               x52)
         in
         let x54 = f.nopp nucleation_efficiency in
         let x55 = f.nmul x53 (f.nexp (f.nmul x54 (f.nmul x53 x53))) in
         let x56 =
           f.nmul (f.npow f.nzero x51)
             (f.npow
               (f.nabs (f.nmul (slip_rates (S (S O))) slip_rate_softest)) x52)
         in
         let x57 = f.nmul x56 (f.nexp (f.nmul x54 (f.nmul x56 x56))) in
         let x58 = f.nadd x55 x57 in
         let x59 =
           f.nmul
             (f.npow (f.ndiv (f.nofZ (Zpos XH)) (f.nofZ (Zpos (XO XH)))) x51)
             (f.npow (f.nabs (f.nmul (slip_rates (S O)) slip_rate_softest))
               x52)
         in
         let x60 = f.nmul x59 (f.nexp (f.nmul x54 (f.nmul x59 x59))) in
         Ok (f.nadd x58 x60)
  | P1023 ->
    if f.neqb deformation_exponent f.nzero
    then Err DivZero
    else let x61 = f.nsub deformation_exponent stress_exponent in
         let x62 = f.ndiv stress_exponent deformation_exponent in
         let x63 =
           f.nmul
             (f.npow (f.ndiv (f.nofZ (Zpos XH)) (f.nofZ (Zpos (XI XH)))) x61)
             (f.npow (f.nabs (f.nmul (slip_rates O) slip_rate_softest)) x62)
         in
         let x64 = f.nopp nucleation_efficiency in
         let x65 = f.nmul x63 (f.nexp (f.nmul x64 (f.nmul x63 x63))) in
         let x66 =
           f.nmul (f.npow f.nzero x61)
             (f.npow
               (f.nabs (f.nmul (slip_rates (S (S O))) slip_rate_softest)) x62)
         in
         let x67 = f.nmul x66 (f.nexp (f.nmul x64 (f.nmul x66 x66))) in
         let x68 = f.nadd x65 x67 in
         let x69 =
           f.nmul (f.npow f.none x61)
             (f.npow
               (f.nabs (f.nmul (slip_rates (S (S (S O)))) slip_rate_softest))
               x62)
         in
         let x70 = f.nmul x69 (f.nexp (f.nmul x64 (f.nmul x69 x69))) in
         Ok (f.nadd x68 x70)
  | P1032 ->
    if f.neqb deformation_exponent f.nzero
    then Err DivZero
    else let x71 = f.nsub deformation_exponent stress_exponent in
         let x72 = f.ndiv stress_exponent deformation_exponent in
         let x73 =
           f.nmul
             (f.npow (f.ndiv (f.nofZ (Zpos XH)) (f.nofZ (Zpos (XI XH)))) x71)
             (f.npow (f.nabs (f.nmul (slip_rates O) slip_rate_softest)) x72)
         in
         let x74 = f.nopp nucleation_efficiency in
         let x75 = f.nmul x73 (f.nexp (f.nmul x74 (f.nmul x73 x73))) in
         let x76 =
           f.nmul (f.npow f.none x71)
             (f.npow
               (f.nabs (f.nmul (slip_rates (S (S (S O)))) slip_rate_softest))
               x72)
         in
         let x77 = f.nmul x76 (f.nexp (f.nmul x74 (f.nmul x76 x76))) in
         let x78 = f.nadd x75 x77 in
         let x79 =
           f.nmul (f.npow f.nzero x71)
             (f.npow
               (f.nabs (f.nmul (slip_rates (S (S O))) slip_rate_softest)) x72)
         in
         let x80 = f.nmul x79 (f.nexp (f.nmul x74 (f.nmul x79 x79))) in
         Ok (f.nadd x78 x80)
  | P1203 ->
    if f.neqb deformation_exponent f.nzero
    then Err DivZero
    else let x81 = f.nsub deformation_exponent stress_exponent in
         let x82 = f.ndiv stress_exponent deformation_exponent in
         let x83 =
           f.nmul (f.npow f.nzero x81)
             (f.npow
               (f.nabs (f.nmul (slip_rates (S (S O))) slip_rate_softest)) x82)
         in
         let x84 = f.nopp nucleation_efficiency in
         let x85 = f.nmul x83 (f.nexp (f.nmul x84 (f.nmul x83 x83))) in
         let x86 =
           f.nmul
             (f.npow (f.ndiv (f.nofZ (Zpos XH)) (f.nofZ (Zpos (XI XH)))) x81)
             (f.npow (f.nabs (f.nmul (slip_rates O) slip_rate_softest)) x82)
         in
         let x87 = f.nmul x86 (f.nexp (f.nmul x84 (f.nmul x86 x86))) in
         let x88 = f.nadd x85 x87 in
         let x89 =
           f.nmul (f.npow f.none x81)
             (f.npow
               (f.nabs (f.nmul (slip_rates (S (S (S O)))) slip_rate_softest))
               x82)
         in
         let x90 = f.nmul x89 (f.nexp (f.nmul x84 (f.nmul x89 x89))) in
         Ok (f.nadd x88 x90)
  | P1230 ->
    if f.neqb deformation_exponent f.nzero
    then Err DivZero
    else let x91 = f.nsub deformation_exponent stress_exponent in
         let x92 = f.ndiv stress_exponent deformation_exponent in
         let x93 =
           f.nmul (f.npow f.nzero x91)
             (f.npow
               (f.nabs (f.nmul (slip_rates (S (S O))) slip_rate_softest)) x92)
         in
         let x94 = f.nopp nucleation_efficiency in
         let x95 = f.nmul x93 (f.nexp (f.nmul x94 (f.nmul x93 x93))) in
         let x96 =
           f.nmul (f.npow f.none x91)
             (f.npow
               (f.nabs (f.nmul (slip_rates (S (S (S O)))) slip_rate_softest))
               x92)
         in
         let x97 = f.nmul x96 (f.nexp (f.nmul x94 (f.nmul x96 x96))) in
         let x98 = f.nadd x95 x97 in
         let x99 =
           f.nmul
             (f.npow (f.ndiv (f.nofZ (Zpos XH)) (f.nofZ (Zpos (XI XH)))) x91)
             (f.npow (f.nabs (f.nmul (slip_rates O) slip_rate_softest)) x92)
         in
         let x100 = f.nmul x99 (f.nexp (f.nmul x94 (f.nmul x99 x99))) in
         Ok (f.nadd x98 x100)
  | P1302 ->
    if f.neqb deformation_exponent f.nzero
    then Err DivZero
    else let x101 = f.nsub deformation_exponent stress_exponent in
         let x102 = f.ndiv stress_exponent deformation_exponent in
         let x103 =
           f.nmul (f.npow f.none x101)
             (f.npow
               (f.nabs (f.nmul (slip_rates (S (S (S O)))) slip_rate_softest))
               x102)
         in
         let x104 = f.nopp nucleation_efficiency in
         let x105 = f.nmul x103 (f.nexp (f.nmul x104 (f.nmul x103 x103))) in
         let x106 =
           f.nmul
             (f.npow (f.ndiv (f.nofZ (Zpos XH)) (f.nofZ (Zpos (XI XH)))) x101)
             (f.npow (f.nabs (f.nmul (slip_rates O) slip_rate_softest)) x102)
         in
         let x107 = f.nmul x106 (f.nexp (f.nmul x104 (f.nmul x106 x106))) in
         let x108 = f.nadd x105 x107 in
         let x109 =
           f.nmul (f.npow f.nzero x101)
             (f.npow
               (f.nabs (f.nmul (slip_rates (S (S O))) slip_rate_softest))
               x102)
         in
         let x110 = f.nmul x109 (f.nexp (f.nmul x104 (f.nmul x109 x109))) in
         Ok (f.nadd x108 x110)
  | P1320 ->
    if f.neqb deformation_exponent f.nzero
    then Err DivZero
    else let x111 = f.nsub deformation_exponent stress_exponent in
         let x112 = f.ndiv stress_exponent deformation_exponent in
         let x113 =
           f.nmul (f.npow f.none x111)
             (f.npow
               (f.nabs (f.nmul (slip_rates (S (S (S O)))) slip_rate_softest))
               x112)
         in
         let x114 = f.nopp nucleation_efficiency in
         let x115 = f.nmul x113 (f.nexp (f.nmul x114 (f.nmul x113 x113))) in
         let x116 =
           f.nmul (f.npow f.nzero x111)
             (f.npow
               (f.nabs (f.nmul (slip_rates (S (S O))) slip_rate_softest))
               x112)
         in
         let x117 = f.nmul x116 (f.nexp (f.nmul x114 (f.nmul x116 x116))) in
         let x118 = f.nadd x115 x117 in
         let x119 =
           f.nmul
             (f.npow (f.ndiv (f.nofZ (Zpos XH)) (f.nofZ (Zpos (XI XH)))) x111)
             (f.npow (f.nabs (f.nmul (slip_rates O) slip_rate_softest)) x112)
         in
         let x120 = f.nmul x119 (f.nexp (f.nmul x114 (f.nmul x119 x119))) in
         Ok (f.nadd x118 x120)
  | P2013 ->
    if f.neqb deformation_exponent f.nzero
    then Err DivZero
    else let x121 = f.nsub deformation_exponent stress_exponent in
         let x122 = f.ndiv stress_exponent deformation_exponent in
         let x123 =
           f.nmul
             (f.npow (f.ndiv (f.nofZ (Zpos XH)) (f.nofZ (Zpos (XI XH)))) x121)
             (f.npow (f.nabs (f.nmul (slip_rates O) slip_rate_softest)) x122)
         in
         let x124 = f.nopp nucleation_efficiency in
         let x125 = f.nmul x123 (f.nexp (f.nmul x124 (f.nmul x123 x123))) in
         let x126 =
           f.nmul
             (f.npow (f.ndiv (f.nofZ (Zpos XH)) (f.nofZ (Zpos (XO XH)))) x121)
             (f.npow (f.nabs (f.nmul (slip_rates (S O)) slip_rate_softest))
               x122)
         in
         let x127 = f.nmul x126 (f.nexp (f.nmul x124 (f.nmul x126 x126))) in
         let x128 = f.nadd x125 x127 in
         let x129 =
           f.nmul (f.npow f.none x121)
             (f.npow
               (f.nabs (f.nmul (slip_rates (S (S (S O)))) slip_rate_softest))
               x122)
         in
         let x130 = f.nmul x129 (f.nexp (f.nmul x124 (f.nmul x129 x129))) in
         Ok (f.nadd x128 x130)
  | P2031 ->
    if f.neqb deformation_exponent f.nzero
    then Err DivZero
    else let x131 = f.nsub deformation_exponent stress_exponent in
         let x132 = f.ndiv stress_exponent deformation_exponent in
         let x133 =
           f.nmul
             (f.npow (f.ndiv (f.nofZ (Zpos XH)) (f.nofZ (Zpos (XI XH)))) x131)
             (f.npow (f.nabs (f.nmul (slip_rates O) slip_rate_softest)) x132)
         in
         let x134 = f.nopp nucleation_efficiency in
         let x135 = f.nmul x133 (f.nexp (f.nmul x134 (f.nmul x133 x133))) in
         let x136 =
           f.nmul (f.npow f.none x131)
             (f.npow
               (f.nabs (f.nmul (slip_rates (S (S (S O)))) slip_rate_softest))
               x132)
         in
         let x137 = f.nmul x136 (f.nexp (f.nmul x134 (f.nmul x136 x136))) in
         let x138 = f.nadd x135 x137 in
         let x139 =
           f.nmul
             (f.npow (f.ndiv (f.nofZ (Zpos XH)) (f.nofZ (Zpos (XO XH)))) x131)
             (f.npow (f.nabs (f.nmul (slip_rates (S O)) slip_rate_softest))
               x132)
         in
         let x140 = f.nmul x139 (f.nexp (f.nmul x134 (f.nmul x139 x139))) in
         Ok (f.nadd x138 x140)
  | P2103 ->
    if f.neqb deformation_exponent f.nzero
    then Err DivZero
    else let x141 = f.nsub deformation_exponent stress_exponent in
         let x142 = f.ndiv stress_exponent deformation_exponent in
         let x143 =
           f.nmul
             (f.npow (f.ndiv (f.nofZ (Zpos XH)) (f.nofZ (Zpos (XO XH)))) x141)
             (f.npow (f.nabs (f.nmul (slip_rates (S O)) slip_rate_softest))
               x142)
         in
         let x144 = f.nopp nucleation_efficiency in
         let x145 = f.nmul x143 (f.nexp (f.nmul x144 (f.nmul x143 x143))) in
         let x146 =
           f.nmul
             (f.npow (f.ndiv (f.nofZ (Zpos XH)) (f.nofZ (Zpos (XI XH)))) x141)
             (f.npow (f.nabs (f.nmul (slip_rates O) slip_rate_softest)) x142)
         in
         let x147 = f.nmul x146 (f.nexp (f.nmul x144 (f.nmul x146 x146))) in
         let x148 = f.nadd x145 x147 in
         let x149 =
           f.nmul (f.npow f.none x141)
             (f.npow
               (f.nabs (f.nmul (slip_rates (S (S (S O)))) slip_rate_softest))
               x142)
         in
         let x150 = f.nmul x149 (f.nexp (f.nmul x144 (f.nmul x149 x149))) in
         Ok (f.nadd x148 x150)
  | P2130 ->
    if f.neqb deformation_exponent f.nzero
    then Err DivZero
    else let x151 = f.nsub deformation_exponent stress_exponent in
         let x152 = f.ndiv stress_exponent deformation_exponent in
         let x153 =
           f.nmul
             (f.npow (f.ndiv (f.nofZ (Zpos XH)) (f.nofZ (Zpos (XO XH)))) x151)
             (f.npow (f.nabs (f.nmul (slip_rates (S O)) slip_rate_softest))
               x152)
         in
         let x154 = f.nopp nucleation_efficiency in
         let x155 = f.nmul x153 (f.nexp (f.nmul x154 (f.nmul x153 x153))) in
         let x156 =
           f.nmul (f.npow f.none x151)
             (f.npow
               (f.nabs (f.nmul (slip_rates (S (S (S O)))) slip_rate_softest))
               x152)
         in
         let x157 = f.nmul x156 (f.nexp (f.nmul x154 (f.nmul x156 x156))) in
         let x158 = f.nadd x155 x157 in
         let x159 =
           f.nmul
             (f.npow (f.ndiv (f.nofZ (Zpos XH)) (f.nofZ (Zpos (XI XH)))) x151)
             (f.npow (f.nabs (f.nmul (slip_rates O) slip_rate_softest)) x152)
         in
         let x160 = f.nmul x159 (f.nexp (f.nmul x154 (f.nmul x159 x159))) in
         Ok (f.nadd x158 x160)
  | P2301 ->
    if f.neqb deformation_exponent f.nzero
    then Err DivZero
    else let x161 = f.nsub deformation_exponent stress_exponent in
         let x162 = f.ndiv stress_exponent deformation_exponent in
         let x163 =
           f.nmul (f.npow f.none x161)
             (f.npow
               (f.nabs (f.nmul (slip_rates (S (S (S O)))) slip_rate_softest))
               x162)
         in
         let x164 = f.nopp nucleation_efficiency in
         let x165 = f.nmul x163 (f.nexp (f.nmul x164 (f.nmul x163 x163))) in
         let x166 =
           f.nmul
             (f.npow (f.ndiv (f.nofZ (Zpos XH)) (f.nofZ (Zpos (XI XH)))) x161)
             (f.npow (f.nabs (f.nmul (slip_rates O) slip_rate_softest)) x162)
         in
         let x167 = f.nmul x166 (f.nexp (f.nmul x164 (f.nmul x166 x166))) in
         let x168 = f.nadd x165 x167 in
         let x169 =
           f.nmul
             (f.npow (f.ndiv (f.nofZ (Zpos XH)) (f.nofZ (Zpos (XO XH)))) x161)
             (f.npow (f.nabs (f.nmul (slip_rates (S O)) slip_rate_softest))
               x162)
         in
         let x170 = f.nmul x169 (f.nexp (f.nmul x164 (f.nmul x169 x169))) in
         Ok (f.nadd x168 x170)
  | P2310 ->
    if f.neqb deformation_exponent f.nzero
    then Err DivZero
    else let x171 = f.nsub deformation_exponent stress_exponent in
         let x172 = f.ndiv stress_exponent deformation_exponent in
         let x173 =
           f.nmul (f.npow f.none x171)
             (f.npow
               (f.nabs (f.nmul (slip_rates (S (S (S O)))) slip_rate_softest))
               x172)
         in
         let x174 = f.nopp nucleation_efficiency in
         let x175 = f.nmul x173 (f.nexp (f.nmul x174 (f.nmul x173 x173))) in
         let x176 =
           f.nmul
             (f.npow (f.ndiv (f.nofZ (Zpos XH)) (f.nofZ (Zpos (XO XH)))) x171)
             (f.npow (f.nabs (f.nmul (slip_rates (S O)) slip_rate_softest))
               x172)
         in
         let x177 = f.nmul x176 (f.nexp (f.nmul x174 (f.nmul x176 x176))) in
         let x178 = f.nadd x175 x177 in
         let x179 =
           f.nmul
             (f.npow (f.ndiv (f.nofZ (Zpos XH)) (f.nofZ (Zpos (XI XH)))) x171)
             (f.npow (f.nabs (f.nmul (slip_rates O) slip_rate_softest)) x172)
         in
         let x180 = f.nmul x179 (f.nexp (f.nmul x174 (f.nmul x179 x179))) in
         Ok (f.nadd x178 x180)
  | P3012 ->
    if f.neqb deformation_exponent f.nzero
    then Err DivZero
    else let x181 = f.nsub deformation_exponent stress_exponent in
         let x182 = f.ndiv stress_exponent deformation_exponent in
         let x183 =
           f.nmul
             (f.npow (f.ndiv (f.nofZ (Zpos XH)) (f.nofZ (Zpos (XI XH)))) x181)
             (f.npow (f.nabs (f.nmul (slip_rates O) slip_rate_softest)) x182)
         in
         let x184 = f.nopp nucleation_efficiency in
         let x185 = f.nmul x183 (f.nexp (f.nmul x184 (f.nmul x183 x183))) in
         let x186 =
           f.nmul
             (f.npow (f.ndiv (f.nofZ (Zpos XH)) (f.nofZ (Zpos (XO XH)))) x181)
             (f.npow (f.nabs (f.nmul (slip_rates (S O)) slip_rate_softest))
               x182)
         in
         let x187 = f.nmul x186 (f.nexp (f.nmul x184 (f.nmul x186 x186))) in
         let x188 = f.nadd x185 x187 in
         let x189 =
           f.nmul (f.npow f.nzero x181)
             (f.npow
               (f.nabs (f.nmul (slip_rates (S (S O))) slip_rate_softest))
               x182)
         in
         let x190 = f.nmul x189 (f.nexp (f.nmul x184 (f.nmul x189 x189))) in
         Ok (f.nadd x188 x190)
  | P3021 ->
    if f.neqb deformation_exponent f.nzero
    then Err DivZero
    else let x191 = f.nsub deformation_exponent stress_exponent in
         let x192 = f.ndiv stress_exponent deformation_exponent in
         let x193 =
           f.nmul
             (f.npow (f.ndiv (f.nofZ (Zpos XH)) (f.nofZ (Zpos (XI XH)))) x191)
             (f.npow (f.nabs (f.nmul (slip_rates O) slip_rate_softest)) x192)
         in
         let x194 = f.nopp nucleation_efficiency in
         let x195 = f.nmul x193 (f.nexp (f.nmul x194 (f.nmul x193 x193))) in
         let x196 =
           f.nmul (f.npow f.nzero x191)
             (f.npow
               (f.nabs (f.nmul (slip_rates (S (S O))) slip_rate_softest))
               x192)
         in
         let x197 = f.nmul x196 (f.nexp (f.nmul x194 (f.nmul x196 x196))) in
         let x198 = f.nadd x195 x197 in
         let x199 =
           f.nmul
             (f.npow (f.ndiv (f.nofZ (Zpos XH)) (f.nofZ (Zpos (XO XH)))) x191)
             (f.npow (f.nabs (f.nmul (slip_rates (S O)) slip_rate_softest))
               x192)
         in
         let x200 = f.nmul x199 (f.nexp (f.nmul x194 (f.nmul x199 x199))) in
         Ok (f.nadd x198 x200)
  | P3102 ->
    if f.neqb deformation_exponent f.nzero
    then Err DivZero
    else let x201 = f.nsub deformation_exponent stress_exponent in
         let x202 = f.ndiv stress_exponent deformation_exponent in
         let x203 =
           f.nmul
             (f.npow (f.ndiv (f.nofZ (Zpos XH)) (f.nofZ (Zpos (XO XH)))) x201)
             (f.npow (f.nabs (f.nmul (slip_rates (S O)) slip_rate_softest))
               x202)
         in
         let x204 = f.nopp nucleation_efficiency in
         let x205 = f.nmul x203 (f.nexp (f.nmul x204 (f.nmul x203 x203))) in
         let x206 =
           f.nmul
             (f.npow (f.ndiv (f.nofZ (Zpos XH)) (f.nofZ (Zpos (XI XH)))) x201)
             (f.npow (f.nabs (f.nmul (slip_rates O) slip_rate_softest)) x202)
         in
         let x207 = f.nmul x206 (f.nexp (f.nmul x204 (f.nmul x206 x206))) in
         let x208 = f.nadd x205 x207 in
         let x209 =
           f.nmul (f.npow f.nzero x201)
             (f.npow
               (f.nabs (f.nmul (slip_rates (S (S O))) slip_rate_softest))
               x202)
         in
         let x210 = f.nmul x209 (f.nexp (f.nmul x204 (f.nmul x209 x209))) in
         Ok (f.nadd x208 x210)
  | P3120 ->
    if f.neqb deformation_exponent f.nzero
    then Err DivZero
    else let x211 = f.nsub deformation_exponent stress_exponent in
         let x212 = f.ndiv stress_exponent deformation_exponent in
         let x213 =
           f.nmul
             (f.npow (f.ndiv (f.nofZ (Zpos XH)) (f.nofZ (Zpos (XO XH)))) x211)
             (f.npow (f.nabs (f.nmul (slip_rates (S O)) slip_rate_softest))
               x212)
         in
         let x214 = f.nopp nucleation_efficiency in
         let x215 = f.nmul x213 (f.nexp (f.nmul x214 (f.nmul x213 x213))) in
         let x216 =
           f.nmul (f.npow f.nzero x211)
             (f.npow
               (f.nabs (f.nmul (slip_rates (S (S O))) slip_rate_softest))
               x212)
         in
         let x217 = f.nmul x216 (f.nexp (f.nmul x214 (f.nmul x216 x216))) in
         let x218 = f.nadd x215 x217 in
         let x219 =
           f.nmul
             (f.npow (f.ndiv (f.nofZ (Zpos XH)) (f.nofZ (Zpos (XI XH)))) x211)
             (f.npow (f.nabs (f.nmul (slip_rates O) slip_rate_softest)) x212)
         in
         let x220 = f.nmul x219 (f.nexp (f.nmul x214 (f.nmul x219 x219))) in
         Ok (f.nadd x218 x220)
  | P3201 ->
    if f.neqb deformation_exponent f.nzero
    then Err DivZero
    else let x221 = f.nsub deformation_exponent stress_exponent in
         let x222 = f.ndiv stress_exponent deformation_exponent in
         let x223 =
           f.nmul (f.npow f.nzero x221)
             (f.npow
               (f.nabs (f.nmul (slip_rates (S (S O))) slip_rate_softest))
               x222)
         in
         let x224 = f.nopp nucleation_efficiency in
         let x225 = f.nmul x223 (f.nexp (f.nmul x224 (f.nmul x223 x223))) in
         let x226 =
           f.nmul
             (f.npow (f.ndiv (f.nofZ (Zpos XH)) (f.nofZ (Zpos (XI XH)))) x221)
             (f.npow (f.nabs (f.nmul (slip_rates O) slip_rate_softest)) x222)
         in
         let x227 = f.nmul x226 (f.nexp (f.nmul x224 (f.nmul x226 x226))) in
         let x228 = f.nadd x225 x227 in
         let x229 =
           f.nmul
             (f.npow (f.ndiv (f.nofZ (Zpos XH)) (f.nofZ (Zpos (XO XH)))) x221)
             (f.npow (f.nabs (f.nmul (slip_rates (S O)) slip_rate_softest))
               x222)
         in
         let x230 = f.nmul x229 (f.nexp (f.nmul x224 (f.nmul x229 x229))) in
         Ok (f.nadd x228 x230)
  | P3210 ->
    if f.neqb deformation_exponent f.nzero
    then Err DivZero
    else let x231 = f.nsub deformation_exponent stress_exponent in
         let x232 = f.ndiv stress_exponent deformation_exponent in
         let x233 =
           f.nmul (f.npow f.nzero x231)
             (f.npow
               (f.nabs (f.nmul (slip_rates (S (S O))) slip_rate_softest))
               x232)
         in
         let x234 = f.nopp nucleation_efficiency in
         let x235 = f.nmul x233 (f.nexp (f.nmul x234 (f.nmul x233 x233))) in
         let x236 =
           f.nmul
             (f.npow (f.ndiv (f.nofZ (Zpos XH)) (f.nofZ (Zpos (XO XH)))) x231)
             (f.npow (f.nabs (f.nmul (slip_rates (S O)) slip_rate_softest))
               x232)
         in
         let x237 = f.nmul x236 (f.nexp (f.nmul x234 (f.nmul x236 x236))) in
         let x238 = f.nadd x235 x237 in
         let x239 =
           f.nmul
             (f.npow (f.ndiv (f.nofZ (Zpos XH)) (f.nofZ (Zpos (XI XH)))) x231)
             (f.npow (f.nabs (f.nmul (slip_rates O) slip_rate_softest)) x232)
         in
         let x240 = f.nmul x239 (f.nexp (f.nmul x234 (f.nmul x239 x239))) in
         Ok (f.nadd x238 x240)

(** val k_get_slip_rates_olivine_s_1_1_3_inf :
    num -> t arr -> perm4 -> t -> t arr res **)

let k_get_slip_rates_olivine_s_1_1_3_inf f invariants slip_indices deformation_exponent =
  match slip_indices with
  | P0132 ->
    if f.neqb (invariants (S (S O))) f.nzero
    then Err DivZero
    else let x1 = f.ndiv (f.nofZ (Zpos (XI XH))) (invariants (S (S O))) in
         let x2 = f.nmul x1 (invariants (S O)) in
         let x3 = f.nsub deformation_exponent f.none in
         let x4 = f.nmul x2 (f.npow (f.nabs x2) x3) in
         Ok (mk_arr f.nzero (f.nzero :: (x4 :: (f.none :: (f.nzero :: [])))))
  | P0231 ->
    if f.neqb (invariants (S O)) f.nzero
    then Err DivZero
    else let x5 = f.ndiv f.none (invariants (S O)) in
         let x6 =
           f.ndiv (f.nmul x5 (invariants (S (S O)))) (f.nofZ (Zpos (XI XH)))
         in
         let x7 = f.nsub deformation_exponent f.none in
         let x8 = f.nmul x6 (f.npow (f.nabs x6) x7) in
         Ok (mk_arr f.nzero (f.nzero :: (f.none :: (x8 :: (f.nzero :: [])))))
  | P0312 ->
    if f.neqb (invariants (S (S O))) f.nzero
    then Err DivZero
    else let x9 = f.ndiv (f.nofZ (Zpos (XI XH))) (invariants (S (S O))) in
         let x10 = f.nmul x9 (invariants (S O)) in
         let x11 = f.nsub deformation_exponent f.none in
         let x12 = f.nmul x10 (f.npow (f.nabs x10) x11) in
         Ok (mk_arr f.nzero (f.nzero :: (x12 :: (f.none :: (f.nzero :: [])))))
  | P0321 ->
    if f.neqb (invariants (S O)) f.nzero
    then Err DivZero
    else let x13 = f.ndiv f.none (invariants (S O)) in
         let x14 =
           f.ndiv (f.nmul x13 (invariants (S (S O)))) (f.nofZ (Zpos (XI XH)))
         in
         let x15 = f.nsub deformation_exponent f.none in
         let x16 = f.nmul x14 (f.npow (f.nabs x14) x15) in
         Ok (mk_arr f.nzero (f.nzero :: (f.none :: (x16 :: (f.nzero :: [])))))
  | P1032 ->
    if f.neqb (invariants (S (S O))) f.nzero
    then Err DivZero
    else let x17 = f.ndiv (f.nofZ (Zpos (XI XH))) (invariants (S (S O))) in
         let x18 = f.nmul x17 (invariants O) in
         let x19 = f.nsub deformation_exponent f.none in
         let x20 = f.nmul x18 (f.npow (f.nabs x18) x19) in
         Ok (mk_arr f.nzero (x20 :: (f.nzero :: (f.none :: (f.nzero :: [])))))
  | P1230 ->
    if f.neqb (invariants O) f.nzero
    then Err DivZero
    else let x21 = f.ndiv f.none (invariants O) in
         let x22 =
           f.ndiv (f.nmul x21 (invariants (S (S O)))) (f.nofZ (Zpos (XI XH)))
         in
         let x23 = f.nsub deformation_exponent f.none in
         let x24 = f.nmul x22 (f.npow (f.nabs x22) x23) in
         Ok (mk_arr f.nzero (f.none :: (f.nzero :: (x24 :: (f.nzero :: [])))))
  | P1302 ->
    if f.neqb (invariants (S (S O))) f.nzero
    then Err DivZero
    else let x25 = f.ndiv (f.nofZ (Zpos (XI XH))) (invariants (S (S O))) in
         let x26 = f.nmul x25 (invariants O) in
         let x27 = f.nsub deformation_exponent f.none in
         let x28 = f.nmul x26 (f.npow (f.nabs x26) x27) in
         Ok (mk_arr f.nzero (x28 :: (f.nzero :: (f.none :: (f.nzero :: [])))))
  | P1320 ->
    if f.neqb (invariants O) f.nzero
    then Err DivZero
    else let x29 = f.ndiv f.none (invariants O) in
         let x30 =
           f.ndiv (f.nmul x29 (invariants (S (S O)))) (f.nofZ (Zpos (XI XH)))
         in
         let x31 = f.nsub deformation_exponent f.none in
         let x32 = f.nmul x30 (f.npow (f.nabs x30) x31) in
         Ok (mk_arr f.nzero (f.none :: (f.nzero :: (x32 :: (f.nzero :: [])))))
  | P2031 ->
    if f.neqb (invariants (S O)) f.nzero
    then Err DivZero
    else let x33 = f.ndiv f.none (invariants (S O)) in
         let x34 = f.nmul x33 (invariants O) in
         let x35 = f.nsub deformation_exponent f.none in
         let x36 = f.nmul x34 (f.npow (f.nabs x34) x35) in
         Ok (mk_arr f.nzero (x36 :: (f.none :: (f.nzero :: (f.nzero :: [])))))
  | P2130 ->
    if f.neqb (invariants O) f.nzero
    then Err DivZero
    else let x37 = f.ndiv f.none (invariants O) in
         let x38 = f.nmul x37 (invariants (S O)) in
         let x39 = f.nsub deformation_exponent f.none in
         let x40 = f.nmul x38 (f.npow (f.nabs x38) x39) in
         Ok (mk_arr f.nzero (f.none :: (x40 :: (f.nzero :: (f.nzero :: [])))))
  | P2301 ->
    if f.neqb (invariants (S O)) f.nzero
    then Err DivZero
    else let x41 = f.ndiv f.none (invariants (S O)) in
         let x42 = f.nmul x41 (invariants O) in
         let x43 = f.nsub deformation_exponent f.none in
         let x44 = f.nmul x42 (f.npow (f.nabs x42) x43) in
         Ok (mk_arr f.nzero (x44 :: (f.none :: (f.nzero :: (f.nzero :: [])))))
  | P2310 ->
    if f.neqb (invariants O) f.nzero
    then Err DivZero
    else let x45 = f.ndiv f.none (invariants O) in
         let x46 = f.nmul x45 (invariants (S O)) in
         let x47 = f.nsub deformation_exponent f.none in
         let x48 = f.nmul x46 (f.npow (f.nabs x46) x47) in
         Ok (mk_arr f.nzero (f.none :: (x48 :: (f.nzero :: (f.nzero :: [])))))
  | P3012 ->
    if f.neqb (invariants (S (S O))) f.nzero
    then Err DivZero
    else let x49 = f.ndiv (f.nofZ (Zpos (XI XH))) (invariants (S (S O))) in
         let x50 = f.nmul x49 (invariants O) in
         let x51 = f.nsub deformation_exponent f.none in
         let x52 = f.nmul x50 (f.npow (f.nabs x50) x51) in
         let x53 = f.nmul x49 (invariants (S O)) in
         let x54 = f.nmul x53 (f.npow (f.nabs x53) x51) in
         Ok (mk_arr f.nzero (x52 :: (x54 :: (f.none :: (f.nzero :: [])))))
  | P3021 ->
    if f.neqb (invariants (S O)) f.nzero
    then Err DivZero
    else let x55 = f.ndiv f.none (invariants (S O)) in
         let x56 = f.nmul x55 (invariants O) in
         let x57 = f.nsub deformation_exponent f.none in
         let x58 = f.nmul x56 (f.npow (f.nabs x56) x57) in
         let x59 =
           f.ndiv (f.nmul x55 (invariants (S (S O)))) (f.nofZ (Zpos (XI XH)))
         in
         let x60 = f.nmul x59 (f.npow (f.nabs x59) x57) in
         Ok (mk_arr f.nzero (x58 :: (f.none :: (x60 :: (f.nzero :: [])))))
  | P3102 ->
    if f.neqb (invariants (S (S O))) f.nzero
    then Err DivZero
    else let x61 = f.ndiv (f.nofZ (Zpos (XI XH))) (invariants (S (S O))) in
         let x62 = f.nmul x61 (invariants O) in
         let x63 = f.nsub deformation_exponent f.none in
         let x64 = f.nmul x62 (f.npow (f.nabs x62) x63) in
         let x65 = f.nmul x61 (invariants (S O)) in
         let x66 = f.nmul x65 (f.npow (f.nabs x65) x63) in
         Ok (mk_arr f.nzero (x64 :: (x66 :: (f.none :: (f.nzero :: [])))))
  | P3120 ->
    if f.neqb (invariants O) f.nzero
    then Err DivZero
    else let x67 = f.ndiv f.none (invariants O) in
         let x68 = f.nmul x67 (invariants (S O)) in
         let x69 = f.nsub deformation_exponent f.none in
         let x70 = f.nmul x68 (f.npow (f.nabs x68) x69) in
         let x71 =
           f.ndiv (f.nmul x67 (invariants (S (S O)))) (f.nofZ (Zpos (XI XH)))
         in
         let x72 = f.nmul x71 (f.npow (f.nabs x71) x69) in
         Ok (mk_arr f.nzero (f.none :: (x70 :: (x72 :: (f.nzero :: [])))))
  | P3201 ->
    if f.neqb (invariants (S O)) f.nzero
    then Err DivZero
    else let x73 = f.ndiv f.none (invariants (S O)) in
         let x74 = f.nmul x73 (invariants O) in
         let x75 = f.nsub deformation_exponent f.none in
         let x76 = f.nmul x74 (f.npow (f.nabs x74) x75) in
         let x77 =
           f.ndiv (f.nmul x73 (invariants (S (S O)))) (f.nofZ (Zpos (XI XH)))
         in
         let x78 = f.nmul x77 (f.npow (f.nabs x77) x75) in
         Ok (mk_arr f.nzero (x76 :: (f.none :: (x78 :: (f.nzero :: [])))))
  | P3210 ->
    if f.neqb (invariants O) f.nzero
    then Err DivZero
    else let x79 = f.ndiv f.none (invariants O) in
         let x80 = f.nmul x79 (invariants (S O)) in
         let x81 = f.nsub deformation_exponent f.none in
         let x82 = f.nmul x80 (f.npow (f.nabs x80) x81) in
         let x83 =
           f.ndiv (f.nmul x79 (invariants (S (S O)))) (f.nofZ (Zpos (XI XH)))
         in
         let x84 = f.nmul x83 (f.npow (f.nabs x83) x81) in
         Ok (mk_arr f.nzero (f.none :: (x82 :: (x84 :: (f.nzero :: [])))))
  | _ ->
    if f.neqb (invariants (S (S (S O)))) f.nzero
    then Err DivZero
    else Err NonFinite

(** val k_get_strain_energy_s_1_1_3_inf :
    num -> t arr -> perm4 -> t -> t -> t -> t -> t res **)

let k_get_strain_energy_s_1_1_3_inf f slip_rates slip_indices slip_rate_softest stress_exponent deformation_exponent nucleation_efficiency =
  match slip_indices with
  | P0123 ->
    if f.neqb deformation_exponent f.nzero
    then Err DivZero
    else let x1 = f.nsub deformation_exponent stress_exponent in
         let x2 = f.npow f.none x1 in
         let x3 = f.ndiv stress_exponent deformation_exponent in
         let x4 =
           f.nmul x2
             (f.npow (f.nabs (f.nmul (slip_rates (S O)) slip_rate_softest))
               x3)
         in
         let x5 = f.nopp nucleation_efficiency in
         let x6 = f.nmul x4 (f.nexp (f.nmul x5 (f.nmul x4 x4))) in
         let x7 =
           f.nmul
             (f.npow (f.ndiv (f.nofZ (Zpos XH)) (f.nofZ (Zpos (XI XH)))) x1)
             (f.npow
               (f.nabs (f.nmul (slip_rates (S (S O))) slip_rate_softest)) x3)
         in
         let x8 = f.nmul x7 (f.nexp (f.nmul x5 (f.nmul x7 x7))) in
         let x9 = f.nadd x6 x8 in
         let x10 =
           f.nmul (f.npow f.nzero x1)
             (f.npow
               (f.nabs (f.nmul (slip_rates (S (S (S O)))) slip_rate_softest))
               x3)
         in
         let x11 = f.nmul x10 (f.nexp (f.nmul x5 (f.nmul x10 x10))) in
         Ok (f.nadd x9 x11)
  | P0132 ->
    if f.neqb deformation_exponent f.nzero
    then Err DivZero
    else let x12 = f.nsub deformation_exponent stress_exponent in
         let x13 = f.npow f.none x12 in
         let x14 = f.ndiv stress_exponent deformation_exponent in
         let x15 =
           f.nmul x13
             (f.npow (f.nabs (f.nmul (slip_rates (S O)) slip_rate_softest))
               x14)
         in
         let x16 = f.nopp nucleation_efficiency in
         let x17 = f.nmul x15 (f.nexp (f.nmul x16 (f.nmul x15 x15))) in
         let x18 =
           f.nmul (f.npow f.nzero x12)
             (f.npow
               (f.nabs (f.nmul (slip_rates (S (S (S O)))) slip_rate_softest))
               x14)
         in
         let x19 = f.nmul x18 (f.nexp (f.nmul x16 (f.nmul x18 x18))) in
         let x20 = f.nadd x17 x19 in
         let x21 =
           f.nmul
             (f.npow (f.ndiv (f.nofZ (Zpos XH)) (f.nofZ (Zpos (XI XH)))) x12)
             (f.npow
               (f.nabs (f.nmul (slip_rates (S (S O))) slip_rate_softest)) x14)
         in
         let x22 = f.nmul x21 (f.nexp (f.nmul x16 (f.nmul x21 x21))) in
         Ok (f.nadd x20 x22)
  | P0213 ->
    if f.neqb deformation_exponent f.nzero
    then Err DivZero
    else let x23 = f.nsub deformation_exponent stress_exponent in
         let x24 = f.ndiv stress_exponent deformation_exponent in
         let x25 =
           f.nmul
             (f.npow (f.ndiv (f.nofZ (Zpos XH)) (f.nofZ (Zpos (XI XH)))) x23)
             (f.npow
               (f.nabs (f.nmul (slip_rates (S (S O))) slip_rate_softest)) x24)
         in
         let x26 = f.nopp nucleation_efficiency in
         let x27 = f.nmul x25 (f.nexp (f.nmul x26 (f.nmul x25 x25))) in
         let x28 = f.npow f.none x23 in
         let x29 =
           f.nmul x28
             (f.npow (f.nabs (f.nmul (slip_rates (S O)) slip_rate_softest))
               x24)
         in
         let x30 = f.nmul x29 (f.nexp (f.nmul x26 (f.nmul x29 x29))) in
         let x31 = f.nadd x27 x30 in
         let x32 =
           f.nmul (f.npow f.nzero x23)
             (f.npow
               (f.nabs (f.nmul (slip_rates (S (S (S O)))) slip_rate_softest))
               x24)
         in
         let x33 = f.nmul x32 (f.nexp (f.nmul x26 (f.nmul x32 x32))) in
         Ok (f.nadd x31 x33)
  | P0231 ->
    if f.neqb deformation_exponent f.nzero
    then Err DivZero
    else let x34 = f.nsub deformation_exponent stress_exponent in
         let x35 = f.ndiv stress_exponent deformation_exponent in
         let x36 =
           f.nmul
             (f.npow (f.ndiv (f.nofZ (Zpos XH)) (f.nofZ (Zpos (XI XH)))) x34)
             (f.npow
               (f.nabs (f.nmul (slip_rates (S (S O))) slip_rate_softest)) x35)
         in
         let x37 = f.nopp nucleation_efficiency in
         let x38 = f.nmul x36 (f.nexp (f.nmul x37 (f.nmul x36 x36))) in
         let x39 =
           f.nmul (f.npow f.nzero x34)
             (f.npow
               (f.nabs (f.nmul (slip_rates (S (S (S O)))) slip_rate_softest))
               x35)
         in
         let x40 = f.nmul x39 (f.nexp (f.nmul x37 (f.nmul x39 x39))) in
         let x41 = f.nadd x38 x40 in
         let x42 = f.npow f.none x34 in
         let x43 =
           f.nmul x42
             (f.npow (f.nabs (f.nmul (slip_rates (S O)) slip_rate_softest))
               x35)
         in
         let x44 = f.nmul x43 (f.nexp (f.nmul x37 (f.nmul x43 x43))) in
         Ok (f.nadd x41 x44)
  | P0312 ->
    if f.neqb deformation_exponent f.nzero
    then Err DivZero
    else let x45 = f.nsub deformation_exponent stress_exponent in
         let x46 = f.ndiv stress_exponent deformation_exponent in
         let x47 =
           f.nmul (f.npow f.nzero x45)
             (f.npow
               (f.nabs (f.nmul (slip_rates (S (S (S O)))) slip_rate_softest))
               x46)
         in
         let x48 = f.nopp nucleation_efficiency in
         let x49 = f.nmul x47 (f.nexp (f.nmul x48 (f.nmul x47 x47))) in
         let x50 = f.npow f.none x45 in
         let x51 =
           f.nmul x50
             (f.npow (f.nabs (f.nmul (slip_rates (S O)) slip_rate_softest))
               x46)
         in
         let x52 = f.nmul x51 (f.nexp (f.nmul x48 (f.nmul x51 x51))) in
         let x53 = f.nadd x49 x52 in
         let x54 =
           f.nmul
             (f.npow (f.ndiv (f.nofZ (Zpos XH)) (f.nofZ (Zpos (XI XH)))) x45)
             (f.npow
               (f.nabs (f.nmul (slip_rates (S (S O))) slip_rate_softest)) x46)
         in
         let x55 = f.nmul x54 (f.nexp (f.nmul x48 (f.nmul x54 x54))) in
         Ok (f.nadd x53 x55)
  | P0321 ->
    if f.neqb deformation_exponent f.nzero
    then Err DivZero
    else let x56 = f.nsub deformation_exponent stress_exponent in
         let x57 = f.ndiv stress_exponent deformation_exponent in
         let x58 =
           f.nmul (f.npow f.nzero x56)
             (f.npow
               (f.nabs (f.nmul (slip_rates (S (S (S O)))) slip_rate_softest))
               x57)
         in
         let x59 = f.nopp nucleation_efficiency in
         let x60 = f.nmul x58 (f.nexp (f.nmul x59 (f.nmul x58 x58))) in
         let x61 =
           f.nmul
             (f.npow (f.ndiv (f.nofZ (Zpos XH)) (f.nofZ (Zpos (XI XH)))) x56)
             (f.npow
               (f.nabs (f.nmul (slip_rates (S (S O))) slip_rate_softest)) x57)
         in
         let x62 = f.nmul x61 (f.nexp (f.nmul x59 (f.nmul x61 x61))) in
         let x63 = f.nadd x60 x62 in
         let x64 = f.npow f.none x56 in
         let x65 =
           f.nmul x64
             (f.npow (f.nabs (f.nmul (slip_rates (S O)) slip_rate_softest))
               x57)
         in
         let x66 = f.nmul x65 (f.nexp (f.nmul x59 (f.nmul x65 x65))) in
         Ok (f.nadd x63 x66)
  | P1023 ->
    if f.neqb deformation_exponent f.nzero
    then Err DivZero
    else let x67 = f.nsub deformation_exponent stress_exponent in
         let x68 = f.npow f.none x67 in
         let x69 = f.ndiv stress_exponent deformation_exponent in
         let x70 =
           f.nmul x68
             (f.npow (f.nabs (f.nmul (slip_rates O) slip_rate_softest)) x69)
         in
         let x71 = f.nopp nucleation_efficiency in
         let x72 = f.nmul x70 (f.nexp (f.nmul x71 (f.nmul x70 x70))) in
         let x73 =
           f.nmul
             (f.npow (f.ndiv (f.nofZ (Zpos XH)) (f.nofZ (Zpos (XI XH)))) x67)
             (f.npow
               (f.nabs (f.nmul (slip_rates (S (S O))) slip_rate_softest)) x69)
         in
         let x74 = f.nmul x73 (f.nexp (f.nmul x71 (f.nmul x73 x73))) in
         let x75 = f.nadd x72 x74 in
         let x76 =
           f.nmul (f.npow f.nzero x67)
             (f.npow
               (f.nabs (f.nmul (slip_rates (S (S (S O)))) slip_rate_softest))
               x69)
         in
         let x77 = f.nmul x76 (f.nexp (f.nmul x71 (f.nmul x76 x76))) in
         Ok (f.nadd x75 x77)
  | P1032 ->
    if f.neqb deformation_exponent f.nzero
    then Err DivZero
    else let x78 = f.nsub deformation_exponent stress_exponent in
         let x79 = f.npow f.none x78 in
         let x80 = f.ndiv stress_exponent deformation_exponent in
         let x81 =
           f.nmul x79
             (f.npow (f.nabs (f.nmul (slip_rates O) slip_rate_softest)) x80)
         in
         let x82 = f.nopp nucleation_efficiency in
         let x83 = f.nmul x81 (f.nexp (f.nmul x82 (f.nmul x81 x81))) in
         let x84 =
           f.nmul (f.npow f.nzero x78)
             (f.npow
               (f.nabs (f.nmul (slip_rates (S (S (S O)))) slip_rate_softest))
               x80)
         in
         let x85 = f.nmul x84 (f.nexp (f.nmul x82 (f.nmul x84 x84))) in
         let x86 = f.nadd x83 x85 in
         let x87 =
           f.nmul
             (f.npow (f.ndiv (f.nofZ (Zpos XH)) (f.nofZ (Zpos (XI XH)))) x78)
             (f.npow
               (f.nabs (f.nmul (slip_rates (S (S O))) slip_rate_softest)) x80)
         in
         let x88 = f.nmul x87 (f.nexp (f.nmul x82 (f.nmul x87 x87))) in
         Ok (f.nadd x86 x88)
  | P1203 ->
    if f.neqb deformation_exponent f.nzero
    then Err DivZero
    else let x89 = f.nsub deformation_exponent stress_exponent in
         let x90 = f.ndiv stress_exponent deformation_exponent in
         let x91 =
           f.nmul
             (f.npow (f.ndiv (f.nofZ (Zpos XH)) (f.nofZ (Zpos (XI XH)))) x89)
             (f.npow
               (f.nabs (f.nmul (slip_rates (S (S O))) slip_rate_softest)) x90)
         in
         let x92 = f.nopp nucleation_efficiency in
         let x93 = f.nmul x91 (f.nexp (f.nmul x92 (f.nmul x91 x91))) in
         let x94 = f.npow f.none x89 in
         let x95 =
           f.nmul x94
             (f.npow (f.nabs (f.nmul (slip_rates O) slip_rate_softest)) x90)
         in
         let x96 = f.nmul x95 (f.nexp (f.nmul x92 (f.nmul x95 x95))) in
         let x97 = f.nadd x93 x96 in
         let x98 =
           f.nmul (f.npow f.nzero x89)
             (f.npow
               (f.nabs (f.nmul (slip_rates (S (S (S O)))) slip_rate_softest))
               x90)
         in
         let x99 = f.nmul x98 (f.nexp (f.nmul x92 (f.nmul x98 x98))) in
         Ok (f.nadd x97 x99)
  | P1230 ->
    if f.neqb deformation_exponent f.nzero
    then Err DivZero
    else let x100 = f.nsub deformation_exponent stress_exponent in
         let x101 = f.ndiv stress_exponent deformation_exponent in
         let x102 =
           f.nmul
             (f.npow (f.ndiv (f.nofZ (Zpos XH)) (f.nofZ (Zpos (XI XH)))) x100)
             (f.npow
               (f.nabs (f.nmul (slip_rates (S (S O))) slip_rate_softest))
               x101)
         in
         let x103 = f.nopp nucleation_efficiency in
         let x104 = f.nmul x102 (f.nexp (f.nmul x103 (f.nmul x102 x102))) in
         let x105 =
           f.nmul (f.npow f.nzero x100)
             (f.npow
               (f.nabs (f.nmul (slip_rates (S (S (S O)))) slip_rate_softest))
               x101)
         in
         let x106 = f.nmul x105 (f.nexp (f.nmul x103 (f.nmul x105 x105))) in
         let x107 = f.nadd x104 x106 in
         let x108 = f.npow f.none x100 in
         let x109 =
           f.nmul x108
             (f.npow (f.nabs (f.nmul (slip_rates O) slip_rate_softest)) x101)
         in
         let x110 = f.nmul x109 (f.nexp (f.nmul x103 (f.nmul x109 x109))) in
         Ok (f.nadd x107 x110)
  | P1302 ->
    if f.neqb deformation_exponent f.nzero
    then Err DivZero
    else let x111 = f.nsub deformation_exponent stress_exponent in
         let x112 = f.ndiv stress_exponent deformation_exponent in
         let x113 =
           f.nmul (f.npow f.nzero x111)
             (f.npow
               (f.nabs (f.nmul (slip_rates (S (S (S O)))) slip_rate_softest))
               x112)
         in
         let x114 = f.nopp nucleation_efficiency in
         let x115 = f.nmul x113 (f.nexp (f.nmul x114 (f.nmul x113 x113))) in
         let x116 = f.npow f.none x111 in
         let x117 =
           f.nmul x116
             (f.npow (f.nabs (f.nmul (slip_rates O) slip_rate_softest)) x112)
         in
         let x118 = f.nmul x117 (f.nexp (f.nmul x114 (f.nmul x117 x117))) in
         let x119 = f.nadd x115 x118 in
         let x120 =
           f.nmul
             (f.npow (f.ndiv (f.nofZ (Zpos XH)) (f.nofZ (Zpos (XI XH)))) x111)
             (f.npow
               (f.nabs (f.nmul (slip_rates (S (S O))) slip_rate_softest))
               x112)
         in
         let x121 = f.nmul x120 (f.nexp (f.nmul x114 (f.nmul x120 x120))) in
         Ok (f.nadd x119 x121)
  | P1320 ->
    if f.neqb deformation_exponent f.nzero
    then Err DivZero
    else let x122 = f.nsub deformation_exponent stress_exponent in
         let x123 = f.ndiv stress_exponent deformation_exponent in
         let x124 =
           f.nmul (f.npow f.nzero x122)
             (f.npow
               (f.nabs (f.nmul (slip_rates (S (S (S O)))) slip_rate_softest))
               x123)
         in
         let x125 = f.nopp nucleation_efficiency in
         let x126 = f.nmul x124 (f.nexp (f.nmul x125 (f.nmul x124 x124))) in
         let x127 =
           f.nmul
             (f.npow (f.ndiv (f.nofZ (Zpos XH)) (f.nofZ (Zpos (XI XH)))) x122)
             (f.npow
               (f.nabs (f.nmul (slip_rates (S (S O))) slip_rate_softest))
               x123)
         in
         let x128 = f.nmul x127 (f.nexp (f.nmul x125 (f.nmul x127 x127))) in
         let x129 = f.nadd x126 x128 in
         let x130 = f.npow f.none x122 in
         let x131 =
           f.nmul x130
             (f.npow (f.nabs (f.nmul (slip_rates O) slip_rate_softest)) x123)
         in
         let x132 = f.nmul x131 (f.nexp (f.nmul x125 (f.nmul x131 x131))) in
         Ok (f.nadd x129 x132)
  | P2013 ->
    if f.neqb deformation_exponent f.nzero
    then Err DivZero
    else let x133 = f.nsub deformation_exponent stress_exponent in
         let x134 = f.npow f.none x133 in
         let x135 = f.ndiv stress_exponent deformation_exponent in
         let x136 =
           f.nmul x134
             (f.npow (f.nabs (f.nmul (slip_rates O) slip_rate_softest)) x135)
         in
         let x137 = f.nopp nucleation_efficiency in
         let x138 = f.nmul x136 (f.nexp (f.nmul x137 (f.nmul x136 x136))) in
         let x139 =
           f.nmul x134
             (f.npow (f.nabs (f.nmul (slip_rates (S O)) slip_rate_softest))
               x135)
         in
         let x140 = f.nmul x139 (f.nexp (f.nmul x137 (f.nmul x139 x139))) in
         let x141 = f.nadd x138 x140 in
         let x142 =
           f.nmul (f.npow f.nzero x133)
             (f.npow
               (f.nabs (f.nmul (slip_rates (S (S (S O)))) slip_rate_softest))
               x135)
         in
         let x143 = f.nmul x142 (f.nexp (f.nmul x137 (f.nmul x142 x142))) in
         Ok (f.nadd x141 x143)
  | P2031 ->
    if f.neqb deformation_exponent f.nzero
    then Err DivZero
    else let x144 = f.nsub deformation_exponent stress_exponent in
         let x145 = f.npow f.none x144 in
         let x146 = f.ndiv stress_exponent deformation_exponent in
         let x147 =
           f.nmul x145
             (f.npow (f.nabs (f.nmul (slip_rates O) slip_rate_softest)) x146)
         in
         let x148 = f.nopp nucleation_efficiency in
         let x149 = f.nmul x147 (f.nexp (f.nmul x148 (f.nmul x147 x147))) in
         let x150 =
           f.nmul (f.npow f.nzero x144)
             (f.npow
               (f.nabs (f.nmul (slip_rates (S (S (S O)))) slip_rate_softest))
               x146)
         in
         let x151 = f.nmul x150 (f.nexp (f.nmul x148 (f.nmul x150 x150))) in
         let x152 = f.nadd x149 x151 in
         let x153 =
           f.nmul x145
             (f.npow (f.nabs (f.nmul (slip_rates (S O)) slip_rate_softest))
               x146)
         in
         let x154 = f.nmul x153 (f.nexp (f.nmul x148 (f.nmul x153 x153))) in
         Ok (f.nadd x152 x154)
  | P2103 ->
    if f.neqb deformation_exponent f.nzero
    then Err DivZero
    else let x155 = f.nsub deformation_exponent stress_exponent in
         let x156 = f.npow f.none x155 in
         let x157 = f.ndiv stress_exponent deformation_exponent in
         let x158 =
           f.nmul x156
             (f.npow (f.nabs (f.nmul (slip_rates (S O)) slip_rate_softest))
               x157)
         in
         let x159 = f.nopp nucleation_efficiency in
         let x160 = f.nmul x158 (f.nexp (f.nmul x159 (f.nmul x158 x158))) in
         let x161 =
           f.nmul x156
             (f.npow (f.nabs (f.nmul (slip_rates O) slip_rate_softest)) x157)
         in
         let x162 = f.nmul x161 (f.nexp (f.nmul x159 (f.nmul x161 x161))) in
         let x163 = f.nadd x160 x162 in
         let x164 =
           f.nmul (f.npow f.nzero x155)
             (f.npow
               (f.nabs (f.nmul (slip_rates (S (S (S O)))) slip_rate_softest))
               x157)
         in
         let x165 = f.nmul x164 (f.nexp (f.nmul x159 (f.nmul x164 x164))) in
         Ok (f.nadd x163 x165)
  | P2130 ->
    if f.neqb deformation_exponent f.nzero
    then Err DivZero
    else let x166 = f.nsub deformation_exponent stress_exponent in
         let x167 = f.npow f.none x166 in
         let x168 = f.ndiv stress_exponent deformation_exponent in
         let x169 =
           f.nmul x167
             (f.npow (f.nabs (f.nmul (slip_rates (S O)) slip_rate_softest))
               x168)
         in
         let x170 = f.nopp nucleation_efficiency in
         let x171 = f.nmul x169 (f.nexp (f.nmul x170 (f.nmul x169 x169))) in
         let x172 =
           f.nmul (f.npow f.nzero x166)
             (f.npow
               (f.nabs (f.nmul (slip_rates (S (S (S O)))) slip_rate_softest))
               x168)
         in
         let x173 = f.nmul x172 (f.nexp (f.nmul x170 (f.nmul x172 x172))) in
         let x174 = f.nadd x171 x173 in
         let x175 =
           f.nmul x167
             (f.npow (f.nabs (f.nmul (slip_rates O) slip_rate_softest)) x168)
         in
         let x176 = f.nmul x175 (f.nexp (f.nmul x170 (f.nmul x175 x175))) in
         Ok (f.nadd x174 x176)
  | P2301 ->
    if f.neqb deformation_exponent f.nzero
    then Err DivZero
    else let x177 = f.nsub deformation_exponent stress_exponent in
         let x178 = f.ndiv stress_exponent deformation_exponent in
         let x179 =
           f.nmul (f.npow f.nzero x177)
             (f.npow
               (f.nabs (f.nmul (slip_rates (S (S (S O)))) slip_rate_softest))
               x178)
         in
         let x180 = f.nopp nucleation_efficiency in
         let x181 = f.nmul x179 (f.nexp (f.nmul x180 (f.nmul x179 x179))) in
         let x182 = f.npow f.none x177 in
         let x183 =
           f.nmul x182
             (f.npow (f.nabs (f.nmul (slip_rates O) slip_rate_softest)) x178)
         in
         let x184 = f.nmul x183 (f.nexp (f.nmul x180 (f.nmul x183 x183))) in
         let x185 = f.nadd x181 x184 in
         let x186 =
           f.nmul x182
             (f.npow (f.nabs (f.nmul (slip_rates (S O)) slip_rate_softest))
               x178)
         in
         let x187 = f.nmul x186 (f.nexp (f.nmul x180 (f.nmul x186 x186))) in
         Ok (f.nadd x185 x187)
  | P2310 ->
    if f.neqb deformation_exponent f.nzero
    then Err DivZero
    else let x188 = f.nsub deformation_exponent stress_exponent in
         let x189 = f.ndiv stress_exponent deformation_exponent in
         let x190 =
           f.nmul (f.npow f.nzero x188)
             (f.npow
               (f.nabs (f.nmul (slip_rates (S (S (S O)))) slip_rate_softest))
               x189)
         in
         let x191 = f.nopp nucleation_efficiency in
         let x192 = f.nmul x190 (f.nexp (f.nmul x191 (f.nmul x190 x190))) in
         let x193 = f.npow f.none x188 in
         let x194 =
           f.nmul x193
             (f.npow (f.nabs (f.nmul (slip_rates (S O)) slip_rate_softest))
               x189)
         in
         let x195 = f.nmul x194 (f.nexp (f.nmul x191 (f.nmul x194 x194))) in
         let x196 = f.nadd x192 x195 in
         let x197 =
           f.nmul x193
             (f.npow (f.nabs (f.nmul (slip_rates O) slip_rate_softest)) x189)
         in
         let x198 = f.nmul x197 (f.nexp (f.nmul x191 (f.nmul x197 x197))) in
         Ok (f.nadd x196 x198)
  | P3012 ->
    if f.neqb deformation_exponent f.nzero
    then Err DivZero
    else let x199 = f.nsub deformation_exponent stress_exponent in
         let x200 = f.npow f.none x199 in
         let x201 = f.ndiv stress_exponent deformation_exponent in
         let x202 =
           f.nmul x200
             (f.npow (f.nabs (f.nmul (slip_rates O) slip_rate_softest)) x201)
         in
         let x203 = f.nopp nucleation_efficiency in
         let x204 = f.nmul x202 (f.nexp (f.nmul x203 (f.nmul x202 x202))) in
         let x205 =
           f.nmul x200
             (f.npow (f.nabs (f.nmul (slip_rates (S O)) slip_rate_softest))
               x201)
         in
         let x206 = f.nmul x205 (f.nexp (f.nmul x203 (f.nmul x205 x205))) in
         let x207 = f.nadd x204 x206 in
         let x208 =
           f.nmul
             (f.npow (f.ndiv (f.nofZ (Zpos XH)) (f.nofZ (Zpos (XI XH)))) x199)
             (f.npow
               (f.nabs (f.nmul (slip_rates (S (S O))) slip_rate_softest))
               x201)
         in
         let x209 = f.nmul x208 (f.nexp (f.nmul x203 (f.nmul x208 x208))) in
         Ok (f.nadd x207 x209)
  | P3021 ->
    if f.neqb deformation_exponent f.nzero
    then Err DivZero
    else let x210 = f.nsub deformation_exponent stress_exponent in
         let x211 = f.npow f.none x210 in
         let x212 = f.ndiv stress_exponent deformation_exponent in
         let x213 =
           f.nmul x211
             (f.npow (f.nabs (f.nmul (slip_rates O) slip_rate_softest)) x212)
         in
         let x214 = f.nopp nucleation_efficiency in
         let x215 = f.nmul x213 (f.nexp (f.nmul x214 (f.nmul x213 x213))) in
         let x216 =
           f.nmul
             (f.npow (f.ndiv (f.nofZ (Zpos XH)) (f.nofZ (Zpos (XI XH)))) x210)
             (f.npow
               (f.nabs (f.nmul (slip_rates (S (S O))) slip_rate_softest))
               x212)
         in
         let x217 = f.nmul x216 (f.nexp (f.nmul x214 (f.nmul x216 x216))) in
         let x218 = f.nadd x215 x217 in
         let x219 =
           f.nmul x211
             (f.npow (f.nabs (f.nmul (slip_rates (S O)) slip_rate_softest))
               x212)
         in
         let x220 = f.nmul x219 (f.nexp (f.nmul x214 (f.nmul x219 x219))) in
         Ok (f.nadd x218 x220)
  | P3102 ->
    if f.neqb deformation_exponent f.nzero
    then Err DivZero
    else let x221 = f.nsub deformation_exponent stress_exponent in
         let x222 = f.npow f.none x221 in
         let x223 = f.ndiv stress_exponent deformation_exponent in
         let x224 =
           f.nmul x222
             (f.npow (f.nabs (f.nmul (slip_rates (S O)) slip_rate_softest))
               x223)
         in
         let x225 = f.nopp nucleation_efficiency in
         let x226 = f.nmul x224 (f.nexp (f.nmul x225 (f.nmul x224 x224))) in
         let x227 =
           f.nmul x222
             (f.npow (f.nabs (f.nmul (slip_rates O) slip_rate_softest)) x223)
         in
         let x228 = f.nmul x227 (f.nexp (f.nmul x225 (f.nmul x227 x227))) in
         let x229 = f.nadd x226 x228 in
         let x230 =
           f.nmul
             (f.npow (f.ndiv (f.nofZ (Zpos XH)) (f.nofZ (Zpos (XI XH)))) x221)
             (f.npow
               (f.nabs (f.nmul (slip_rates (S (S O))) slip_rate_softest))
               x223)
         in
         let x231 = f.nmul x230 (f.nexp (f.nmul x225 (f.nmul x230 x230))) in
         Ok (f.nadd x229 x231)
  | P3120 ->
    if f.neqb deformation_exponent f.nzero
    then Err DivZero
    else let x232 = f.nsub deformation_exponent stress_exponent in
         let x233 = f.npow f.none x232 in
         let x234 = f.ndiv stress_exponent deformation_exponent in
         let x235 =
           f.nmul x233
             (f.npow (f.nabs (f.nmul (slip_rates (S O)) slip_rate_softest))
               x234)
         in
         let x236 = f.nopp nucleation_efficiency in
         let x237 = f.nmul x235 (f.nexp (f.nmul x236 (f.nmul x235 x235))) in
         let x238 =
           f.nmul
             (f.npow (f.ndiv (f.nofZ (Zpos XH)) (f.nofZ (Zpos (XI XH)))) x232)
             (f.npow
               (f.nabs (f.nmul (slip_rates (S (S O))) slip_rate_softest))
               x234)
         in
         let x239 = f.nmul x238 (f.nexp (f.nmul x236 (f.nmul x238 x238))) in
         let x240 = f.nadd x237 x239 in
         let x241 =
           f.nmul x233
             (f.npow (f.nabs (f.nmul (slip_rates O) slip_rate_softest)) x234)
         in
         let x242 = f.nmul x241 (f.nexp (f.nmul x236 (f.nmul x241 x241))) in
         Ok (f.nadd x240 x242)
  | P3201 ->
    if f.neqb deformation_exponent f.nzero
    then Err DivZero
    else let x243 = f.nsub deformation_exponent stress_exponent in
         let x244 = f.ndiv stress_exponent deformation_exponent in
         let x245 =
           f.nmul
             (f.npow (f.ndiv (f.nofZ (Zpos XH)) (f.nofZ (Zpos (XI XH)))) x243)
             (f.npow
               (f.nabs (f.nmul (slip_rates (S (S O))) slip_rate_softest))
               x244)
         in
         let x246 = f.nopp nucleation_efficiency in
         let x247 = f.nmul x245 (f.nexp (f.nmul x246 (f.nmul x245 x245))) in
         let x248 = f.npow f.none x243 in
         let x249 =
           f.nmul x248
             (f.npow (f.nabs (f.nmul (slip_rates O) slip_rate_softest)) x244)
         in
         let x250 = f.nmul x249 (f.nexp (f.nmul x246 (f.nmul x249 x249))) in
         let x251 = f.nadd x247 x250 in
         let x252 =
           f.nmul x248
             (f.npow (f.nabs (f.nmul (slip_rates (S O)) slip_rate_softest))
               x244)
         in
         let x253 = f.nmul x252 (f.nexp (f.nmul x246 (f.nmul x252 x252))) in
         Ok (f.nadd x251 x253)
  | P3210 ->
    if f.neqb deformation_exponent f.nzero
    then Err DivZero
    else let x254 = f.nsub deformation_exponent stress_exponent in
         let x255 = f.ndiv stress_exponent deformation_exponent in
         let x256 =
           f.nmul
             (f.npow (f.ndiv (f.nofZ (Zpos XH)) (f.nofZ (Zpos (XI XH)))) x254)
             (f.npow
               (f.nabs (f.nmul (slip_rates (S (S O))) slip_rate_softest))
               x255)
         in
         let x257 = f.nopp nucleation_efficiency in
         let x258 = f.nmul x256 (f.nexp (f.nmul x257 (f.nmul x256 x256))) in
         let x259 = f.npow f.none x254 in
         let x260 =
           f.nmul x259
             (f.npow (f.nabs (f.nmul (slip_rates (S O)) slip_rate_softest))
               x255)
         in
         let x261 = f.nmul x260 (f.nexp (f.nmul x257 (f.nmul x260 x260))) in
         let x262 = f.nadd x258 x261 in
         let x263 =
           f.nmul x259
             (f.npow (f.nabs (f.nmul (slip_rates O) slip_rate_softest)) x255)
         in
         let x264 = f.nmul x263 (f.nexp (f.nmul x257 (f.nmul x263 x263))) in
         Ok (f.nadd x262 x264)

(** val k_get_slip_rates_olivine_s_3_1_2_inf :
    num -> t arr -> perm4 -> t -> t arr res **)

let k_get_slip_rates_olivine_s_3_1_2_inf f invariants slip_indices deformation_exponent =
  match slip_indices with
  | P0132 ->
    if f.neqb (invariants (S (S O))) f.nzero
    then Err DivZero
    else let x1 = f.ndiv (f.nofZ (Zpos (XO XH))) (invariants (S (S O))) in
         let x2 = f.nmul x1 (invariants (S O)) in
         let x3 = f.nsub deformation_exponent f.none in
         let x4 = f.nmul x2 (f.npow (f.nabs x2) x3) in
         Ok (mk_arr f.nzero (f.nzero :: (x4 :: (f.none :: (f.nzero :: [])))))
  | P0231 ->
    if f.neqb (invariants (S O)) f.nzero
    then Err DivZero
    else let x5 = f.ndiv f.none (invariants (S O)) in
         let x6 =
           f.ndiv (f.nmul x5 (invariants (S (S O)))) (f.nofZ (Zpos (XO XH)))
         in
         let x7 = f.nsub deformation_exponent f.none in
         let x8 = f.nmul x6 (f.npow (f.nabs x6) x7) in
         Ok (mk_arr f.nzero (f.nzero :: (f.none :: (x8 :: (f.nzero :: [])))))
  | P0312 ->
    if f.neqb (invariants (S (S O))) f.nzero
    then Err DivZero
    else let x9 = f.ndiv (f.nofZ (Zpos (XO XH))) (invariants (S (S O))) in
         let x10 = f.nmul x9 (invariants (S O)) in
         let x11 = f.nsub deformation_exponent f.none in
         let x12 = f.nmul x10 (f.npow (f.nabs x10) x11) in
         Ok (mk_arr f.nzero (f.nzero :: (x12 :: (f.none :: (f.nzero :: [])))))
  | P0321 ->
    if f.neqb (invariants (S O)) f.nzero
    then Err DivZero
    else let x13 = f.ndiv f.none (invariants (S O)) in
         let x14 =
           f.ndiv (f.nmul x13 (invariants (S (S O)))) (f.nofZ (Zpos (XO XH)))
         in
         let x15 = f.nsub deformation_exponent f.none in
         let x16 = f.nmul x14 (f.npow (f.nabs x14) x15) in
         Ok (mk_arr f.nzero (f.nzero :: (f.none :: (x16 :: (f.nzero :: [])))))
  | P1032 ->
    if f.neqb (invariants (S (S O))) f.nzero
    then Err DivZero
    else let x17 = f.ndiv (f.nofZ (Zpos (XO XH))) (invariants (S (S O))) in
         let x18 = f.ndiv (f.nmul x17 (invariants O)) (f.nofZ (Zpos (XI XH)))
         in
         let x19 = f.nsub deformation_exponent f.none in
         let x20 = f.nmul x18 (f.npow (f.nabs x18) x19) in
         Ok (mk_arr f.nzero (x20 :: (f.nzero :: (f.none :: (f.nzero :: [])))))
  | P1230 ->
    if f.neqb (invariants O) f.nzero
    then Err DivZero
    else let x21 = f.ndiv (f.nofZ (Zpos (XI XH))) (invariants O) in
         let x22 =
           f.ndiv (f.nmul x21 (invariants (S (S O)))) (f.nofZ (Zpos (XO XH)))
         in
         let x23 = f.nsub deformation_exponent f.none in
         let x24 = f.nmul x22 (f.npow (f.nabs x22) x23) in
         Ok (mk_arr f.nzero (f.none :: (f.nzero :: (x24 :: (f.nzero :: [])))))
  | P1302 ->
    if f.neqb (invariants (S (S O))) f.nzero
    then Err DivZero
    else let x25 = f.ndiv (f.nofZ (Zpos (XO XH))) (invariants (S (S O))) in
         let x26 = f.ndiv (f.nmul x25 (invariants O)) (f.nofZ (Zpos (XI XH)))
         in
         let x27 = f.nsub deformation_exponent f.none in
         let x28 = f.nmul x26 (f.npow (f.nabs x26) x27) in
         Ok (mk_arr f.nzero (x28 :: (f.nzero :: (f.none :: (f.nzero :: [])))))
  | P1320 ->
    if f.neqb (invariants O) f.nzero
    then Err DivZero
    else let x29 = f.ndiv (f.nofZ (Zpos (XI XH))) (invariants O) in
         let x30 =
           f.ndiv (f.nmul x29 (invariants (S (S O)))) (f.nofZ (Zpos (XO XH)))
         in
         let x31 = f.nsub deformation_exponent f.none in
         let x32 = f.nmul x30 (f.npow (f.nabs x30) x31) in
         Ok (mk_arr f.nzero (f.none :: (f.nzero :: (x32 :: (f.nzero :: [])))))
  | P2031 ->
    if f.neqb (invariants (S O)) f.nzero
    then Err DivZero
    else let x33 = f.ndiv f.none (invariants (S O)) in
         let x34 = f.ndiv (f.nmul x33 (invariants O)) (f.nofZ (Zpos (XI XH)))
         in
         let x35 = f.nsub deformation_exponent f.none in
         let x36 = f.nmul x34 (f.npow (f.nabs x34) x35) in
         Ok (mk_arr f.nzero (x36 :: (f.none :: (f.nzero :: (f.nzero :: [])))))
  | P2130 ->
    if f.neqb (invariants O) f.nzero
    then Err DivZero
    else let x37 = f.ndiv (f.nofZ (Zpos (XI XH))) (invariants O) in
         let x38 = f.nmul x37 (invariants (S O)) in
         let x39 = f.nsub deformation_exponent f.none in
         let x40 = f.nmul x38 (f.npow (f.nabs x38) x39) in
         Ok (mk_arr f.nzero (f.none :: (x40 :: (f.nzero :: (f.nzero :: [])))))
  | P2301 ->
    if f.neqb (invariants (S O)) f.nzero
    then Err DivZero
    else let x41 = f.ndiv f.none (invariants (S O)) in
         let x42 = f.ndiv (f.nmul x41 (invariants O)) (f.nofZ (Zpos (XI XH)))
         in
         let x43 = f.nsub deformation_exponent f.none in
         let x44 = f.nmul x42 (f.npow (f.nabs x42) x43) in
         Ok (mk_arr f.nzero (x44 :: (f.none :: (f.nzero :: (f.nzero :: [])))))
  | P2310 ->
    if f.neqb (invariants O) f.nzero
    then Err DivZero
    else let x45 = f.ndiv (f.nofZ (Zpos (XI XH))) (invariants O) in
         let x46 = f.nmul x45 (invariants (S O)) in
         let x47 = f.nsub deformation_exponent f.none in
         let x48 = f.nmul x46 (f.npow (f.nabs x46) x47) in
         Ok (mk_arr f.nzero (f.none :: (x48 :: (f.nzero :: (f.nzero :: [])))))
  | P3012 ->
    if f.neqb (invariants (S (S O))) f.nzero
    then Err DivZero
    else let x49 = f.ndiv (f.nofZ (Zpos (XO XH))) (invariants (S (S O))) in
         let x50 = f.ndiv (f.nmul x49 (invariants O)) (f.nofZ (Zpos (XI XH)))
         in
         let x51 = f.nsub deformation_exponent f.none in
         let x52 = f.nmul x50 (f.npow (f.nabs x50) x51) in
         let x53 = f.nmul x49 (invariants (S O)) in
         let x54 = f.nmul x53 (f.npow (f.nabs x53) x51) in
         Ok (mk_arr f.nzero (x52 :: (x54 :: (f.none :: (f.nzero :: [])))))
  | P3021 ->
    if f.neqb (invariants (S O)) f.nzero
    then Err DivZero
    else let x55 = f.ndiv f.none (invariants (S O)) in
         let x56 = f.ndiv (f.nmul x55 (invariants O)) (f.nofZ (Zpos (XI XH)))
         in
         let x57 = f.nsub deformation_exponent f.none in
         let x58 = f.nmul x56 (f.npow (f.nabs x56) x57) in
         let x59 =
           f.ndiv (f.nmul x55 (invariants (S (S O)))) (f.nofZ (Zpos (XO XH)))
         in
         let x60 = f.nmul x59 (f.npow (f.nabs x59) x57) in
         Ok (mk_arr f.nzero (x58 :: (f.none :: (x60 :: (f.nzero :: [])))))
  | P3102 ->
    if f.neqb (invariants (S (S O))) f.nzero
    then Err DivZero
    else let x61 = f.ndiv (f.nofZ (Zpos (XO XH))) (invariants (S (S O))) in
         let x62 = f.ndiv (f.nmul x61 (invariants O)) (f.nofZ (Zpos (XI XH)))
         in
         let x63 = f.nsub deformation_exponent f.none in
         let x64 = f.nmul x62 (f.npow (f.nabs x62) x63) in
         let x65 = f.nmul x61 (invariants (S O)) in
         let x66 = f.nmul x65 (f.npow (f.nabs x65) x63) in
         Ok (mk_arr f.nzero (x64 :: (x66 :: (f.none :: (f.nzero :: [])))))
  | P3120 ->
    if f.neqb (invariants O) f.nzero
    then Err DivZero
    else let x67 = f.ndiv (f.nofZ (Zpos (XI XH))) (invariants O) in
         let x68 = f.nmul x67 (invariants (S O)) in
         let x69 = f.nsub deformation_exponent f.none in
         let x70 = f.nmul x68 (f.npow (f.nabs x68) x69) in
         let x71 =
           f.ndiv (f.nmul x67 (invariants (S (S O)))) (f.nofZ (Zpos (XO XH)))
         in
         let x72 = f.nmul x71 (f.npow (f.nabs x71) x69) in
         Ok (mk_arr f.nzero (f.none :: (x70 :: (x72 :: (f.nzero :: [])))))
  | P3201 ->
    if f.neqb (invariants (S O)) f.nzero
    then Err DivZero
    else let x73 = f.ndiv f.none (invariants (S O)) in
         let x74 = f.ndiv (f.nmul x73 (invariants O)) (f.nofZ (Zpos (XI XH)))
         in
         let x75 = f.nsub deformation_exponent f.none in
         let x76 = f.nmul x74 (f.npow (f.nabs x74) x75) in
         let x77 =
           f.ndiv (f.nmul x73 (invariants (S (S O)))) (f.nofZ (Zpos (XO XH)))
         in
         let x78 = f.nmul x77 (f.npow (f.nabs x77) x75) in
         Ok (mk_arr f.nzero (x76 :: (f.none :: (x78 :: (f.nzero :: [])))))
  | P3210 ->
    if f.neqb (invariants O) f.nzero
    then Err DivZero
    else let x79 = f.ndiv (f.nofZ (Zpos (XI XH))) (invariants O) in
         let x80 = f.nmul x79 (invariants (S O)) in
         let x81 = f.nsub deformation_exponent f.none in
         let x82 = f.nmul x80 (f.npow (f.nabs x80) x81) in
         let x83 =
           f.ndiv (f.nmul x79 (invariants (S (S O)))) (f.nofZ (Zpos (XO XH)))
         in
         let x84 = f.nmul x83 (f.npow (f.nabs x83) x81) in
         Ok (mk_arr f.nzero (f.none :: (x82 :: (x84 :: (f.nzero :: [])))))
  | _ ->
    if f.neqb (invariants (S (S (S O)))) f.nzero
    then Err DivZero
    else Err NonFinite

(** val k_get_strain_energy_s_3_1_2_inf :
    num -> t arr -> perm4 -> t -> t -> t -> t -> t res **)

let k_get_strain_energy_s_3_1_2_inf f slip_rates slip_indices slip_rate_softest stress_exponent deformation_exponent nucleation_efficiency =
  match slip_indices with
  | P0123 ->
    if f.neqb deformation_exponent f.nzero
    then Err DivZero
    else let x1 = f.nsub deformation_exponent stress_exponent in
         let x2 = f.ndiv stress_exponent deformation_exponent in
         let x3 =
           f.nmul (f.npow f.none x1)
             (f.npow (f.nabs (f.nmul (slip_rates (S O)) slip_rate_softest))
               x2)
         in
         let x4 = f.nopp nucleation_efficiency in
         let x5 = f.nmul x3 (f.nexp (f.nmul x4 (f.nmul x3 x3))) in
         let x6 =
           f.nmul
             (f.npow (f.ndiv (f.nofZ (Zpos XH)) (f.nofZ (Zpos (XO XH)))) x1)
             (f.npow
               (f.nabs (f.nmul (slip_rates (S (S O))) slip_rate_softest)) x2)
         in
         let x7 = f.nmul x6 (f.nexp (f.nmul x4 (f.nmul x6 x6))) in
         let x8 = f.nadd x5 x7 in
         let x9 =
           f.nmul (f.npow f.nzero x1)
             (f.npow
               (f.nabs (f.nmul (slip_rates (S (S (S O)))) slip_rate_softest))
               x2)
         in
         let x10 = f.nmul x9 (f.nexp (f.nmul x4 (f.nmul x9 x9))) in
         Ok (f.nadd x8 x10)
  | P0132 ->
    if f.neqb deformation_exponent f.nzero
    then Err DivZero
    else let x11 = f.nsub deformation_exponent stress_exponent in
         let x12 = f.ndiv stress_exponent deformation_exponent in
         let x13 =
           f.nmul (f.npow f.none x11)
             (f.npow (f.nabs (f.nmul (slip_rates (S O)) slip_rate_softest))
               x12)
         in
         let x14 = f.nopp nucleation_efficiency in
         let x15 = f.nmul x13 (f.nexp (f.nmul x14 (f.nmul x13 x13))) in
         let x16 =
           f.nmul (f.npow f.nzero x11)
             (f.npow
               (f.nabs (f.nmul (slip_rates (S (S (S O)))) slip_rate_softest))
               x12)
         in
         let x17 = f.nmul x16 (f.nexp (f.nmul x14 (f.nmul x16 x16))) in
         let x18 = f.nadd x15 x17 in
         let x19 =
           f.nmul
             (f.npow (f.ndiv (f.nofZ (Zpos XH)) (f.nofZ (Zpos (XO XH)))) x11)
             (f.npow
               (f.nabs (f.nmul (slip_rates (S (S O))) slip_rate_softest)) x12)
         in
         let x20 = f.nmul x19 (f.nexp (f.nmul x14 (f.nmul x19 x19))) in
         Ok (f.nadd x18 x20)
  | P0213 ->
    if f.neqb deformation_exponent f.nzero
    then Err DivZero
    else let x21 = f.nsub deformation_exponent stress_exponent in
         let x22 = f.ndiv stress_exponent deformation_exponent in
         let x23 =
           f.nmul
             (f.npow (f.ndiv (f.nofZ (Zpos XH)) (f.nofZ (Zpos (XO XH)))) x21)
             (f.npow
               (f.nabs (f.nmul (slip_rates (S (S O))) slip_rate_softest)) x22)
         in
         let x24 = f.nopp nucleation_efficiency in
         let x25 = f.nmul x23 (f.nexp (f.nmul x24 (f.nmul x23 x23))) in
         let x26 =
           f.nmul (f.npow f.none x21)
             (f.npow (f.nabs (f.nmul (slip_rates (S O)) slip_rate_softest))
               x22)
         in
         let x27 = f.nmul x26 (f.nexp (f.nmul x24 (f.nmul x26 x26))) in
         let x28 = f.nadd x25 x27 in
         let x29 =
           f.nmul (f.npow f.nzero x21)
             (f.npow
               (f.nabs (f.nmul (slip_rates (S (S (S O)))) slip_rate_softest))
               x22)
         in
         let x30 = f.nmul x29 (f.nexp (f.nmul x24 (f.nmul x29 x29))) in
         Ok (f.nadd x28 x30)
  | P0231 ->
    if f.neqb deformation_exponent f.nzero
    then Err DivZero
    else let x31 = f.nsub deformation_exponent stress_exponent in
         let x32 = f.ndiv stress_exponent deformation_exponent in
         let x33 =
           f.nmul
             (f.npow (f.ndiv (f.nofZ (Zpos XH)) (f.nofZ (Zpos (XO XH)))) x31)
             (f.npow
               (f.nabs (f.nmul (slip_rates (S (S O))) slip_rate_softest)) x32)
         in
         let x34 = f.nopp nucleation_efficiency in
         let x35 = f.nmul x33 (f.nexp (f.nmul x34 (f.nmul x33 x33))) in
         let x36 =
           f.nmul (f.npow f.nzero x31)
             (f.npow
               (f.nabs (f.nmul (slip_rates (S (S (S O)))) slip_rate_softest))
               x32)
         in
         let x37 = f.nmul x36 (f.nexp (f.nmul x34 (f.nmul x36 x36))) in
         let x38 = f.nadd x35 x37 in
         let x39 =
           f.nmul (f.npow f.none x31)
             (f.npow (f.nabs (f.nmul (slip_rates (S O)) slip_rate_softest))
               x32)
         in
         let x40 = f.nmul x39 (f.nexp (f.nmul x34 (f.nmul x39 x39))) in
         Ok (f.nadd x38 x40)
  | P0312 ->
    if f.neqb deformation_exponent f.nzero
    then Err DivZero
    else let x41 = f.nsub deformation_exponent stress_exponent in
         let x42 = f.ndiv stress_exponent deformation_exponent in
         let x43 =
           f.nmul (f.npow f.nzero x41)
             (f.npow
               (f.nabs (f.nmul (slip_rates (S (S (S O)))) slip_rate_softest))
               x42)
         in
         let x44 = f.nopp nucleation_efficiency in
         let x45 = f.nmul x43 (f.nexp (f.nmul x44 (f.nmul x43 x43))) in
         let x46 =
           f.nmul (f.npow f.none x41)
             (f.npow (f.nabs (f.nmul (slip_rates (S O)) slip_rate_softest))
               x42)
         in
         let x47 = f.nmul x46 (f.nexp (f.nmul x44 (f.nmul x46 x46))) in
         let x48 = f.nadd x45 x47 in
         let x49 =
           f.nmul
             (f.npow (f.ndiv (f.nofZ (Zpos XH)) (f.nofZ (Zpos (XO XH)))) x41)
             (f.npow
               (f.nabs (f.nmul (slip_rates (S (S O))) slip_rate_softest)) x42)
         in
         let x50 = f.nmul x49 (f.nexp (f.nmul x44 (f.nmul x49 x49))) in
         Ok (f.nadd x48 x50)
  | P0321 ->
    if f.neqb deformation_exponent f.nzero
    then Err DivZero
    else let x51 = f.nsub deformation_exponent stress_exponent in
         let x52 = f.ndiv stress_exponent deformation_exponent in
         let x53 =
           f.nmul (f.npow f.nzero x51)
             (f.npow
               (f.nabs (f.nmul (slip_rates (S (S (S O)))) slip_rate_softest))
               x52)
         in
         let x54 = f.nopp nucleation_efficiency in
         let x55 = f.nmul x53 (f.nexp (f.nmul x54 (f.nmul x53 x53))) in
         let x56 =
           f.nmul
             (f.npow (f.ndiv (f.nofZ (Zpos XH)) (f.nofZ (Zpos (XO XH)))) x51)
             (f.npow
               (f.nabs (f.nmul (slip_rates (S (S O))) slip_rate_softest)) x52)
         in
         let x57 = f.nmul x56 (f.nexp (f.nmul x54 (f.nmul x56 x56))) in
         let x58 = f.nadd x55 x57 in
         let x59 =
           f.nmul (f.npow f.none x51)
             (f.npow (f.nabs (f.nmul (slip_rates (S O)) slip_rate_softest))
               x52)
         in
         let x60 = f.nmul x59 (f.nexp (f.nmul x54 (f.nmul x59 x59))) in
         Ok (f.nadd x58 x60)
  | P1023 ->
    if f.neqb deformation_exponent f.nzero
    then Err DivZero
    else let x61 = f.nsub deformation_exponent stress_exponent in
         let x62 = f.ndiv stress_exponent deformation_exponent in
         let x63 =
           f.nmul
             (f.npow (f.ndiv (f.nofZ (Zpos XH)) (f.nofZ (Zpos (XI XH)))) x61)
             (f.npow (f.nabs (f.nmul (slip_rates O) slip_rate_softest)) x62)
         in
         let x64 = f.nopp nucleation_efficiency in
         let x65 = f.nmul x63 (f.nexp (f.nmul x64 (f.nmul x63 x63))) in
         let x66 =
           f.nmul
             (f.npow (f.ndiv (f.nofZ (Zpos XH)) (f.nofZ (Zpos (XO XH)))) x61)
             (f.npow
               (f.nabs (f.nmul (slip_rates (S (S O))) slip_rate_softest)) x62)
         in
         let x67 = f.nmul x66 (f.nexp (f.nmul x64 (f.nmul x66 x66))) in
         let x68 = f.nadd x65 x67 in
         let x69 =
           f.nmul (f.npow f.nzero x61)
             (f.npow
               (f.nabs (f.nmul (slip_rates (S (S (S O)))) slip_rate_softest))
               x62)
         in
         let x70 = f.nmul x69 (f.nexp (f.nmul x64 (f.nmul x69 x69))) in
         Ok (f.nadd x68 x70)
  | P1032 ->
    if f.neqb deformation_exponent f.nzero
    then Err DivZero
    else let x71 = f.nsub deformation_exponent stress_exponent in
         let x72 = f.ndiv stress_exponent deformation_exponent in
         let x73 =
           f.nmul
             (f.npow (f.ndiv (f.nofZ (Zpos XH)) (f.nofZ (Zpos (XI XH)))) x71)
             (f.npow (f.nabs (f.nmul (slip_rates O) slip_rate_softest)) x72)
         in
         let x74 = f.nopp nucleation_efficiency in
         let x75 = f.nmul x73 (f.nexp (f.nmul x74 (f.nmul x73 x73))) in
         let x76 =
           f.nmul (f.npow f.nzero x71)
             (f.npow
               (f.nabs (f.nmul (slip_rates (S (S (S O)))) slip_rate_softest))
               x72)
         in
         let x77 = f.nmul x76 (f.nexp (f.nmul x74 (f.nmul x76 x76))) in
         let x78 = f.nadd x75 x77 in
         let x79 =
           f.nmul
             (f.npow (f.ndiv (f.nofZ (Zpos XH)) (f.nofZ (Zpos (XO XH)))) x71)
             (f.npow
               (f.nabs (f.nmul (slip_rates (S (S O))) slip_rate_softest)) x72)
         in
         let x80 = f.nmul x79 (f.nexp (f.nmul x74 (f.nmul x79 x79))) in
         Ok (f.nadd x78 x80)
  | P1203 ->
    if f.neqb deformation_exponent f.nzero
    then Err DivZero
    else let x81 = f.nsub deformation_exponent stress_exponent in
         let x82 = f.ndiv stress_exponent deformation_exponent in
         let x83 =
           f.nmul
             (f.npow (f.ndiv (f.nofZ (Zpos XH)) (f.nofZ (Zpos (XO XH)))) x81)
             (f.npow
               (f.nabs (f.nmul (slip_rates (S (S O))) slip_rate_softest)) x82)
         in
         let x84 = f.nopp nucleation_efficiency in
         let x85 = f.nmul x83 (f.nexp (f.nmul x84 (f.nmul x83 x83))) in
         let x86 =
           f.nmul
             (f.npow (f.ndiv (f.nofZ (Zpos XH)) (f.nofZ (Zpos (XI XH)))) x81)
             (f.npow (f.nabs (f.nmul (slip_rates O) slip_rate_softest)) x82)
         in
         let x87 = f.nmul x86 (f.nexp (f.nmul x84 (f.nmul x86 x86))) in
         let x88 = f.nadd x85 x87 in
         let x89 =
           f.nmul (f.npow f.nzero x81)
             (f.npow
               (f.nabs (f.nmul (slip_rates (S (S (S O)))) slip_rate_softest))
               x82)
         in
         let x90 = f.nmul x89 (f.nexp (f.nmul x84 (f.nmul x89 x89))) in
         Ok (f.nadd x88 x90)
  | P1230 ->
    if f.neqb deformation_exponent f.nzero
    then Err DivZero
    else let x91 = f.nsub deformation_exponent stress_exponent in
         let x92 = f.ndiv stress_exponent deformation_exponent in
         let x93 =
           f.nmul
             (f.npow (f.ndiv (f.nofZ (Zpos XH)) (f.nofZ (Zpos (XO XH)))) x91)
             (f.npow
               (f.nabs (f.nmul (slip_rates (S (S O))) slip_rate_softest)) x92)
         in
         let x94 = f.nopp nucleation_efficiency in
         let x95 = f.nmul x93 (f.nexp (f.nmul x94 (f.nmul x93 x93))) in
         let x96 =
           f.nmul (f.npow f.nzero x91)
             (f.npow
               (f.nabs (f.nmul (slip_rates (S (S (S O)))) slip_rate_softest))
               x92)
         in
         let x97 = f.nmul x96 (f.nexp (f.nmul x94 (f.nmul x96 x96))) in
         let x98 = f.nadd x95 x97 in
         let x99 =
           f.nmul
             (f.npow (f.ndiv (f.nofZ (Zpos XH)) (f.nofZ (Zpos (XI XH)))) x91)
             (f.npow (f.nabs (f.nmul (slip_rates O) slip_rate_softest)) x92)
         in
         let x100 = f.nmul x99 (f.nexp (f.nmul x94 (f.nmul x99 x99))) in
         Ok (f.nadd x98 x100)
  | P1302 ->
    if f.neqb deformation_exponent f.nzero
    then Err DivZero
    else let x101 = f.nsub deformation_exponent stress_exponent in
         let x102 = f.ndiv stress_exponent deformation_exponent in
         let x103 =
           f.nmul (f.npow f.nzero x101)
             (f.npow
               (f.nabs (f.nmul (slip_rates (S (S (S O)))) slip_rate_softest))
               x102)
         in
         let x104 = f.nopp nucleation_efficiency in
         let x105 = f.nmul x103 (f.nexp (f.nmul x104 (f.nmul x103 x103))) in
         let x106 =
           f.nmul
             (f.npow (f.ndiv (f.nofZ (Zpos XH)) (f.nofZ (Zpos (XI XH)))) x101)
             (f.npow (f.nabs (f.nmul (slip_rates O) slip_rate_softest)) x102)
         in
         let x107 = f.nmul x106 (f.nexp (f.nmul x104 (f.nmul x106 x106))) in
         let x108 = f.nadd x105 x107 in
         let x109 =
           f.nmul
             (f.npow (f.ndiv (f.nofZ (Zpos XH)) (f.nofZ (Zpos (XO XH)))) x101)
             (f.npow
               (f.nabs (f.nmul (slip_rates (S (S O))) slip_rate_softest))
               x102)
         in
         let x110 = f.nmul x109 (f.nexp (f.nmul x104 (f.nmul x109 x109))) in
         Ok (f.nadd x108 x110)
  | P1320 ->
    if f.neqb deformation_exponent f.nzero
    then Err DivZero
    else let x111 = f.nsub deformation_exponent stress_exponent in
         let x112 = f.ndiv stress_exponent deformation_exponent in
         let x113 =
           f.nmul (f.npow f.nzero x111)
             (f.npow
               (f.nabs (f.nmul (slip_rates (S (S (S O)))) slip_rate_softest))
               x112)
         in
         let x114 = f.nopp nucleation_efficiency in
         let x115 = f.nmul x113 (f.nexp (f.nmul x114 (f.nmul x113 x113))) in
         let x116 =
           f.nmul
             (f.npow (f.ndiv (f.nofZ (Zpos XH)) (f.nofZ (Zpos (XO XH)))) x111)
             (f.npow
               (f.nabs (f.nmul (slip_rates (S (S O))) slip_rate_softest))
               x112)
         in
         let x117 = f.nmul x116 (f.nexp (f.nmul x114 (f.nmul x116 x116))) in
         let x118 = f.nadd x115 x117 in
         let x119 =
           f.nmul
             (f.npow (f.ndiv (f.nofZ (Zpos XH)) (f.nofZ (Zpos (XI XH)))) x111)
             (f.npow (f.nabs (f.nmul (slip_rates O) slip_rate_softest)) x112)
         in
         let x120 = f.nmul x119 (f.nexp (f.nmul x114 (f.nmul x119 x119))) in
         Ok (f.nadd x118 x120)
  | P2013 ->
    if f.neqb deformation_exponent f.nzero
    then Err DivZero
    else let x121 = f.nsub deformation_exponent stress_exponent in
         let x122 = f.ndiv stress_exponent deformation_exponent in
         let x123 =
           f.nmul
             (f.npow (f.ndiv (f.nofZ (Zpos XH)) (f.nofZ (Zpos (XI XH)))) x121)
             (f.npow (f.nabs (f.nmul (slip_rates O) slip_rate_softest)) x122)
         in
         let x124 = f.nopp nucleation_efficiency in
         let x125 = f.nmul x123 (f.nexp (f.nmul x124 (f.nmul x123 x123))) in
         let x126 =
           f.nmul (f.npow f.none x121)
             (f.npow (f.nabs (f.nmul (slip_rates (S O)) slip_rate_softest))
               x122)
         in
         let x127 = f.nmul x126 (f.nexp (f.nmul x124 (f.nmul x126 x126))) in
         let x128 = f.nadd x125 x127 in
         let x129 =
           f.nmul (f.npow f.nzero x121)
             (f.npow
               (f.nabs (f.nmul (slip_rates (S (S (S O)))) slip_rate_softest))
               x122)
         in
         let x130 = f.nmul x129 (f.nexp (f.nmul x124 (f.nmul x129 x129))) in
         Ok (f.nadd x128 x130)
  | P2031 ->
    if f.neqb deformation_exponent f.nzero
    then Err DivZero
    else let x131 = f.nsub deformation_exponent stress_exponent in
         let x132 = f.ndiv stress_exponent deformation_exponent in
         let x133 =
           f.nmul
             (f.npow (f.ndiv (f.nofZ (Zpos XH)) (f.nofZ (Zpos (XI XH)))) x131)
             (f.npow (f.nabs (f.nmul (slip_rates O) slip_rate_softest)) x132)
         in
         let x134 = f.nopp nucleation_efficiency in
         let x135 = f.nmul x133 (f.nexp (f.nmul x134 (f.nmul x133 x133))) in
         let x136 =
           f.nmul (f.npow f.nzero x131)
             (f.npow
               (f.nabs (f.nmul (slip_rates (S (S (S O)))) slip_rate_softest))
               x132)
         in
         let x137 = f.nmul x136 (f.nexp (f.nmul x134 (f.nmul x136 x136))) in
         let x138 = f.nadd x135 x137 in
         let x139 =
           f.nmul (f.npow f.none x131)
             (f.npow (f.nabs (f.nmul (slip_rates (S O)) slip_rate_softest))
               x132)
         in
         let x140 = f.nmul x139 (f.nexp (f.nmul x134 (f.nmul x139 x139))) in
         Ok (f.nadd x138 x140)
  | P2103 ->
    if f.neqb deformation_exponent f.nzero
    then Err DivZero
    else let x141 = f.nsub deformation_exponent stress_exponent in
         let x142 = f.ndiv stress_exponent deformation_exponent in
         let x143 =
           f.nmul (f.npow f.none x141)
             (f.npow (f.nabs (f.nmul (slip_rates (S O)) slip_rate_softest))
               x142)
         in
         let x144 = f.nopp nucleation_efficiency in
         let x145 = f.nmul x143 (f.nexp (f.nmul x144 (f.nmul x143 x143))) in
         let x146 =
           f.nmul
             (f.npow (f.ndiv (f.nofZ (Zpos XH)) (f.nofZ (Zpos (XI XH)))) x141)
             (f.npow (f.nabs (f.nmul (slip_rates O) slip_rate_softest)) x142)
         in
         let x147 = f.nmul x146 (f.nexp (f.nmul x144 (f.nmul x146 x146))) in
         let x148 = f.nadd x145 x147 in
         let x149 =
           f.nmul (f.npow f.nzero x141)
             (f.npow
               (f.nabs (f.nmul (slip_rates (S (S (S O)))) slip_rate_softest))
               x142)
         in
         let x150 = f.nmul x149 (f.nexp (f.nmul x144 (f.nmul x149 x149))) in
         Ok (f.nadd x148 x150)
  | P2130 ->
    if f.neqb deformation_exponent f.nzero
    then Err DivZero
    else let x151 = f.nsub deformation_exponent stress_exponent in
         let x152 = f.ndiv stress_exponent deformation_exponent in
         let x153 =
           f.nmul (f.npow f.none x151)
             (f.npow (f.nabs (f.nmul (slip_rates (S O)) slip_rate_softest))
               x152)
         in
         let x154 = f.nopp nucleation_efficiency in
         let x155 = f.nmul x153 (f.nexp (f.nmul x154 (f.nmul x153 x153))) in
         let x156 =
           f.nmul (f.npow f.nzero x151)
             (f.npow
               (f.nabs (f.nmul (slip_rates (S (S (S O)))) slip_rate_softest))
               x152)
         in
         let x157 = f.nmul x156 (f.nexp (f.nmul x154 (f.nmul x156 x156))) in
         let x158 = f.nadd x155 x157 in
         let x159 =
           f.nmul
             (f.npow (f.ndiv (f.nofZ (Zpos XH)) (f.nofZ (Zpos (XI XH)))) x151)
             (f.npow (f.nabs (f.nmul (slip_rates O) slip_rate_softest)) x152)
         in
         let x160 = f.nmul x159 (f.nexp (f.nmul x154 (f.nmul x159 x159))) in
         Ok (f.nadd x158 x160)
  | P2301 ->
    if f.neqb deformation_exponent f.nzero
    then Err DivZero
    else let x161 = f.nsub deformation_exponent stress_exponent in
         let x162 = f.ndiv stress_exponent deformation_exponent in
         let x163 =
           f.nmul (f.npow f.nzero x161)
             (f.npow
               (f.nabs (f.nmul (slip_rates (S (S (S O)))) slip_rate_softest))
               x162)
         in
         let x164 = f.nopp nucleation_efficiency in
         let x165 = f.nmul x163 (f.nexp (f.nmul x164 (f.nmul x163 x163))) in
         let x166 =
           f.nmul
             (f.npow (f.ndiv (f.nofZ (Zpos XH)) (f.nofZ (Zpos (XI XH)))) x161)
             (f.npow (f.nabs (f.nmul (slip_rates O) slip_rate_softest)) x162)
         in
         let x167 = f.nmul x166 (f.nexp (f.nmul x164 (f.nmul x166 x166))) in
         let x168 = f.nadd x165 x167 in
         let x169 =
           f.nmul (f.npow f.none x161)
             (f.npow (f.nabs (f.nmul (slip_rates (S O)) slip_rate_softest))
               x162)
         in
         let x170 = f.nmul x169 (f.nexp (f.nmul x164 (f.nmul x169 x169))) in
         Ok (f.nadd x168 x170)
  | P2310 ->
    if f.neqb deformation_exponent f.nzero
    then Err DivZero
    else let x171 = f.nsub deformation_exponent stress_exponent in
         let x172 = f.ndiv stress_exponent deformation_exponent in
         let x173 =
           f.nmul (f.npow f.nzero x171)
             (f.npow
               (f.nabs (f.nmul (slip_rates (S (S (S O)))) slip_rate_softest))
               x172)
         in
         let x174 = f.nopp nucleation_efficiency in
         let x175 = f.nmul x173 (f.nexp (f.nmul x174 (f.nmul x173 x173))) in
         let x176 =
           f.nmul (f.npow f.none x171)
             (f.npow (f.nabs (f.nmul (slip_rates (S O)) slip_rate_softest))
               x172)
         in
         let x177 = f.nmul x176 (f.nexp (f.nmul x174 (f.nmul x176 x176))) in
         let x178 = f.nadd x175 x177 in
         let x179 =
           f.nmul
             (f.npow (f.ndiv (f.nofZ (Zpos XH)) (f.nofZ (Zpos (XI XH)))) x171)
             (f.npow (f.nabs (f.nmul (slip_rates O) slip_rate_softest)) x172)
         in
         let x180 = f.nmul x179 (f.nexp (f.nmul x174 (f.nmul x179 x179))) in
         Ok (f.nadd x178 x180)
  | P3012 ->
    if f.neqb deformation_exponent f.nzero
    then Err DivZero
    else let x181 = f.nsub deformation_exponent stress_exponent in
         let x182 = f.ndiv stress_exponent deformation_exponent in
         let x183 =
           f.nmul
             (f.npow (f.ndiv (f.nofZ (Zpos XH)) (f.nofZ (Zpos (XI XH)))) x181)
             (f.npow (f.nabs (f.nmul (slip_rates O) slip_rate_softest)) x182)
         in
         let x184 = f.nopp nucleation_efficiency in
         let x185 = f.nmul x183 (f.nexp (f.nmul x184 (f.nmul x183 x183))) in
         let x186 =
           f.nmul (f.npow f.none x181)
             (f.npow (f.nabs (f.nmul (slip_rates (S O)) slip_rate_softest))
               x182)
         in
         let x187 = f.nmul x186 (f.nexp (f.nmul x184 (f.nmul x186 x186))) in
         let x188 = f.nadd x185 x187 in
         let x189 =
           f.nmul
             (f.npow (f.ndiv (f.nofZ (Zpos XH)) (f.nofZ (Zpos (XO XH)))) x181)
             (f.npow
               (f.nabs (f.nmul (slip_rates (S (S O))) slip_rate_softest))
               x182)
         in
         let x190 = f.nmul x189 (f.nexp (f.nmul x184 (f.nmul x189 x189))) in
         Ok (f.nadd x188 x190)
  | P3021 ->
    if f.neqb deformation_exponent f.nzero
    then Err DivZero
    else let x191 = f.nsub deformation_exponent stress_exponent in
         let x192 = f.ndiv stress_exponent deformation_exponent in
         let x193 =
           f.nmul
             (f.npow (f.ndiv (f.nofZ (Zpos XH)) (f.nofZ (Zpos (XI XH)))) x191)
             (f.npow (f.nabs (f.nmul (slip_rates O) slip_rate_softest)) x192)
         in
         let x194 = f.nopp nucleation_efficiency in
         let x195 = f.nmul x193 (f.nexp (f.nmul x194 (f.nmul x193 x193))) in
         let x196 =
           f.nmul
             (f.npow (f.ndiv (f.nofZ (Zpos XH)) (f.nofZ (Zpos (XO XH)))) x191)
             (f.npow
               (f.nabs (f.nmul (slip_rates (S (S O))) slip_rate_softest))
               x192)
         in
         let x197 = f.nmul x196 (f.nexp (f.nmul x194 (f.nmul x196 x196))) in
         let x198 = f.nadd x195 x197 in
         let x199 =
           f.nmul (f.npow f.none x191)
             (f.npow (f.nabs (f.nmul (slip_rates (S O)) slip_rate_softest))
               x192)
         in
         let x200 = f.nmul x199 (f.nexp (f.nmul x194 (f.nmul x199 x199))) in
         Ok (f.nadd x198 x200)
  | P3102 ->
    if f.neqb deformation_exponent f.nzero
    then Err DivZero
    else let x201 = f.nsub deformation_exponent stress_exponent in
         let x202 = f.ndiv stress_exponent deformation_exponent in
         let x203 =
           f.nmul (f.npow f.none x201)
             (f.npow (f.nabs (f.nmul (slip_rates (S O)) slip_rate_softest))
               x202)
         in
         let x204 = f.nopp nucleation_efficiency in
         let x205 = f.nmul x203 (f.nexp (f.nmul x204 (f.nmul x203 x203))) in
         let x206 =
           f.nmul
             (f.npow (f.ndiv (f.nofZ (Zpos XH)) (f.nofZ (Zpos (XI XH)))) x201)
             (f.npow (f.nabs (f.nmul (slip_rates O) slip_rate_softest)) x202)
         in
         let x207 = f.nmul x206 (f.nexp (f.nmul x204 (f.nmul x206 x206))) in
         let x208 = f.nadd x205 x207 in
         let x209 =
           f.nmul
             (f.npow (f.ndiv (f.nofZ (Zpos XH)) (f.nofZ (Zpos (XO XH)))) x201)
             (f.npow
               (f.nabs (f.nmul (slip_rates (S (S O))) slip_rate_softest))
               x202)
         in
         let x210 = f.nmul x209 (f.nexp (f.nmul x204 (f.nmul x209 x209))) in
         Ok (f.nadd x208 x210)
  | P3120 ->
    if f.neqb deformation_exponent f.nzero
    then Err DivZero
    else let x211 = f.nsub deformation_exponent stress_exponent in
         let x212 = f.ndiv stress_exponent deformation_exponent in
         let x213 =
           f.nmul (f.npow f.none x211)
             (f.npow (f.nabs (f.nmul (slip_rates (S O)) slip_rate_softest))
               x212)
         in
         let x214 = f.nopp nucleation_efficiency in
         let x215 = f.nmul x213 (f.nexp (f.nmul x214 (f.nmul x213 x213))) in
         let x216 =
           f.nmul
             (f.npow (f.ndiv (f.nofZ (Zpos XH)) (f.nofZ (Zpos (XO XH)))) x211)
             (f.npow
               (f.nabs (f.nmul (slip_rates (S (S O))) slip_rate_softest))
               x212)
         in
         let x217 = f.nmul x216 (f.nexp (f.nmul x214 (f.nmul x216 x216))) in
         let x218 = f.nadd x215 x217 in
         let x219 =
           f.nmul
             (f.npow (f.ndiv (f.nofZ (Zpos XH)) (f.nofZ (Zpos (XI XH)))) x211)
             (f.npow (f.nabs (f.nmul (slip_rates O) slip_rate_softest)) x212)
         in
         let x220 = f.nmul x219 (f.nexp (f.nmul x214 (f.nmul x219 x219))) in
         Ok (f.nadd x218 x220)
  | P3201 ->
    if f.neqb deformation_exponent f.nzero
    then Err DivZero
    else let x221 = f.nsub deformation_exponent stress_exponent in
         let x222 = f.ndiv stress_exponent deformation_exponent in
         let x223 =
           f.nmul
             (f.npow (f.ndiv (f.nofZ (Zpos XH)) (f.nofZ (Zpos (XO XH)))) x221)
             (f.npow
               (f.nabs (f.nmul (slip_rates (S (S O))) slip_rate_softest))
               x222)
         in
         let x224 = f.nopp nucleation_efficiency in
         let x225 = f.nmul x223 (f.nexp (f.nmul x224 (f.nmul x223 x223))) in
         let x226 =
           f.nmul
             (f.npow (f.ndiv (f.nofZ (Zpos XH)) (f.nofZ (Zpos (XI XH)))) x221)
             (f.npow (f.nabs (f.nmul (slip_rates O) slip_rate_softest)) x222)
         in
         let x227 = f.nmul x226 (f.nexp (f.nmul x224 (f.nmul x226 x226))) in
         let x228 = f.nadd x225 x227 in
         let x229 =
           f.nmul (f.npow f.none x221)
             (f.npow (f.nabs (f.nmul (slip_rates (S O)) slip_rate_softest))
               x222)
         in
         let x230 = f.nmul x229 (f.nexp (f.nmul x224 (f.nmul x229 x229))) in
         Ok (f.nadd x228 x230)
  | P3210 ->
    if f.neqb deformation_exponent f.nzero
    then Err DivZero
    else let x231 = f.nsub deformation_exponent stress_exponent in
         let x232 = f.ndiv stress_exponent deformation_exponent in
         let x233 =
           f.nmul
             (f.npow (f.ndiv (f.nofZ (Zpos XH)) (f.nofZ (Zpos (XO XH)))) x231)
             (f.npow
               (f.nabs (f.nmul (slip_rates (S (S O))) slip_rate_softest))
               x232)
         in
         let x234 = f.nopp nucleation_efficiency in
         let x235 = f.nmul x233 (f.nexp (f.nmul x234 (f.nmul x233 x233))) in
         let x236 =
           f.nmul (f.npow f.none x231)
             (f.npow (f.nabs (f.nmul (slip_rates (S O)) slip_rate_softest))
               x232)
         in
         let x237 = f.nmul x236 (f.nexp (f.nmul x234 (f.nmul x236 x236))) in
         let x238 = f.nadd x235 x237 in
         let x239 =
           f.nmul
             (f.npow (f.ndiv (f.nofZ (Zpos XH)) (f.nofZ (Zpos (XI XH)))) x231)
             (f.npow (f.nabs (f.nmul (slip_rates O) slip_rate_softest)) x232)
         in
         let x240 = f.nmul x239 (f.nexp (f.nmul x234 (f.nmul x239 x239))) in
         Ok (f.nadd x238 x240)

(** val k_get_strain_energy_s_inf_inf_inf_1 :
    num -> t arr -> perm4 -> t -> t -> t -> t -> t res **)

let k_get_strain_energy_s_inf_inf_inf_1 f slip_rates slip_indices slip_rate_softest stress_exponent deformation_exponent nucleation_efficiency =
  match slip_indices with
  | P0123 ->
    if f.neqb deformation_exponent f.nzero
    then Err DivZero
    else let x1 = f.nsub deformation_exponent stress_exponent in
         let x2 = f.npow f.nzero x1 in
         let x3 = f.ndiv stress_exponent deformation_exponent in
         let x4 =
           f.nmul x2
             (f.npow (f.nabs (f.nmul (slip_rates (S O)) slip_rate_softest))
               x3)
         in
         let x5 = f.nopp nucleation_efficiency in
         let x6 = f.nmul x4 (f.nexp (f.nmul x5 (f.nmul x4 x4))) in
         let x7 =
           f.nmul x2
             (f.npow
               (f.nabs (f.nmul (slip_rates (S (S O))) slip_rate_softest)) x3)
         in
         let x8 = f.nmul x7 (f.nexp (f.nmul x5 (f.nmul x7 x7))) in
         let x9 = f.nadd x6 x8 in
         let x10 =
           f.nmul (f.npow f.none x1)
             (f.npow
               (f.nabs (f.nmul (slip_rates (S (S (S O)))) slip_rate_softest))
               x3)
         in
         let x11 = f.nmul x10 (f.nexp (f.nmul x5 (f.nmul x10 x10))) in
         Ok (f.nadd x9 x11)
  | P0132 ->
    if f.neqb deformation_exponent f.nzero
    then Err DivZero
    else let x12 = f.nsub deformation_exponent stress_exponent in
         let x13 = f.npow f.nzero x12 in
         let x14 = f.ndiv stress_exponent deformation_exponent in
         let x15 =
           f.nmul x13
             (f.npow (f.nabs (f.nmul (slip_rates (S O)) slip_rate_softest))
               x14)
         in
         let x16 = f.nopp nucleation_efficiency in
         let x17 = f.nmul x15 (f.nexp (f.nmul x16 (f.nmul x15 x15))) in
         let x18 =
           f.nmul (f.npow f.none x12)
             (f.npow
               (f.nabs (f.nmul (slip_rates (S (S (S O)))) slip_rate_softest))
               x14)
         in
         let x19 = f.nmul x18 (f.nexp (f.nmul x16 (f.nmul x18 x18))) in
         let x20 = f.nadd x17 x19 in
         let x21 =
           f.nmul x13
             (f.npow
               (f.nabs (f.nmul (slip_rates (S (S O))) slip_rate_softest)) x14)
         in
         let x22 = f.nmul x21 (f.nexp (f.nmul x16 (f.nmul x21 x21))) in
         Ok (f.nadd x20 x22)
  | P0213 ->
    if f.neqb deformation_exponent f.nzero
    then Err DivZero
    else let x23 = f.nsub deformation_exponent stress_exponent in
         let x24 = f.npow f.nzero x23 in
         let x25 = f.ndiv stress_exponent deformation_exponent in
         let x26 =
           f.nmul x24
             (f.npow
               (f.nabs (f.nmul (slip_rates (S (S O))) slip_rate_softest)) x25)
         in
         let x27 = f.nopp nucleation_efficiency in
         let x28 = f.nmul x26 (f.nexp (f.nmul x27 (f.nmul x26 x26))) in
         let x29 =
           f.nmul x24
             (f.npow (f.nabs (f.nmul (slip_rates (S O)) slip_rate_softest))
               x25)
         in
         let x30 = f.nmul x29 (f.nexp (f.nmul x27 (f.nmul x29 x29))) in
         let x31 = f.nadd x28 x30 in
         let x32 =
           f.nmul (f.npow f.none x23)
             (f.npow
               (f.nabs (f.nmul (slip_rates (S (S (S O)))) slip_rate_softest))
               x25)
         in
         let x33 = f.nmul x32 (f.nexp (f.nmul x27 (f.nmul x32 x32))) in
         Ok (f.nadd x31 x33)
  | P0231 ->
    if f.neqb deformation_exponent f.nzero
    then Err DivZero
    else let x34 = f.nsub deformation_exponent stress_exponent in
         let x35 = f.npow f.nzero x34 in
         let x36 = f.ndiv stress_exponent deformation_exponent in
         let x37 =
           f.nmul x35
             (f.npow
               (f.nabs (f.nmul (slip_rates (S (S O))) slip_rate_softest)) x36)
         in
         let x38 = f.nopp nucleation_efficiency in
         let x39 = f.nmul x37 (f.nexp (f.nmul x38 (f.nmul x37 x37))) in
         let x40 =
           f.nmul (f.npow f.none x34)
             (f.npow
               (f.nabs (f.nmul (slip_rates (S (S (S O)))) slip_rate_softest))
               x36)
         in
         let x41 = f.nmul x40 (f.nexp (f.nmul x38 (f.nmul x40 x40))) in
         let x42 = f.nadd x39 x41 in
         let x43 =
           f.nmul x35
             (f.npow (f.nabs (f.nmul (slip_rates (S O)) slip_rate_softest))
               x36)
         in
         let x44 = f.nmul x43 (f.nexp (f.nmul x38 (f.nmul x43 x43))) in
         Ok (f.nadd x42 x44)
  | P0312 ->
    if f.neqb deformation_exponent f.nzero
    then Err DivZero
    else let x45 = f.nsub deformation_exponent stress_exponent in
         let x46 = f.ndiv stress_exponent deformation_exponent in
         let x47 =
           f.nmul (f.npow f.none x45)
             (f.npow
               (f.nabs (f.nmul (slip_rates (S (S (S O)))) slip_rate_softest))
               x46)
         in
         let x48 = f.nopp nucleation_efficiency in
         let x49 = f.nmul x47 (f.nexp (f.nmul x48 (f.nmul x47 x47))) in
         let x50 = f.npow f.nzero x45 in
         let x51 =
           f.nmul x50
             (f.npow (f.nabs (f.nmul (slip_rates (S O)) slip_rate_softest))
               x46)
         in
         let x52 = f.nmul x51 (f.nexp (f.nmul x48 (f.nmul x51 x51))) in
         let x53 = f.nadd x49 x52 in
         let x54 =
           f.nmul x50
             (f.npow
               (f.nabs (f.nmul (slip_rates (S (S O))) slip_rate_softest)) x46)
         in
         let x55 = f.nmul x54 (f.nexp (f.nmul x48 (f.nmul x54 x54))) in
         Ok (f.nadd x53 x55)
  | P0321 ->
    if f.neqb deformation_exponent f.nzero
    then Err DivZero
    else let x56 = f.nsub deformation_exponent stress_exponent in
         let x57 = f.ndiv stress_exponent deformation_exponent in
         let x58 =
           f.nmul (f.npow f.none x56)
             (f.npow
               (f.nabs (f.nmul (slip_rates (S (S (S O)))) slip_rate_softest))
               x57)
         in
         let x59 = f.nopp nucleation_efficiency in
         let x60 = f.nmul x58 (f.nexp (f.nmul x59 (f.nmul x58 x58))) in
         let x61 = f.npow f.nzero x56 in
         let x62 =
           f.nmul x61
             (f.npow
               (f.nabs (f.nmul (slip_rates (S (S O))) slip_rate_softest)) x57)
         in
         let x63 = f.nmul x62 (f.nexp (f.nmul x59 (f.nmul x62 x62))) in
         let x64 = f.nadd x60 x63 in
         let x65 =
           f.nmul x61
             (f.npow (f.nabs (f.nmul (slip_rates (S O)) slip_rate_softest))
               x57)
         in
         let x66 = f.nmul x65 (f.nexp (f.nmul x59 (f.nmul x65 x65))) in
         Ok (f.nadd x64 x66)
  | P1023 ->
    if f.neqb deformation_exponent f.nzero
    then Err DivZero
    else let x67 = f.nsub deformation_exponent stress_exponent in
         let x68 = f.npow f.nzero x67 in
         let x69 = f.ndiv stress_exponent deformation_exponent in
         let x70 =
           f.nmul x68
             (f.npow (f.nabs (f.nmul (slip_rates O) slip_rate_softest)) x69)
         in
         let x71 = f.nopp nucleation_efficiency in
         let x72 = f.nmul x70 (f.nexp (f.nmul x71 (f.nmul x70 x70))) in
         let x73 =
           f.nmul x68
             (f.npow
               (f.nabs (f.nmul (slip_rates (S (S O))) slip_rate_softest)) x69)
         in
         let x74 = f.nmul x73 (f.nexp (f.nmul x71 (f.nmul x73 x73))) in
         let x75 = f.nadd x72 x74 in
         let x76 =
           f.nmul (f.npow f.none x67)
             (f.npow
               (f.nabs (f.nmul (slip_rates (S (S (S O)))) slip_rate_softest))
               x69)
         in
         let x77 = f.nmul x76 (f.nexp (f.nmul x71 (f.nmul x76 x76))) in
         Ok (f.nadd x75 x77)
  | P1032 ->
    if f.neqb deformation_exponent f.nzero
    then Err DivZero
    else let x78 = f.nsub deformation_exponent stress_exponent in
         let x79 = f.npow f.nzero x78 in
         let x80 = f.ndiv stress_exponent deformation_exponent in
         let x81 =
           f.nmul x79
             (f.npow (f.nabs (f.nmul (slip_rates O) slip_rate_softest)) x80)
         in
         let x82 = f.nopp nucleation_efficiency in
         let x83 = f.nmul x81 (f.nexp (f.nmul x82 (f.nmul x81 x81))) in
         let x84 =
           f.nmul (f.npow f.none x78)
             (f.npow
               (f.nabs (f.nmul (slip_rates (S (S (S O)))) slip_rate_softest))
               x80)
         in
         let x85 = f.nmul x84 (f.nexp (f.nmul x82 (f.nmul x84 x84))) in
         let x86 = f.nadd x83 x85 in
         let x87 =
           f.nmul x79
             (f.npow
               (f.nabs (f.nmul (slip_rates (S (S O))) slip_rate_softest)) x80)
         in
         let x88 = f.nmul x87 (f.nexp (f.nmul x82 (f.nmul x87 x87))) in
         Ok (f.nadd x86 x88)
  | P1203 ->
    if f.neqb deformation_exponent f.nzero
    then Err DivZero
    else let x89 = f.nsub deformation_exponent stress_exponent in
         let x90 = f.npow f.nzero x89 in
         let x91 = f.ndiv stress_exponent deformation_exponent in
         let x92 =
           f.nmul x90
             (f.npow
               (f.nabs (f.nmul (slip_rates (S (S O))) slip_rate_softest)) x91)
         in
         let x93 = f.nopp nucleation_efficiency in
         let x94 = f.nmul x92 (f.nexp (f.nmul x93 (f.nmul x92 x92))) in
         let x95 =
           f.nmul x90
             (f.npow (f.nabs (f.nmul (slip_rates O) slip_rate_softest)) x91)
         in
         let x96 = f.nmul x95 (f.nexp (f.nmul x93 (f.nmul x95 x95))) in
         let x97 = f.nadd x94 x96 in
         let x98 =
           f.nmul (f.npow f.none x89)
             (f.npow
               (f.nabs (f.nmul (slip_rates (S (S (S O)))) slip_rate_softest))
               x91)
         in
         let x99 = f.nmul x98 (f.nexp (f.nmul x93 (f.nmul x98 x98))) in
         Ok (f.nadd x97 x99)
  | P1230 ->
    if f.neqb deformation_exponent f.nzero
    then Err DivZero
    else let x100 = f.nsub deformation_exponent stress_exponent in
         let x101 = f.npow f.nzero x100 in
         let x102 = f.ndiv stress_exponent deformation_exponent in
         let x103 =
           f.nmul x101
             (f.npow
               (f.nabs (f.nmul (slip_rates (S (S O))) slip_rate_softest))
               x102)
         in
         let x104 = f.nopp nucleation_efficiency in
         let x105 = f.nmul x103 (f.nexp (f.nmul x104 (f.nmul x103 x103))) in
         let x106 =
           f.nmul (f.npow f.none x100)
             (f.npow
               (f.nabs (f.nmul (slip_rates (S (S (S O)))) slip_rate_softest))
               x102)
         in
         let x107 = f.nmul x106 (f.nexp (f.nmul x104 (f.nmul x106 x106))) in
         let x108 = f.nadd x105 x107 in
         let x109 =
           f.nmul x101
             (f.npow (f.nabs (f.nmul (slip_rates O) slip_rate_softest)) x102)
         in
         let x110 = f.nmul x109 (f.nexp (f.nmul x104 (f.nmul x109 x109))) in
         Ok (f.nadd x108 x110)
  | P1302 ->
    if f.neqb deformation_exponent f.nzero
    then Err DivZero
    else let x111 = f.nsub deformation_exponent stress_exponent in
         let x112 = f.ndiv stress_exponent deformation_exponent in
         let x113 =
           f.nmul (f.npow f.none x111)
             (f.npow
               (f.nabs (f.nmul (slip_rates (S (S (S O)))) slip_rate_softest))
               x112)
         in
         let x114 = f.nopp nucleation_efficiency in
         let x115 = f.nmul x113 (f.nexp (f.nmul x114 (f.nmul x113 x113))) in
         let x116 = f.npow f.nzero x111 in
         let x117 =
           f.nmul x116
             (f.npow (f.nabs (f.nmul (slip_rates O) slip_rate_softest)) x112)
         in
         let x118 = f.nmul x117 (f.nexp (f.nmul x114 (f.nmul x117 x117))) in
         let x119 = f.nadd x115 x118 in
         let x120 =
           f.nmul x116
             (f.npow
               (f.nabs (f.nmul (slip_rates (S (S O))) slip_rate_softest))
               x112)
         in
         let x121 = f.nmul x120 (f.nexp (f.nmul x114 (f.nmul x120 x120))) in
         Ok (f.nadd x119 x121)
  | P1320 ->
    if f.neqb deformation_exponent f.nzero
    then Err DivZero
    else let x122 = f.nsub deformation_exponent stress_exponent in
         let x123 = f.ndiv stress_exponent deformation_exponent in
         let x124 =
           f.nmul (f.npow f.none x122)
             (f.npow
               (f.nabs (f.nmul (slip_rates (S (S (S O)))) slip_rate_softest))
               x123)
         in
         let x125 = f.nopp nucleation_efficiency in
         let x126 = f.nmul x124 (f.nexp (f.nmul x125 (f.nmul x124 x124))) in
         let x127 = f.npow f.nzero x122 in
         let x128 =
           f.nmul x127
             (f.npow
               (f.nabs (f.nmul (slip_rates (S (S O))) slip_rate_softest))
               x123)
         in
         let x129 = f.nmul x128 (f.nexp (f.nmul x125 (f.nmul x128 x128))) in
         let x130 = f.nadd x126 x129 in
         let x131 =
           f.nmul x127
             (f.npow (f.nabs (f.nmul (slip_rates O) slip_rate_softest)) x123)
         in
         let x132 = f.nmul x131 (f.nexp (f.nmul x125 (f.nmul x131 x131))) in
         Ok (f.nadd x130 x132)
  | P2013 ->
    if f.neqb deformation_exponent f.nzero
    then Err DivZero
    else let x133 = f.nsub deformation_exponent stress_exponent in
         let x134 = f.npow f.nzero x133 in
         let x135 = f.ndiv stress_exponent deformation_exponent in
         let x136 =
           f.nmul x134
             (f.npow (f.nabs (f.nmul (slip_rates O) slip_rate_softest)) x135)
         in
         let x137 = f.nopp nucleation_efficiency in
         let x138 = f.nmul x136 (f.nexp (f.nmul x137 (f.nmul x136 x136))) in
         let x139 =
           f.nmul x134
             (f.npow (f.nabs (f.nmul (slip_rates (S O)) slip_rate_softest))
               x135)
         in
         let x140 = f.nmul x139 (f.nexp (f.nmul x137 (f.nmul x139 x139))) in
         let x141 = f.nadd x138 x140 in
         let x142 =
           f.nmul (f.npow f.none x133)
             (f.npow
               (f.nabs (f.nmul (slip_rates (S (S (S O)))) slip_rate_softest))
               x135)
         in
         let x143 = f.nmul x142 (f.nexp (f.nmul x137 (f.nmul x142 x142))) in
         Ok (f.nadd x141 x143)
  | P2031 ->
    if f.neqb deformation_exponent f.nzero
    then Err DivZero
    else let x144 = f.nsub deformation_exponent stress_exponent in
         let x145 = f.npow f.nzero x144 in
         let x146 = f.ndiv stress_exponent deformation_exponent in
         let x147 =
           f.nmul x145
             (f.npow (f.nabs (f.nmul (slip_rates O) slip_rate_softest)) x146)
         in
         let x148 = f.nopp nucleation_efficiency in
         let x149 = f.nmul x147 (f.nexp (f.nmul x148 (f.nmul x147 x147))) in
         let x150 =
           f.nmul (f.npow f.none x144)
             (f.npow
               (f.nabs (f.nmul (slip_rates (S (S (S O)))) slip_rate_softest))
               x146)
         in
         let x151 = f.nmul x150 (f.nexp (f.nmul x148 (f.nmul x150 x150))) in
         let x152 = f.nadd x149 x151 in
         let x153 =
           f.nmul x145
             (f.npow (f.nabs (f.nmul (slip_rates (S O)) slip_rate_softest))
               x146)
         in
         let x154 = f.nmul x153 (f.nexp (f.nmul x148 (f.nmul x153 x153))) in
         Ok (f.nadd x152 x154)
  | P2103 ->
    if f.neqb deformation_exponent f.nzero
    then Err DivZero
    else let x155 = f.nsub deformation_exponent stress_exponent in
         let x156 = f.npow f.nzero x155 in
         let x157 = f.ndiv stress_exponent deformation_exponent in
         let x158 =
           f.nmul x156
             (f.npow (f.nabs (f.nmul (slip_rates (S O)) slip_rate_softest))
               x157)
         in
         let x159 = f.nopp nucleation_efficiency in
         let x160 = f.nmul x158 (f.nexp (f.nmul x159 (f.nmul x158 x158))) in
         let x161 =
           f.nmul x156
             (f.npow (f.nabs (f.nmul (slip_rates O) slip_rate_softest)) x157)
         in
         let x162 = f.nmul x161 (f.nexp (f.nmul x159 (f.nmul x161 x161))) in
         let x163 = f.nadd x160 x162 in
         let x164 =
           f.nmul (f.npow f.none x155)
             (f.npow
               (f.nabs (f.nmul (slip_rates (S (S (S O)))) slip_rate_softest))
               x157)
         in
         let x165 = f.nmul x164 (f.nexp (f.nmul x159 (f.nmul x164 x164))) in
         Ok (f.nadd x163 x165)
  | P2130 ->
    if f.neqb deformation_exponent f.nzero
    then Err DivZero
    else let x166 = f.nsub deformation_exponent stress_exponent in
         let x167 = f.npow f.nzero x166 in
         let x168 = f.ndiv stress_exponent deformation_exponent in
         let x169 =
           f.nmul x167
             (f.npow (f.nabs (f.nmul (slip_rates (S O)) slip_rate_softest))
               x168)
         in
         let x170 = f.nopp nucleation_efficiency in
         let x171 = f.nmul x169 (f.nexp (f.nmul x170 (f.nmul x169 x169))) in
         let x172 =
           f.nmul (f.npow f.none x166)
             (f.npow
               (f.nabs (f.nmul (slip_rates (S (S (S O)))) slip_rate_softest))
               x168)
         in
         let x173 = f.nmul x172 (f.nexp (f.nmul x170 (f.nmul x172 x172))) in
         let x174 = f.nadd x171 x173 in
         let x175 =
           f.nmul x167
             (f.npow (f.nabs (f.nmul (slip_rates O) slip_rate_softest)) x168)
         in
         let x176 = f.nmul x175 (f.nexp (f.nmul x170 (f.nmul x175 x175))) in
         Ok (f.nadd x174 x176)
  | P2301 ->
    if f.neqb deformation_exponent f.nzero
    then Err DivZero
    else let x177 = f.nsub deformation_exponent stress_exponent in
         let x178 = f.ndiv stress_exponent deformation_exponent in
         let x179 =
           f.nmul (f.npow f.none x177)
             (f.npow
               (f.nabs (f.nmul (slip_rates (S (S (S O)))) slip_rate_softest))
               x178)
         in
         let x180 = f.nopp nucleation_efficiency in
         let x181 = f.nmul x179 (f.nexp (f.nmul x180 (f.nmul x179 x179))) in
         let x182 = f.npow f.nzero x177 in
         let x183 =
           f.nmul x182
             (f.npow (f.nabs (f.nmul (slip_rates O) slip_rate_softest)) x178)
         in
         let x184 = f.nmul x183 (f.nexp (f.nmul x180 (f.nmul x183 x183))) in
         let x185 = f.nadd x181 x184 in
         let x186 =
           f.nmul x182
             (f.npow (f.nabs (f.nmul (slip_rates (S O)) slip_rate_softest))
               x178)
         in
         let x187 = f.nmul x186 (f.nexp (f.nmul x180 (f.nmul x186 x186))) in
         Ok (f.nadd x185 x187)
  | P2310 ->
    if f.neqb deformation_exponent f.nzero
    then Err DivZero
    else let x188 = f.nsub deformation_exponent stress_exponent in
         let x189 = f.ndiv stress_exponent deformation_exponent in
         let x190 =
           f.nmul (f.npow f.none x188)
             (f.npow
               (f.nabs (f.nmul (slip_rates (S (S (S O)))) slip_rate_softest))
               x189)
         in
         let x191 = f.nopp nucleation_efficiency in
         let x192 = f.nmul x190 (f.nexp (f.nmul x191 (f.nmul x190 x190))) in
         let x193 = f.npow f.nzero x188 in
         let x194 =
           f.nmul x193
             (f.npow (f.nabs (f.nmul (slip_rates (S O)) slip_rate_softest))
               x189)
         in
         let x195 = f.nmul x194 (f.nexp (f.nmul x191 (f.nmul x194 x194))) in
         let x196 = f.nadd x192 x195 in
         let x197 =
           f.nmul x193
             (f.npow (f.nabs (f.nmul (slip_rates O) slip_rate_softest)) x189)
         in
         let x198 = f.nmul x197 (f.nexp (f.nmul x191 (f.nmul x197 x197))) in
         Ok (f.nadd x196 x198)
  | P3012 ->
    if f.neqb deformation_exponent f.nzero
    then Err DivZero
    else let x199 = f.nsub deformation_exponent stress_exponent in
         let x200 = f.npow f.nzero x199 in
         let x201 = f.ndiv stress_exponent deformation_exponent in
         let x202 =
           f.nmul x200
             (f.npow (f.nabs (f.nmul (slip_rates O) slip_rate_softest)) x201)
         in
         let x203 = f.nopp nucleation_efficiency in
         let x204 = f.nmul x202 (f.nexp (f.nmul x203 (f.nmul x202 x202))) in
         let x205 =
           f.nmul x200
             (f.npow (f.nabs (f.nmul (slip_rates (S O)) slip_rate_softest))
               x201)
         in
         let x206 = f.nmul x205 (f.nexp (f.nmul x203 (f.nmul x205 x205))) in
         let x207 = f.nadd x204 x206 in
         let x208 =
           f.nmul x200
             (f.npow
               (f.nabs (f.nmul (slip_rates (S (S O))) slip_rate_softest))
               x201)
         in
         let x209 = f.nmul x208 (f.nexp (f.nmul x203 (f.nmul x208 x208))) in
         Ok (f.nadd x207 x209)
  | P3021 ->
    if f.neqb deformation_exponent f.nzero
    then Err DivZero
    else let x210 = f.nsub deformation_exponent stress_exponent in
         let x211 = f.npow f.nzero x210 in
         let x212 = f.ndiv stress_exponent deformation_exponent in
         let x213 =
           f.nmul x211
             (f.npow (f.nabs (f.nmul (slip_rates O) slip_rate_softest)) x212)
         in
         let x214 = f.nopp nucleation_efficiency in
         let x215 = f.nmul x213 (f.nexp (f.nmul x214 (f.nmul x213 x213))) in
         let x216 =
           f.nmul x211
             (f.npow
               (f.nabs (f.nmul (slip_rates (S (S O))) slip_rate_softest))
               x212)
         in
         let x217 = f.nmul x216 (f.nexp (f.nmul x214 (f.nmul x216 x216))) in
         let x218 = f.nadd x215 x217 in
         let x219 =
           f.nmul x211
             (f.npow (f.nabs (f.nmul (slip_rates (S O)) slip_rate_softest))
               x212)
         in
         let x220 = f.nmul x219 (f.nexp (f.nmul x214 (f.nmul x219 x219))) in
         Ok (f.nadd x218 x220)
  | P3102 ->
    if f.neqb deformation_exponent f.nzero
    then Err DivZero
    else let x221 = f.nsub deformation_exponent stress_exponent in
         let x222 = f.npow f.nzero x221 in
         let x223 = f.ndiv stress_exponent deformation_exponent in
         let x224 =
           f.nmul x222
             (f.npow (f.nabs (f.nmul (slip_rates (S O)) slip_rate_softest))
               x223)
         in
         let x225 = f.nopp nucleation_efficiency in
         let x226 = f.nmul x224 (f.nexp (f.nmul x225 (f.nmul x224 x224))) in
         let x227 =
           f.nmul x222
             (f.npow (f.nabs (f.nmul (slip_rates O) slip_rate_softest)) x223)
         in
         let x228 = f.nmul x227 (f.nexp (f.nmul x225 (f.nmul x227 x227))) in
         let x229 = f.nadd x226 x228 in
         let x230 =
           f.nmul x222
             (f.npow
               (f.nabs (f.nmul (slip_rates (S (S O))) slip_rate_softest))
               x223)
         in
         let x231 = f.nmul x230 (f.nexp (f.nmul x225 (f.nmul x230 x230))) in
         Ok (f.nadd x229 x231)
  | P3120 ->
    if f.neqb deformation_exponent f.nzero
    then Err DivZero
    else let x232 = f.nsub deformation_exponent stress_exponent in
         let x233 = f.npow f.nzero x232 in
         let x234 = f.ndiv stress_exponent deformation_exponent in
         let x235 =
           f.nmul x233
             (f.npow (f.nabs (f.nmul (slip_rates (S O)) slip_rate_softest))
               x234)
         in
         let x236 = f.nopp nucleation_efficiency in
         let x237 = f.nmul x235 (f.nexp (f.nmul x236 (f.nmul x235 x235))) in
         let x238 =
           f.nmul x233
             (f.npow
               (f.nabs (f.nmul (slip_rates (S (S O))) slip_rate_softest))
               x234)
         in
         let x239 = f.nmul x238 (f.nexp (f.nmul x236 (f.nmul x238 x238))) in
         let x240 = f.nadd x237 x239 in
         let x241 =
           f.nmul x233
             (f.npow (f.nabs (f.nmul (slip_rates O) slip_rate_softest)) x234)
         in
         let x242 = f.nmul x241 (f.nexp (f.nmul x236 (f.nmul x241 x241))) in
         Ok (f.nadd x240 x242)
  | P3201 ->
    if f.neqb deformation_exponent f.nzero
    then Err DivZero
    else let x243 = f.nsub deformation_exponent stress_exponent in
         let x244 = f.npow f.nzero x243 in
         let x245 = f.ndiv stress_exponent deformation_exponent in
         let x246 =
           f.nmul x244
             (f.npow
               (f.nabs (f.nmul (slip_rates (S (S O))) slip_rate_softest))
               x245)
         in
         let x247 = f.nopp nucleation_efficiency in
         let x248 = f.nmul x246 (f.nexp (f.nmul x247 (f.nmul x246 x246))) in
         let x249 =
           f.nmul x244
             (f.npow (f.nabs (f.nmul (slip_rates O) slip_rate_softest)) x245)
         in
         let x250 = f.nmul x249 (f.nexp (f.nmul x247 (f.nmul x249 x249))) in
         let x251 = f.nadd x248 x250 in
         let x252 =
           f.nmul x244
             (f.npow (f.nabs (f.nmul (slip_rates (S O)) slip_rate_softest))
               x245)
         in
         let x253 = f.nmul x252 (f.nexp (f.nmul x247 (f.nmul x252 x252))) in
         Ok (f.nadd x251 x253)
  | P3210 ->
    if f.neqb deformation_exponent f.nzero
    then Err DivZero
    else let x254 = f.nsub deformation_exponent stress_exponent in
         let x255 = f.npow f.nzero x254 in
         let x256 = f.ndiv stress_exponent deformation_exponent in
         let x257 =
           f.nmul x255
             (f.npow
               (f.nabs (f.nmul (slip_rates (S (S O))) slip_rate_softest))
               x256)
         in
         let x258 = f.nopp nucleation_efficiency in
         let x259 = f.nmul x257 (f.nexp (f.nmul x258 (f.nmul x257 x257))) in
         let x260 =
           f.nmul x255
             (f.npow (f.nabs (f.nmul (slip_rates (S O)) slip_rate_softest))
               x256)
         in
         let x261 = f.nmul x260 (f.nexp (f.nmul x258 (f.nmul x260 x260))) in
         let x262 = f.nadd x259 x261 in
         let x263 =
           f.nmul x255
             (f.npow (f.nabs (f.nmul (slip_rates O) slip_rate_softest)) x256)
         in
         let x264 = f.nmul x263 (f.nexp (f.nmul x258 (f.nmul x263 x263))) in
         Ok (f.nadd x262 x264)

(** val k_get_rotation_and_strain :
    num -> z -> z -> t arr -> t arr -> t arr -> t -> t -> t -> (t arr * t) res **)

let k_get_rotation_and_strain f phase fabric orientation strain_rate velocity_gradient stress_exponent deformation_exponent nucleation_efficiency =
  if Z.eqb phase Z0
  then if Z.eqb fabric Z0
       then if (&&)
                 (f.neqb (k_get_slip_invariants f strain_rate orientation O)
                   f.nzero)
                 ((&&)
                   (f.neqb
                     (k_get_slip_invariants f strain_rate orientation (S O))
                     f.nzero)
                   ((&&)
                     (f.neqb
                       (k_get_slip_invariants f strain_rate orientation (S (S
                         O))) f.nzero)
                     (f.neqb
                       (k_get_slip_invariants f strain_rate orientation (S (S
                         (S O)))) f.nzero)))
            then Ok
                   ((mk_arr f.nzero
                      (f.nzero :: (f.nzero :: (f.nzero :: (f.nzero :: (f.nzero :: (f.nzero :: (f.nzero :: (f.nzero :: (f.nzero :: [])))))))))),
                   f.nzero)
            else let x2 =
                   f.nabs (k_get_slip_invariants f strain_rate orientation O)
                 in
                 let x3 =
                   f.nabs
                     (f.ndiv
                       (k_get_slip_invariants f strain_rate orientation (S O))
                       (f.nofZ (Zpos (XO XH))))
                 in
                 let x4 =
                   f.nabs
                     (f.ndiv
                       (k_get_slip_invariants f strain_rate orientation (S (S
                         O))) (f.nofZ (Zpos (XI XH))))
                 in
                 if (&&) (f.neqb x2 f.nzero)
                      ((&&) (f.neqb x3 f.nzero) (f.neqb x4 f.nzero))
                 then Ok
                        ((mk_arr f.nzero
                           (f.nzero :: (f.nzero :: (f.nzero :: (f.nzero :: (f.nzero :: (f.nzero :: (f.nzero :: (f.nzero :: (f.nzero :: [])))))))))),
                        f.nzero)
                 else (match k_get_slip_rates_olivine_s_1_2_3_inf f
                               (k_get_slip_invariants f strain_rate
                                 orientation)
                               (argsort4 f
                                 (mk_arr f.nzero
                                   (x2 :: (x3 :: (x4 :: (f.nzero :: []))))))
                               deformation_exponent with
                       | Ok c5 ->
                         (match k_get_slip_rate_softest f
                                  (k_get_deformation_rate f phase orientation
                                    c5) velocity_gradient with
                          | Ok c7 ->
                            (match k_get_strain_energy_s_1_2_3_inf f c5
                                     (argsort4 f
                                       (mk_arr f.nzero
                                         (x2 :: (x3 :: (x4 :: (f.nzero :: []))))))
                                     c7 stress_exponent deformation_exponent
                                     nucleation_efficiency with
                             | Ok c9 ->
                               Ok
                                 ((k_get_orientation_change f orientation
                                    velocity_gradient
                                    (k_get_deformation_rate f phase
                                      orientation c5) c7), c9)
                             | Err e -> Err e)
                          | Err e -> Err e)
                       | Err e -> Err e)
       else if Z.eqb fabric (Zpos XH)
            then if (&&)
                      (f.neqb
                        (k_get_slip_invariants f strain_rate orientation O)
                        f.nzero)
                      ((&&)
                        (f.neqb
                          (k_get_slip_invariants f strain_rate orientation (S
                            O)) f.nzero)
                        ((&&)
                          (f.neqb
                            (k_get_slip_invariants f strain_rate orientation
                              (S (S O))) f.nzero)
                          (f.neqb
                            (k_get_slip_invariants f strain_rate orientation
                              (S (S (S O)))) f.nzero)))
                 then Ok
                        ((mk_arr f.nzero
                           (f.nzero :: (f.nzero :: (f.nzero :: (f.nzero :: (f.nzero :: (f.nzero :: (f.nzero :: (f.nzero :: (f.nzero :: [])))))))))),
                        f.nzero)
                 else let x11 =
                        f.nabs
                          (f.ndiv
                            (k_get_slip_invariants f strain_rate orientation
                              O) (f.nofZ (Zpos (XI XH))))
                      in
                      let x12 =
                        f.nabs
                          (f.ndiv
                            (k_get_slip_invariants f strain_rate orientation
                              (S O)) (f.nofZ (Zpos (XO XH))))
                      in
                      let x13 =
                        f.nabs
                          (k_get_slip_invariants f strain_rate orientation (S
                            (S O)))
                      in
                      if (&&) (f.neqb x11 f.nzero)
                           ((&&) (f.neqb x12 f.nzero) (f.neqb x13 f.nzero))
                      then Ok
                             ((mk_arr f.nzero
                                (f.nzero :: (f.nzero :: (f.nzero :: (f.nzero :: (f.nzero :: (f.nzero :: (f.nzero :: (f.nzero :: (f.nzero :: [])))))))))),
                             f.nzero)
                      else (match k_get_slip_rates_olivine_s_3_2_1_inf f
                                    (k_get_slip_invariants f strain_rate
                                      orientation)
                                    (argsort4 f
                                      (mk_arr f.nzero
                                        (x11 :: (x12 :: (x13 :: (f.nzero :: []))))))
                                    deformation_exponent with
                            | Ok c14 ->
                              (match k_get_slip_rate_softest f
                                       (k_get_deformation_rate f phase
                                         orientation c14) velocity_gradient with
                               | Ok c16 ->
                                 (match k_get_strain_energy_s_3_2_1_inf f c14
                                          (argsort4 f
                                            (mk_arr f.nzero
                                              (x11 :: (x12 :: (x13 :: (f.nzero :: []))))))
                                          c16 stress_exponent
                                          deformation_exponent
                                          nucleation_efficiency with
                                  | Ok c18 ->
                                    Ok
                                      ((k_get_orientation_change f
                                         orientation velocity_gradient
                                         (k_get_deformation_rate f phase
                                           orientation c14) c16), c18)
                                  | Err e -> Err e)
                               | Err e -> Err e)
                            | Err e -> Err e)
            else if Z.eqb fabric (Zpos (XO XH))
                 then if (&&)
                           (f.neqb
                             (k_get_slip_invariants f strain_rate orientation
                               O) f.nzero)
                           ((&&)
                             (f.neqb
                               (k_get_slip_invariants f strain_rate
                                 orientation (S O)) f.nzero)
                             ((&&)
                               (f.neqb
                                 (k_get_slip_invariants f strain_rate
                                   orientation (S (S O))) f.nzero)
                               (f.neqb
                                 (k_get_slip_invariants f strain_rate
                                   orientation (S (S (S O)))) f.nzero)))
                      then Ok
                             ((mk_arr f.nzero
                                (f.nzero :: (f.nzero :: (f.nzero :: (f.nzero :: (f.nzero :: (f.nzero :: (f.nzero :: (f.nzero :: (f.nzero :: [])))))))))),
                             f.nzero)
                      else let x20 =
                             f.nabs
                               (f.ndiv
                                 (k_get_slip_invariants f strain_rate
                                   orientation O) (f.nofZ (Zpos (XI XH))))
                           in
                           let x21 =
                             f.nabs
                               (f.ndiv
                                 (k_get_slip_invariants f strain_rate
                                   orientation (S O)) (f.nofZ (Zpos (XO XH))))
                           in
                           let x22 =
                             f.nabs
                               (k_get_slip_invariants f strain_rate
                                 orientation (S (S (S O))))
                           in
                           if (&&) (f.neqb x20 f.nzero)
                                ((&&) (f.neqb x21 f.nzero)
                                  (f.neqb x22 f.nzero))
                           then Ok
                                  ((mk_arr f.nzero
                                     (f.nzero :: (f.nzero :: (f.nzero :: (f.nzero :: (f.nzero :: (f.nzero :: (f.nzero :: (f.nzero :: (f.nzero :: [])))))))))),
                                  f.nzero)
                           else (match k_get_slip_rates_olivine_s_3_2_inf_1 f
                                         (k_get_slip_invariants f strain_rate
                                           orientation)
                                         (argsort4 f
                                           (mk_arr f.nzero
                                             (x20 :: (x21 :: (f.nzero :: (x22 :: []))))))
                                         deformation_exponent with
                                 | Ok c23 ->
                                   (match k_get_slip_rate_softest f
                                            (k_get_deformation_rate f phase
                                              orientation c23)
                                            velocity_gradient with
                                    | Ok c25 ->
                                      (match k_get_strain_energy_s_3_2_inf_1
                                               f c23
                                               (argsort4 f
                                                 (mk_arr f.nzero
                                                   (x20 :: (x21 :: (f.nzero :: (x22 :: []))))))
                                               c25 stress_exponent
                                               deformation_exponent
                                               nucleation_efficiency with
                                       | Ok c27 ->
                                         Ok
                                           ((k_get_orientation_change f
                                              orientation velocity_gradient
                                              (k_get_deformation_rate f phase
                                                orientation c23) c25), c27)
                                       | Err e -> Err e)
                                    | Err e -> Err e)
                                 | Err e -> Err e)
                 else if Z.eqb fabric (Zpos (XI XH))
                      then if (&&)
                                (f.neqb
                                  (k_get_slip_invariants f strain_rate
                                    orientation O) f.nzero)
                                ((&&)
                                  (f.neqb
                                    (k_get_slip_invariants f strain_rate
                                      orientation (S O)) f.nzero)
                                  ((&&)
                                    (f.neqb
                                      (k_get_slip_invariants f strain_rate
                                        orientation (S (S O))) f.nzero)
                                    (f.neqb
                                      (k_get_slip_invariants f strain_rate
                                        orientation (S (S (S O)))) f.nzero)))
                           then Ok
                                  ((mk_arr f.nzero
                                     (f.nzero :: (f.nzero :: (f.nzero :: (f.nzero :: (f.nzero :: (f.nzero :: (f.nzero :: (f.nzero :: (f.nzero :: [])))))))))),
                                  f.nzero)
                           else let x29 =
                                  f.nabs
                                    (k_get_slip_invariants f strain_rate
                                      orientation O)
                                in
                                let x30 =
                                  f.nabs
                                    (k_get_slip_invariants f strain_rate
                                      orientation (S O))
                                in
                                let x31 =
                                  f.nabs
                                    (f.ndiv
                                      (k_get_slip_invariants f strain_rate
                                        orientation (S (S O)))
                                      (f.nofZ (Zpos (XI XH))))
                                in
                                if (&&) (f.neqb x29 f.nzero)
                                     ((&&) (f.neqb x30 f.nzero)
                                       (f.neqb x31 f.nzero))
                                then Ok
                                       ((mk_arr f.nzero
                                          (f.nzero :: (f.nzero :: (f.nzero :: (f.nzero :: (f.nzero :: (f.nzero :: (f.nzero :: (f.nzero :: (f.nzero :: [])))))))))),
                                       f.nzero)
                                else (match k_get_slip_rates_olivine_s_1_1_3_inf
                                              f
                                              (k_get_slip_invariants f
                                                strain_rate orientation)
                                              (argsort4 f
                                                (mk_arr f.nzero
                                                  (x29 :: (x30 :: (x31 :: (f.nzero :: []))))))
                                              deformation_exponent with
                                      | Ok c32 ->
                                        (match k_get_slip_rate_softest f
                                                 (k_get_deformation_rate f
                                                   phase orientation c32)
                                                 velocity_gradient with
                                         | Ok c34 ->
                                           (match k_get_strain_energy_s_1_1_3_inf
                                                    f c32
                                                    (argsort4 f
                                                      (mk_arr f.nzero
                                                        (x29 :: (x30 :: (x31 :: (f.nzero :: []))))))
                                                    c34 stress_exponent
                                                    deformation_exponent
                                                    nucleation_efficiency with
                                            | Ok c36 ->
                                              Ok
                                                ((k_get_orientation_change f
                                                   orientation
                                                   velocity_gradient
                                                   (k_get_deformation_rate f
                                                     phase orientation c32)
                                                   c34), c36)
                                            | Err e -> Err e)
                                         | Err e -> Err e)
                                      | Err e -> Err e)
                      else if Z.eqb fabric (Zpos (XO (XO XH)))
                           then if (&&)
                                     (f.neqb
                                       (k_get_slip_invariants f strain_rate
                                         orientation O) f.nzero)
                                     ((&&)
                                       (f.neqb
                                         (k_get_slip_invariants f strain_rate
                                           orientation (S O)) f.nzero)
                                       ((&&)
                                         (f.neqb
                                           (k_get_slip_invariants f
                                             strain_rate orientation (S (S
                                             O))) f.nzero)
                                         (f.neqb
                                           (k_get_slip_invariants f
                                             strain_rate orientation (S (S (S
                                             O)))) f.nzero)))
                                then Ok
                                       ((mk_arr f.nzero
                                          (f.nzero :: (f.nzero :: (f.nzero :: (f.nzero :: (f.nzero :: (f.nzero :: (f.nzero :: (f.nzero :: (f.nzero :: [])))))))))),
                                       f.nzero)
                                else let x38 =
                                       f.nabs
                                         (f.ndiv
                                           (k_get_slip_invariants f
                                             strain_rate orientation O)
                                           (f.nofZ (Zpos (XI XH))))
                                     in
                                     let x39 =
                                       f.nabs
                                         (k_get_slip_invariants f strain_rate
                                           orientation (S O))
                                     in
                                     let x40 =
                                       f.nabs
                                         (f.ndiv
                                           (k_get_slip_invariants f
                                             strain_rate orientation (S (S
                                             O))) (f.nofZ (Zpos (XO XH))))
                                     in
                                     if (&&) (f.neqb x38 f.nzero)
                                          ((&&) (f.neqb x39 f.nzero)
                                            (f.neqb x40 f.nzero))
                                     then Ok
                                            ((mk_arr f.nzero
                                               (f.nzero :: (f.nzero :: (f.nzero :: (f.nzero :: (f.nzero :: (f.nzero :: (f.nzero :: (f.nzero :: (f.nzero :: [])))))))))),
                                            f.nzero)
                                     else (match k_get_slip_rates_olivine_s_3_1_2_inf
                                                   f
                                                   (k_get_slip_invariants f
                                                     strain_rate orientation)
                                                   (argsort4 f
                                                     (mk_arr f.nzero
                                                       (x38 :: (x39 :: (x40 :: (f.nzero :: []))))))
                                                   deformation_exponent with
                                           | Ok c41 ->
                                             (match k_get_slip_rate_softest f
                                                      (k_get_deformation_rate
                                                        f phase orientation
                                                        c41) velocity_gradient with
                                              | Ok c43 ->
                                                (match k_get_strain_energy_s_3_1_2_inf
                                                         f c41
                                                         (argsort4 f
                                                           (mk_arr f.nzero
                                                             (x38 :: (x39 :: (x40 :: (f.nzero :: []))))))
                                                         c43 stress_exponent
                                                         deformation_exponent
                                                         nucleation_efficiency with
                                                 | Ok c45 ->
                                                   Ok
                                                     ((k_get_orientation_change
                                                        f orientation
                                                        velocity_gradient
                                                        (k_get_deformation_rate
                                                          f phase orientation
                                                          c41) c43), c45)
                                                 | Err e -> Err e)
                                              | Err e -> Err e)
                                           | Err e -> Err e)
                           else Err ValueError
  else if Z.eqb phase (Zpos XH)
       then if Z.eqb fabric (Zpos (XI (XO XH)))
            then if (&&)
                      (f.neqb
                        (k_get_slip_invariants f strain_rate orientation O)
                        f.nzero)
                      ((&&)
                        (f.neqb
                          (k_get_slip_invariants f strain_rate orientation (S
                            O)) f.nzero)
                        ((&&)
                          (f.neqb
                            (k_get_slip_invariants f strain_rate orientation
                              (S (S O))) f.nzero)
                          (f.neqb
                            (k_get_slip_invariants f strain_rate orientation
                              (S (S (S O)))) f.nzero)))
                 then Ok
                        ((mk_arr f.nzero
                           (f.nzero :: (f.nzero :: (f.nzero :: (f.nzero :: (f.nzero :: (f.nzero :: (f.nzero :: (f.nzero :: (f.nzero :: [])))))))))),
                        f.nzero)
                 else let x47 =
                        f.nabs
                          (k_get_slip_invariants f strain_rate orientation (S
                            (S (S O))))
                      in
                      if f.nltb
                           (f.ndiv
                             (f.nofZ (Zpos (XI (XI (XO (XI (XO (XO (XO (XO
                               (XI (XI (XO (XI (XO (XI (XO (XI (XI (XI (XO
                               (XO (XI (XI (XI (XO (XI (XI (XI (XI (XO (XO
                               (XI (XI (XI (XI (XI (XO (XI (XO (XI (XI (XI
                               (XO (XO (XO (XO (XO (XO (XO (XI (XO (XO
                               XH)))))))))))))))))))))))))))))))))))))))))))))))))))))
                             (f.nofZ (Zpos (XO (XO (XO (XO (XO (XO (XO (XO
                               (XO (XO (XO (XO (XO (XO (XO (XO (XO (XO (XO
                               (XO (XO (XO (XO (XO (XO (XO (XO (XO (XO (XO
                               (XO (XO (XO (XO (XO (XO (XO (XO (XO (XO (XO
                               (XO (XO (XO (XO (XO (XO (XO (XO (XO (XO (XO
                               (XO (XO (XO (XO (XO (XO (XO (XO (XO (XO (XO
                               (XO (XO (XO (XO (XO (XO (XO (XO (XO (XO (XO
                               (XO (XO (XO (XO (XO (XO (XO (XO (XO (XO (XO
                               (XO (XO (XO (XO (XO (XO (XO (XO (XO (XO (XO
                               (XO (XO (XO (XO (XO
                               XH))))))))))))))))))))))))))))))))))))))))))))))))))))))))))))))))))))))))))))))))))))))))))))))))))))))))
                           x47
                      then (match k_get_slip_rate_softest f
                                    (k_get_deformation_rate f phase
                                      orientation
                                      (mk_arr f.nzero
                                        (f.nzero :: (f.nzero :: (f.nzero :: (f.none :: []))))))
                                    velocity_gradient with
                            | Ok c49 ->
                              (match k_get_strain_energy_s_inf_inf_inf_1 f
                                       (mk_arr f.nzero
                                         (f.nzero :: (f.nzero :: (f.nzero :: (f.none :: [])))))
                                       P0123 c49 stress_exponent
                                       deformation_exponent
                                       nucleation_efficiency with
                               | Ok c51 ->
                                 Ok
                                   ((k_get_orientation_change f orientation
                                      velocity_gradient
                                      (k_get_deformation_rate f phase
                                        orientation
                                        (mk_arr f.nzero
                                          (f.nzero :: (f.nzero :: (f.nzero :: (f.none :: []))))))
                                      c49), c51)
                               | Err e -> Err e)
                            | Err e -> Err e)
                      else (match k_get_slip_rate_softest f
                                    (k_get_deformation_rate f phase
                                      orientation
                                      (mk_arr f.nzero
                                        (f.nzero :: (f.nzero :: (f.nzero :: (f.nzero :: []))))))
                                    velocity_gradient with
                            | Ok c53 ->
                              (match k_get_strain_energy_s_inf_inf_inf_1 f
                                       (mk_arr f.nzero
                                         (f.nzero :: (f.nzero :: (f.nzero :: (f.nzero :: [])))))
                                       P0123 c53 stress_exponent
                                       deformation_exponent
                                       nucleation_efficiency with
                               | Ok c55 ->
                                 Ok
                                   ((k_get_orientation_change f orientation
                                      velocity_gradient
                                      (k_get_deformation_rate f phase
                                        orientation
                                        (mk_arr f.nzero
                                          (f.nzero :: (f.nzero :: (f.nzero :: (f.nzero :: []))))))
                                      c53), c55)
                               | Err e -> Err e)
                            | Err e -> Err e)
            else Err ValueError
       else Err ValueError

(** val k_derivatives_n1 :
    num -> z -> z -> z -> t arr -> t arr -> t arr -> t arr -> t arr -> t -> t
    -> t -> t -> t -> (t arr * t arr) res **)

let k_derivatives_n1 f regime phase fabric orientations fractions strain_rate velocity_gradient deformation_gradient_spin stress_exponent deformation_exponent nucleation_efficiency gbm_mobility volume_fraction =
  if Z.eqb regime Z0
  then Ok
         ((mk_arr f.nzero
            (f.nzero :: (f.nzero :: (f.nzero :: (f.nzero :: (f.nzero :: (f.nzero :: (f.nzero :: (f.nzero :: (f.nzero :: [])))))))))),
         (mk_arr f.nzero (f.nzero :: [])))
  else if Z.eqb regime (Zpos XH)
       then Ok
              ((mk_arr f.nzero
                 ((deformation_gradient_spin O) :: ((deformation_gradient_spin
                                                      (S O)) :: ((deformation_gradient_spin
                                                                   (S (S O))) :: (
                 (deformation_gradient_spin (S (S (S O)))) :: ((deformation_gradient_spin
                                                                 (S (S (S (S
                                                                 O))))) :: (
                 (deformation_gradient_spin (S (S (S (S (S O)))))) :: (
                 (deformation_gradient_spin (S (S (S (S (S (S O))))))) :: (
                 (deformation_gradient_spin (S (S (S (S (S (S (S O)))))))) :: (
                 (deformation_gradient_spin (S (S (S (S (S (S (S (S O))))))))) :: [])))))))))),
              (mk_arr f.nzero (f.nzero :: [])))
       else if Z.eqb regime (Zpos (XO XH))
            then Err ValueError
            else if Z.eqb regime (Zpos (XI XH))
                 then Err ValueError
                 else if Z.eqb regime (Zpos (XO (XO XH)))
                      then (match k_get_rotation_and_strain f phase fabric
                                    (mk_arr f.nzero
                                      ((orientations O) :: ((orientations (S
                                                              O)) :: (
                                      (orientations (S (S O))) :: ((orientations
                                                                    (S (S (S
                                                                    O)))) :: (
                                      (orientations (S (S (S (S O))))) :: (
                                      (orientations (S (S (S (S (S O)))))) :: (
                                      (orientations (S (S (S (S (S (S O))))))) :: (
                                      (orientations (S (S (S (S (S (S (S
                                        O)))))))) :: ((orientations (S (S (S
                                                        (S (S (S (S (S
                                                        O))))))))) :: []))))))))))
                                    strain_rate velocity_gradient
                                    stress_exponent deformation_exponent
                                    nucleation_efficiency with
                            | Ok a ->
                              let (c1_0, c1_1) = a in
                              let x2 =
                                f.nmul (f.nmul volume_fraction gbm_mobility)
                                  (fractions O)
                              in
                              let x3 = f.nsub (f.nmul (fractions O) c1_1) c1_1
                              in
                              Ok
                              ((mk_arr f.nzero
                                 ((c1_0 O) :: ((c1_0 (S O)) :: ((c1_0 (S (S
                                                                  O))) :: (
                                 (c1_0 (S (S (S O)))) :: ((c1_0 (S (S (S (S
                                                            O))))) :: (
                                 (c1_0 (S (S (S (S (S O)))))) :: ((c1_0 (S (S
                                                                    (S (S (S
                                                                    (S
                                                                    O))))))) :: (
                                 (c1_0 (S (S (S (S (S (S (S O)))))))) :: (
                                 (c1_0 (S (S (S (S (S (S (S (S O))))))))) :: [])))))))))),
                              (mk_arr f.nzero ((f.nmul x2 x3) :: [])))
                            | Err e -> Err e)
                      else if Z.eqb regime (Zpos (XI (XO XH)))
                           then Err ValueError
                           else if Z.eqb regime (Zpos (XO (XI XH)))
                                then (match k_get_rotation_and_strain f phase
                                              fabric
                                              (mk_arr f.nzero
                                                ((orientations O) :: (
                                                (orientations (S O)) :: (
                                                (orientations (S (S O))) :: (
                                                (orientations (S (S (S O)))) :: (
                                                (orientations (S (S (S (S
                                                  O))))) :: ((orientations (S
                                                               (S (S (S (S
                                                               O)))))) :: (
                                                (orientations (S (S (S (S (S
                                                  (S O))))))) :: ((orientations
                                                                    (S (S (S
                                                                    (S (S (S
                                                                    (S
                                                                    O)))))))) :: (
                                                (orientations (S (S (S (S (S
                                                  (S (S (S O))))))))) :: []))))))))))
                                              strain_rate velocity_gradient
                                              stress_exponent
                                              deformation_exponent
                                              nucleation_efficiency with
                                      | Ok a ->
                                        let (c4_0, c4_1) = a in
                                        let x5 =
                                          f.nmul
                                            (f.nmul volume_fraction
                                              gbm_mobility) (fractions O)
                                        in
                                        let x6 =
                                          f.nsub (f.nmul (fractions O) c4_1)
                                            c4_1
                                        in
                                        Ok
                                        ((mk_arr f.nzero
                                           ((f.nmul
                                              (f.ndiv
                                                (f.nofZ (Zpos (XI (XI (XO (XO
                                                  (XI (XI (XO (XO (XI (XI (XO
                                                  (XO (XI (XI (XO (XO (XI (XI
                                                  (XO (XO (XI (XI (XO (XO (XI
                                                  (XI (XO (XO (XI (XI (XO (XO
                                                  (XI (XI (XO (XO (XI (XI (XO
                                                  (XO (XI (XI (XO (XO (XI (XI
                                                  (XO (XO (XI (XI (XO (XO
                                                  XH))))))))))))))))))))))))))))))))))))))))))))))))))))))
                                                (f.nofZ (Zpos (XO (XO (XO (XO
                                                  (XO (XO (XO (XO (XO (XO (XO
                                                  (XO (XO (XO (XO (XO (XO (XO
                                                  (XO (XO (XO (XO (XO (XO (XO
                                                  (XO (XO (XO (XO (XO (XO (XO
                                                  (XO (XO (XO (XO (XO (XO (XO
                                                  (XO (XO (XO (XO (XO (XO (XO
                                                  (XO (XO (XO (XO (XO (XO (XO
                                                  (XO
                                                  XH)))))))))))))))))))))))))))))))))))))))))))))))))))))))))
                                              (c4_0 O)) :: ((f.nmul
                                                              (f.ndiv
                                                                (f.nofZ (Zpos
                                                                  (XI (XI (XO
                                                                  (XO (XI (XI
                                                                  (XO (XO (XI
                                                                  (XI (XO (XO
                                                                  (XI (XI (XO
                                                                  (XO (XI (XI
                                                                  (XO (XO (XI
                                                                  (XI (XO (XO
                                                                  (XI (XI (XO
                                                                  (XO (XI (XI
                                                                  (XO (XO (XI
                                                                  (XI (XO (XO
                                                                  (XI (XI (XO
                                                                  (XO (XI (XI
                                                                  (XO (XO (XI
                                                                  (XI (XO (XO
                                                                  (XI (XI (XO
                                                                  (XO
                                                                  XH))))))))))))))))))))))))))))))))))))))))))))))))))))))
                                                                (f.nofZ (Zpos
                                                                  (XO (XO (XO
                                                                  (XO (XO (XO
                                                                  (XO (XO (XO
                                                                  (XO (XO (XO
                                                                  (XO (XO (XO
                                                                  (XO (XO (XO
                                                                  (XO (XO (XO
                                                                  (XO (XO (XO
                                                                  (XO (XO (XO
                                                                  (XO (XO (XO
                                                                  (XO (XO (XO
                                                                  (XO (XO (XO
                                                                  (XO (XO (XO
                                                                  (XO (XO (XO
                                                                  (XO (XO (XO
                                                                  (XO (XO (XO
                                                                  (XO (XO (XO
                                                                  (XO (XO (XO
                                                                  XH)))))))))))))))))))))))))))))))))))))))))))))))))))))))))
                                                              (c4_0 (S O))) :: (
                                           (f.nmul
                                             (f.ndiv
                                               (f.nofZ (Zpos (XI (XI (XO (XO
                                                 (XI (XI (XO (XO (XI (XI (XO
                                                 (XO (XI (XI (XO (XO (XI (XI
                                                 (XO (XO (XI (XI (XO (XO (XI
                                                 (XI (XO (XO (XI (XI (XO (XO
                                                 (XI (XI (XO (XO (XI (XI (XO
                                                 (XO (XI (XI (XO (XO (XI (XI
                                                 (XO (XO (XI (XI (XO (XO
                                                 XH))))))))))))))))))))))))))))))))))))))))))))))))))))))
                                               (f.nofZ (Zpos (XO (XO (XO (XO
                                                 (XO (XO (XO (XO (XO (XO (XO
                                                 (XO (XO (XO (XO (XO (XO (XO
                                                 (XO (XO (XO (XO (XO (XO (XO
                                                 (XO (XO (XO (XO (XO (XO (XO
                                                 (XO (XO (XO (XO (XO (XO (XO
                                                 (XO (XO (XO (XO (XO (XO (XO
                                                 (XO (XO (XO (XO (XO (XO (XO
                                                 (XO
                                                 XH)))))))))))))))))))))))))))))))))))))))))))))))))))))))))
                                             (c4_0 (S (S O)))) :: ((f.nmul
                                                                    (f.ndiv
                                                                    (f.nofZ
                                                                    (Zpos (XI
                                                                    (XI (XO
                                                                    (XO (XI
                                                                    (XI (XO
                                                                    (XO (XI
                                                                    (XI (XO
                                                                    (XO (XI
                                                                    (XI (XO
                                                                    (XO (XI
                                                                    (XI (XO
                                                                    (XO (XI
                                                                    (XI (XO
                                                                    (XO (XI
                                                                    (XI (XO
                                                                    (XO (XI
                                                                    (XI (XO
                                                                    (XO (XI
                                                                    (XI (XO
                                                                    (XO (XI
                                                                    (XI (XO
                                                                    (XO (XI
                                                                    (XI (XO
                                                                    (XO (XI
                                                                    (XI (XO
                                                                    (XO (XI
                                                                    (XI (XO
                                                                    (XO
                                                                    XH))))))))))))))))))))))))))))))))))))))))))))))))))))))
                                                                    (f.nofZ
                                                                    (Zpos (XO
                                                                    (XO (XO
                                                                    (XO (XO
                                                                    (XO (XO
                                                                    (XO (XO
                                                                    (XO (XO
                                                                    (XO (XO
                                                                    (XO (XO
                                                                    (XO (XO
                                                                    (XO (XO
                                                                    (XO (XO
                                                                    (XO (XO
                                                                    (XO (XO
                                                                    (XO (XO
                                                                    (XO (XO
                                                                    (XO (XO
                                                                    (XO (XO
                                                                    (XO (XO
                                                                    (XO (XO
                                                                    (XO (XO
                                                                    (XO (XO
                                                                    (XO (XO
                                                                    (XO (XO
                                                                    (XO (XO
                                                                    (XO (XO
                                                                    (XO (XO
                                                                    (XO (XO
                                                                    (XO
                                                                    XH)))))))))))))))))))))))))))))))))))))))))))))))))))))))))
                                                                    (c4_0 (S
                                                                    (S (S
                                                                    O))))) :: (
                                           (f.nmul
                                             (f.ndiv
                                               (f.nofZ (Zpos (XI (XI (XO (XO
                                                 (XI (XI (XO (XO (XI (XI (XO
                                                 (XO (XI (XI (XO (XO (XI (XI
                                                 (XO (XO (XI (XI (XO (XO (XI
                                                 (XI (XO (XO (XI (XI (XO (XO
                                                 (XI (XI (XO (XO (XI (XI (XO
                                                 (XO (XI (XI (XO (XO (XI (XI
                                                 (XO (XO (XI (XI (XO (XO
                                                 XH))))))))))))))))))))))))))))))))))))))))))))))))))))))
                                               (f.nofZ (Zpos (XO (XO (XO (XO
                                                 (XO (XO (XO (XO (XO (XO (XO
                                                 (XO (XO (XO (XO (XO (XO (XO
                                                 (XO (XO (XO (XO (XO (XO (XO
                                                 (XO (XO (XO (XO (XO (XO (XO
                                                 (XO (XO (XO (XO (XO (XO (XO
                                                 (XO (XO (XO (XO (XO (XO (XO
                                                 (XO (XO (XO (XO (XO (XO (XO
                                                 (XO
                                                 XH)))))))))))))))))))))))))))))))))))))))))))))))))))))))))
                                             (c4_0 (S (S (S (S O)))))) :: (
                                           (f.nmul
                                             (f.ndiv
                                               (f.nofZ (Zpos (XI (XI (XO (XO
                                                 (XI (XI (XO (XO (XI (XI (XO
                                                 (XO (XI (XI (XO (XO (XI (XI
                                                 (XO (XO (XI (XI (XO (XO (XI
                                                 (XI (XO (XO (XI (XI (XO (XO
                                                 (XI (XI (XO (XO (XI (XI (XO
                                                 (XO (XI (XI (XO (XO (XI (XI
                                                 (XO (XO (XI (XI (XO (XO
                                                 XH))))))))))))))))))))))))))))))))))))))))))))))))))))))
                                               (f.nofZ (Zpos (XO (XO (XO (XO
                                                 (XO (XO (XO (XO (XO (XO (XO
                                                 (XO (XO (XO (XO (XO (XO (XO
                                                 (XO (XO (XO (XO (XO (XO (XO
                                                 (XO (XO (XO (XO (XO (XO (XO
                                                 (XO (XO (XO (XO (XO (XO (XO
                                                 (XO (XO (XO (XO (XO (XO (XO
                                                 (XO (XO (XO (XO (XO (XO (XO
                                                 (XO
                                                 XH)))))))))))))))))))))))))))))))))))))))))))))))))))))))))
                                             (c4_0 (S (S (S (S (S O))))))) :: (
                                           (f.nmul
                                             (f.ndiv
                                               (f.nofZ (Zpos (XI (XI (XO (XO
                                                 (XI (XI (XO (XO (XI (XI (XO
                                                 (XO (XI (XI (XO (XO (XI (XI
                                                 (XO (XO (XI (XI (XO (XO (XI
                                                 (XI (XO (XO (XI (XI (XO (XO
                                                 (XI (XI (XO (XO (XI (XI (XO
                                                 (XO (XI (XI (XO (XO (XI (XI
                                                 (XO (XO (XI (XI (XO (XO
                                                 XH))))))))))))))))))))))))))))))))))))))))))))))))))))))
                                               (f.nofZ (Zpos (XO (XO (XO (XO
                                                 (XO (XO (XO (XO (XO (XO (XO
                                                 (XO (XO (XO (XO (XO (XO (XO
                                                 (XO (XO (XO (XO (XO (XO (XO
                                                 (XO (XO (XO (XO (XO (XO (XO
                                                 (XO (XO (XO (XO (XO (XO (XO
                                                 (XO (XO (XO (XO (XO (XO (XO
                                                 (XO (XO (XO (XO (XO (XO (XO
                                                 (XO
                                                 XH)))))))))))))))))))))))))))))))))))))))))))))))))))))))))
                                             (c4_0 (S (S (S (S (S (S O)))))))) :: (
                                           (f.nmul
                                             (f.ndiv
                                               (f.nofZ (Zpos (XI (XI (XO (XO
                                                 (XI (XI (XO (XO (XI (XI (XO
                                                 (XO (XI (XI (XO (XO (XI (XI
                                                 (XO (XO (XI (XI (XO (XO (XI
                                                 (XI (XO (XO (XI (XI (XO (XO
                                                 (XI (XI (XO (XO (XI (XI (XO
                                                 (XO (XI (XI (XO (XO (XI (XI
                                                 (XO (XO (XI (XI (XO (XO
                                                 XH))))))))))))))))))))))))))))))))))))))))))))))))))))))
                                               (f.nofZ (Zpos (XO (XO (XO (XO
                                                 (XO (XO (XO (XO (XO (XO (XO
                                                 (XO (XO (XO (XO (XO (XO (XO
                                                 (XO (XO (XO (XO (XO (XO (XO
                                                 (XO (XO (XO (XO (XO (XO (XO
                                                 (XO (XO (XO (XO (XO (XO (XO
                                                 (XO (XO (XO (XO (XO (XO (XO
                                                 (XO (XO (XO (XO (XO (XO (XO
                                                 (XO
                                                 XH)))))))))))))))))))))))))))))))))))))))))))))))))))))))))
                                             (c4_0 (S (S (S (S (S (S (S
                                               O))))))))) :: ((f.nmul
                                                                (f.ndiv
                                                                  (f.nofZ
                                                                    (Zpos (XI
                                                                    (XI (XO
                                                                    (XO (XI
                                                                    (XI (XO
                                                                    (XO (XI
                                                                    (XI (XO
                                                                    (XO (XI
                                                                    (XI (XO
                                                                    (XO (XI
                                                                    (XI (XO
                                                                    (XO (XI
                                                                    (XI (XO
                                                                    (XO (XI
                                                                    (XI (XO
                                                                    (XO (XI
                                                                    (XI (XO
                                                                    (XO (XI
                                                                    (XI (XO
                                                                    (XO (XI
                                                                    (XI (XO
                                                                    (XO (XI
                                                                    (XI (XO
                                                                    (XO (XI
                                                                    (XI (XO
                                                                    (XO (XI
                                                                    (XI (XO
                                                                    (XO
                                                                    XH))))))))))))))))))))))))))))))))))))))))))))))))))))))
                                                                  (f.nofZ
                                                                    (Zpos (XO
                                                                    (XO (XO
                                                                    (XO (XO
                                                                    (XO (XO
                                                                    (XO (XO
                                                                    (XO (XO
                                                                    (XO (XO
                                                                    (XO (XO
                                                                    (XO (XO
                                                                    (XO (XO
                                                                    (XO (XO
                                                                    (XO (XO
                                                                    (XO (XO
                                                                    (XO (XO
                                                                    (XO (XO
                                                                    (XO (XO
                                                                    (XO (XO
                                                                    (XO (XO
                                                                    (XO (XO
                                                                    (XO (XO
                                                                    (XO (XO
                                                                    (XO (XO
                                                                    (XO (XO
                                                                    (XO (XO
                                                                    (XO (XO
                                                                    (XO (XO
                                                                    (XO (XO
                                                                    (XO
                                                                    XH)))))))))))))))))))))))))))))))))))))))))))))))))))))))))
                                                                (c4_0 (S (S
                                                                  (S (S (S (S
                                                                  (S (S
                                                                  O)))))))))) :: [])))))))))),
                                        (mk_arr f.nzero
                                          ((f.nmul x5
                                             (f.nmul
                                               (f.ndiv
                                                 (f.nofZ (Zpos (XI (XI (XO
                                                   (XO (XI (XI (XO (XO (XI
                                                   (XI (XO (XO (XI (XI (XO
                                                   (XO (XI (XI (XO (XO (XI
                                                   (XI (XO (XO (XI (XI (XO
                                                   (XO (XI (XI (XO (XO (XI
                                                   (XI (XO (XO (XI (XI (XO
                                                   (XO (XI (XI (XO (XO (XI
                                                   (XI (XO (XO (XI (XI (XO
                                                   (XO
                                                   XH))))))))))))))))))))))))))))))))))))))))))))))))))))))
                                                 (f.nofZ (Zpos (XO (XO (XO
                                                   (XO (XO (XO (XO (XO (XO
                                                   (XO (XO (XO (XO (XO (XO
                                                   (XO (XO (XO (XO (XO (XO
                                                   (XO (XO (XO (XO (XO (XO
                                                   (XO (XO (XO (XO (XO (XO
                                                   (XO (XO (XO (XO (XO (XO
                                                   (XO (XO (XO (XO (XO (XO
                                                   (XO (XO (XO (XO (XO (XO
                                                   (XO (XO (XO
                                                   XH)))))))))))))))))))))))))))))))))))))))))))))))))))))))))
                                               x6)) :: [])))
                                      | Err e -> Err e)
                                else if Z.eqb regime (Zpos (XI (XI XH)))
                                     then Ok
                                            ((mk_arr f.nzero
                                               (f.nzero :: (f.nzero :: (f.nzero :: (f.nzero :: (f.nzero :: (f.nzero :: (f.nzero :: (f.nzero :: (f.nzero :: [])))))))))),
                                            (mk_arr f.nzero (f.nzero :: [])))
                                     else Err ValueError

(** val k_derivatives_n2 :
    num -> z -> z -> z -> t arr -> t arr -> t arr -> t arr -> t arr -> t -> t
    -> t -> t -> t -> (t arr * t arr) res **)

let k_derivatives_n2 f regime phase fabric orientations fractions strain_rate velocity_gradient deformation_gradient_spin stress_exponent deformation_exponent nucleation_efficiency gbm_mobility volume_fraction =
  if Z.eqb regime Z0
  then Ok
         ((mk_arr f.nzero
            (f.nzero :: (f.nzero :: (f.nzero :: (f.nzero :: (f.nzero :: (f.nzero :: (f.nzero :: (f.nzero :: (f.nzero :: (f.nzero :: (f.nzero :: (f.nzero :: (f.nzero :: (f.nzero :: (f.nzero :: (f.nzero :: (f.nzero :: (f.nzero :: []))))))))))))))))))),
         (mk_arr f.nzero (f.nzero :: (f.nzero :: []))))
  else if Z.eqb regime (Zpos XH)
       then Ok
              ((mk_arr f.nzero
                 ((deformation_gradient_spin O) :: ((deformation_gradient_spin
                                                      (S O)) :: ((deformation_gradient_spin
                                                                   (S (S O))) :: (
                 (deformation_gradient_spin (S (S (S O)))) :: ((deformation_gradient_spin
                                                                 (S (S (S (S
                                                                 O))))) :: (
                 (deformation_gradient_spin (S (S (S (S (S O)))))) :: (
                 (deformation_gradient_spin (S (S (S (S (S (S O))))))) :: (
                 (deformation_gradient_spin (S (S (S (S (S (S (S O)))))))) :: (
                 (deformation_gradient_spin (S (S (S (S (S (S (S (S O))))))))) :: (
                 (deformation_gradient_spin O) :: ((deformation_gradient_spin
                                                     (S O)) :: ((deformation_gradient_spin
                                                                  (S (S O))) :: (
                 (deformation_gradient_spin (S (S (S O)))) :: ((deformation_gradient_spin
                                                                 (S (S (S (S
                                                                 O))))) :: (
                 (deformation_gradient_spin (S (S (S (S (S O)))))) :: (
                 (deformation_gradient_spin (S (S (S (S (S (S O))))))) :: (
                 (deformation_gradient_spin (S (S (S (S (S (S (S O)))))))) :: (
                 (deformation_gradient_spin (S (S (S (S (S (S (S (S O))))))))) :: []))))))))))))))))))),
              (mk_arr f.nzero (f.nzero :: (f.nzero :: []))))
       else if Z.eqb regime (Zpos (XO XH))
            then Err ValueError
            else if Z.eqb regime (Zpos (XI XH))
                 then Err ValueError
                 else if Z.eqb regime (Zpos (XO (XO XH)))
                      then (match k_get_rotation_and_strain f phase fabric
                                    (mk_arr f.nzero
                                      ((orientations O) :: ((orientations (S
                                                              O)) :: (
                                      (orientations (S (S O))) :: ((orientations
                                                                    (S (S (S
                                                                    O)))) :: (
                                      (orientations (S (S (S (S O))))) :: (
                                      (orientations (S (S (S (S (S O)))))) :: (
                                      (orientations (S (S (S (S (S (S O))))))) :: (
                                      (orientations (S (S (S (S (S (S (S
                                        O)))))))) :: ((orientations (S (S (S
                                                        (S (S (S (S (S
                                                        O))))))))) :: []))))))))))
                                    strain_rate velocity_gradient
                                    stress_exponent deformation_exponent
                                    nucleation_efficiency with
                            | Ok a ->
                              let (c1_0, c1_1) = a in
                              (match k_get_rotation_and_strain f phase fabric
                                       (mk_arr f.nzero
                                         ((orientations (S (S (S (S (S (S (S
                                            (S (S O)))))))))) :: ((orientations
                                                                    (S (S (S
                                                                    (S (S (S
                                                                    (S (S (S
                                                                    (S
                                                                    O))))))))))) :: (
                                         (orientations (S (S (S (S (S (S (S
                                           (S (S (S (S O)))))))))))) :: (
                                         (orientations (S (S (S (S (S (S (S
                                           (S (S (S (S (S O))))))))))))) :: (
                                         (orientations (S (S (S (S (S (S (S
                                           (S (S (S (S (S (S O)))))))))))))) :: (
                                         (orientations (S (S (S (S (S (S (S
                                           (S (S (S (S (S (S (S
                                           O))))))))))))))) :: ((orientations
                                                                  (S (S (S (S
                                                                  (S (S (S (S
                                                                  (S (S (S (S
                                                                  (S (S (S
                                                                  O)))))))))))))))) :: (
                                         (orientations (S (S (S (S (S (S (S
                                           (S (S (S (S (S (S (S (S (S
                                           O))))))))))))))))) :: ((orientations
                                                                    (S (S (S
                                                                    (S (S (S
                                                                    (S (S (S
                                                                    (S (S (S
                                                                    (S (S (S
                                                                    (S (S
                                                                    O)))))))))))))))))) :: []))))))))))
                                       strain_rate velocity_gradient
                                       stress_exponent deformation_exponent
                                       nucleation_efficiency with
                               | Ok a0 ->
                                 let (c2_0, c2_1) = a0 in
                                 let x3 = f.nmul volume_fraction gbm_mobility
                                 in
                                 let x4 = f.nmul x3 (fractions O) in
                                 let x5 =
                                   f.nadd (f.nmul (fractions O) c1_1)
                                     (f.nmul (fractions (S O)) c2_1)
                                 in
                                 let x6 = f.nsub x5 c1_1 in
                                 let x7 = f.nmul x3 (fractions (S O)) in
                                 let x8 = f.nsub x5 c2_1 in
                                 Ok
                                 ((mk_arr f.nzero
                                    ((c1_0 O) :: ((c1_0 (S O)) :: ((c1_0 (S
                                                                    (S O))) :: (
                                    (c1_0 (S (S (S O)))) :: ((c1_0 (S (S (S
                                                               (S O))))) :: (
                                    (c1_0 (S (S (S (S (S O)))))) :: (
                                    (c1_0 (S (S (S (S (S (S O))))))) :: (
                                    (c1_0 (S (S (S (S (S (S (S O)))))))) :: (
                                    (c1_0 (S (S (S (S (S (S (S (S O))))))))) :: (
                                    (c2_0 O) :: ((c2_0 (S O)) :: ((c2_0 (S (S
                                                                    O))) :: (
                                    (c2_0 (S (S (S O)))) :: ((c2_0 (S (S (S
                                                               (S O))))) :: (
                                    (c2_0 (S (S (S (S (S O)))))) :: (
                                    (c2_0 (S (S (S (S (S (S O))))))) :: (
                                    (c2_0 (S (S (S (S (S (S (S O)))))))) :: (
                                    (c2_0 (S (S (S (S (S (S (S (S O))))))))) :: []))))))))))))))))))),
                                 (mk_arr f.nzero
                                   ((f.nmul x4 x6) :: ((f.nmul x7 x8) :: []))))
                               | Err e -> Err e)
                            | Err e -> Err e)
                      else if Z.eqb regime (Zpos (XI (XO XH)))
                           then Err ValueError
                           else if Z.eqb regime (Zpos (XO (XI XH)))
                                then (match k_get_rotation_and_strain f phase
                                              fabric
                                              (mk_arr f.nzero
                                                ((orientations O) :: (
                                                (orientations (S O)) :: (
                                                (orientations (S (S O))) :: (
                                                (orientations (S (S (S O)))) :: (
                                                (orientations (S (S (S (S
                                                  O))))) :: ((orientations (S
                                                               (S (S (S (S
                                                               O)))))) :: (
                                                (orientations (S (S (S (S (S
                                                  (S O))))))) :: ((orientations
                                                                    (S (S (S
                                                                    (S (S (S
                                                                    (S
                                                                    O)))))))) :: (
                                                (orientations (S (S (S (S (S
                                                  (S (S (S O))))))))) :: []))))))))))
                                              strain_rate velocity_gradient
                                              stress_exponent
                                              deformation_exponent
                                              nucleation_efficiency with
                                      | Ok a ->
                                        let (c9_0, c9_1) = a in
                                        (match k_get_rotation_and_strain f
                                                 phase fabric
                                                 (mk_arr f.nzero
                                                   ((orientations (S (S (S (S
                                                      (S (S (S (S (S
                                                      O)))))))))) :: (
                                                   (orientations (S (S (S (S
                                                     (S (S (S (S (S (S
                                                     O))))))))))) :: (
                                                   (orientations (S (S (S (S
                                                     (S (S (S (S (S (S (S
                                                     O)))))))))))) :: (
                                                   (orientations (S (S (S (S
                                                     (S (S (S (S (S (S (S (S
                                                     O))))))))))))) :: (
                                                   (orientations (S (S (S (S
                                                     (S (S (S (S (S (S (S (S
                                                     (S O)))))))))))))) :: (
                                                   (orientations (S (S (S (S
                                                     (S (S (S (S (S (S (S (S
                                                     (S (S O))))))))))))))) :: (
                                                   (orientations (S (S (S (S
                                                     (S (S (S (S (S (S (S (S
                                                     (S (S (S
                                                     O)))))))))))))))) :: (
                                                   (orientations (S (S (S (S
                                                     (S (S (S (S (S (S (S (S
                                                     (S (S (S (S
                                                     O))))))))))))))))) :: (
                                                   (orientations (S (S (S (S
                                                     (S (S (S (S (S (S (S (S
                                                     (S (S (S (S (S
                                                     O)))))))))))))))))) :: []))))))))))
                                                 strain_rate
                                                 velocity_gradient
                                                 stress_exponent
                                                 deformation_exponent
                                                 nucleation_efficiency with
                                         | Ok a0 ->
                                           let (c10_0, c10_1) = a0 in
                                           let x11 =
                                             f.nmul volume_fraction
                                               gbm_mobility
                                           in
                                           let x12 = f.nmul x11 (fractions O)
                                           in
                                           let x13 =
                                             f.nadd
                                               (f.nmul (fractions O) c9_1)
                                               (f.nmul (fractions (S O))
                                                 c10_1)
                                           in
                                           let x14 = f.nsub x13 c9_1 in
                                           let x15 =
                                             f.nmul x11 (fractions (S O))
                                           in
                                           let x16 = f.nsub x13 c10_1 in
                                           Ok
                                           ((mk_arr f.nzero
                                              ((f.nmul
                                                 (f.ndiv
                                                   (f.nofZ (Zpos (XI (XI (XO
                                                     (XO (XI (XI (XO (XO (XI
                                                     (XI (XO (XO (XI (XI (XO
                                                     (XO (XI (XI (XO (XO (XI
                                                     (XI (XO (XO (XI (XI (XO
                                                     (XO (XI (XI (XO (XO (XI
                                                     (XI (XO (XO (XI (XI (XO
                                                     (XO (XI (XI (XO (XO (XI
                                                     (XI (XO (XO (XI (XI (XO
                                                     (XO
                                                     XH))))))))))))))))))))))))))))))))))))))))))))))))))))))
                                                   (f.nofZ (Zpos (XO (XO (XO
                                                     (XO (XO (XO (XO (XO (XO
                                                     (XO (XO (XO (XO (XO (XO
                                                     (XO (XO (XO (XO (XO (XO
                                                     (XO (XO (XO (XO (XO (XO
                                                     (XO (XO (XO (XO (XO (XO
                                                     (XO (XO (XO (XO (XO (XO
                                                     (XO (XO (XO (XO (XO (XO
                                                     (XO (XO (XO (XO (XO (XO
                                                     (XO (XO (XO
                                                     XH)))))))))))))))))))))))))))))))))))))))))))))))))))))))))
                                                 (c9_0 O)) :: ((f.nmul
                                                                 (f.ndiv
                                                                   (f.nofZ
                                                                    (Zpos (XI
                                                                    (XI (XO
                                                                    (XO (XI
                                                                    (XI (XO
                                                                    (XO (XI
                                                                    (XI (XO
                                                                    (XO (XI
                                                                    (XI (XO
                                                                    (XO (XI
                                                                    (XI (XO
                                                                    (XO (XI
                                                                    (XI (XO
                                                                    (XO (XI
                                                                    (XI (XO
                                                                    (XO (XI
                                                                    (XI (XO
                                                                    (XO (XI
                                                                    (XI (XO
                                                                    (XO (XI
                                                                    (XI (XO
                                                                    (XO (XI
                                                                    (XI (XO
                                                                    (XO (XI
                                                                    (XI (XO
                                                                    (XO (XI
                                                                    (XI (XO
                                                                    (XO
                                                                    XH))))))))))))))))))))))))))))))))))))))))))))))))))))))
                                                                   (f.nofZ
                                                                    (Zpos (XO
                                                                    (XO (XO
                                                                    (XO (XO
                                                                    (XO (XO
                                                                    (XO (XO
                                                                    (XO (XO
                                                                    (XO (XO
                                                                    (XO (XO
                                                                    (XO (XO
                                                                    (XO (XO
                                                                    (XO (XO
                                                                    (XO (XO
                                                                    (XO (XO
                                                                    (XO (XO
                                                                    (XO (XO
                                                                    (XO (XO
                                                                    (XO (XO
                                                                    (XO (XO
                                                                    (XO (XO
                                                                    (XO (XO
                                                                    (XO (XO
                                                                    (XO (XO
                                                                    (XO (XO
                                                                    (XO (XO
                                                                    (XO (XO
                                                                    (XO (XO
                                                                    (XO (XO
                                                                    (XO
                                                                    XH)))))))))))))))))))))))))))))))))))))))))))))))))))))))))
                                                                 (c9_0 (S O))) :: (
                                              (f.nmul
                                                (f.ndiv
                                                  (f.nofZ (Zpos (XI (XI (XO
                                                    (XO (XI (XI (XO (XO (XI
                                                    (XI (XO (XO (XI (XI (XO
                                                    (XO (XI (XI (XO (XO (XI
                                                    (XI (XO (XO (XI (XI (XO
                                                    (XO (XI (XI (XO (XO (XI
                                                    (XI (XO (XO (XI (XI (XO
                                                    (XO (XI (XI (XO (XO (XI
                                                    (XI (XO (XO (XI (XI (XO
                                                    (XO
                                                    XH))))))))))))))))))))))))))))))))))))))))))))))))))))))
                                                  (f.nofZ (Zpos (XO (XO (XO
                                                    (XO (XO (XO (XO (XO (XO
                                                    (XO (XO (XO (XO (XO (XO
                                                    (XO (XO (XO (XO (XO (XO
                                                    (XO (XO (XO (XO (XO (XO
                                                    (XO (XO (XO (XO (XO (XO
                                                    (XO (XO (XO (XO (XO (XO
                                                    (XO (XO (XO (XO (XO (XO
                                                    (XO (XO (XO (XO (XO (XO
                                                    (XO (XO (XO
                                                    XH)))))))))))))))))))))))))))))))))))))))))))))))))))))))))
                                                (c9_0 (S (S O)))) :: (
                                              (f.nmul
                                                (f.ndiv
                                                  (f.nofZ (Zpos (XI (XI (XO
                                                    (XO (XI (XI (XO (XO (XI
                                                    (XI (XO (XO (XI (XI (XO
                                                    (XO (XI (XI (XO (XO (XI
                                                    (XI (XO (XO (XI (XI (XO
                                                    (XO (XI (XI (XO (XO (XI
                                                    (XI (XO (XO (XI (XI (XO
                                                    (XO (XI (XI (XO (XO (XI
                                                    (XI (XO (XO (XI (XI (XO
                                                    (XO
                                                    XH))))))))))))))))))))))))))))))))))))))))))))))))))))))
                                                  (f.nofZ (Zpos (XO (XO (XO
                                                    (XO (XO (XO (XO (XO (XO
                                                    (XO (XO (XO (XO (XO (XO
                                                    (XO (XO (XO (XO (XO (XO
                                                    (XO (XO (XO (XO (XO (XO
                                                    (XO (XO (XO (XO (XO (XO
                                                    (XO (XO (XO (XO (XO (XO
                                                    (XO (XO (XO (XO (XO (XO
                                                    (XO (XO (XO (XO (XO (XO
                                                    (XO (XO (XO
                                                    XH)))))))))))))))))))))))))))))))))))))))))))))))))))))))))
                                                (c9_0 (S (S (S O))))) :: (
                                              (f.nmul
                                                (f.ndiv
                                                  (f.nofZ (Zpos (XI (XI (XO
                                                    (XO (XI (XI (XO (XO (XI
                                                    (XI (XO (XO (XI (XI (XO
                                                    (XO (XI (XI (XO (XO (XI
                                                    (XI (XO (XO (XI (XI (XO
                                                    (XO (XI (XI (XO (XO (XI
                                                    (XI (XO (XO (XI (XI (XO
                                                    (XO (XI (XI (XO (XO (XI
                                                    (XI (XO (XO (XI (XI (XO
                                                    (XO
                                                    XH))))))))))))))))))))))))))))))))))))))))))))))))))))))
                                                  (f.nofZ (Zpos (XO (XO (XO
                                                    (XO (XO (XO (XO (XO (XO
                                                    (XO (XO (XO (XO (XO (XO
                                                    (XO (XO (XO (XO (XO (XO
                                                    (XO (XO (XO (XO (XO (XO
                                                    (XO (XO (XO (XO (XO (XO
                                                    (XO (XO (XO (XO (XO (XO
                                                    (XO (XO (XO (XO (XO (XO
                                                    (XO (XO (XO (XO (XO (XO
                                                    (XO (XO (XO
                                                    XH)))))))))))))))))))))))))))))))))))))))))))))))))))))))))
                                                (c9_0 (S (S (S (S O)))))) :: (
                                              (f.nmul
                                                (f.ndiv
                                                  (f.nofZ (Zpos (XI (XI (XO
                                                    (XO (XI (XI (XO (XO (XI
                                                    (XI (XO (XO (XI (XI (XO
                                                    (XO (XI (XI (XO (XO (XI
                                                    (XI (XO (XO (XI (XI (XO
                                                    (XO (XI (XI (XO (XO (XI
                                                    (XI (XO (XO (XI (XI (XO
                                                    (XO (XI (XI (XO (XO (XI
                                                    (XI (XO (XO (XI (XI (XO
                                                    (XO
                                                    XH))))))))))))))))))))))))))))))))))))))))))))))))))))))
                                                  (f.nofZ (Zpos (XO (XO (XO
                                                    (XO (XO (XO (XO (XO (XO
                                                    (XO (XO (XO (XO (XO (XO
                                                    (XO (XO (XO (XO (XO (XO
                                                    (XO (XO (XO (XO (XO (XO
                                                    (XO (XO (XO (XO (XO (XO
                                                    (XO (XO (XO (XO (XO (XO
                                                    (XO (XO (XO (XO (XO (XO
                                                    (XO (XO (XO (XO (XO (XO
                                                    (XO (XO (XO
                                                    XH)))))))))))))))))))))))))))))))))))))))))))))))))))))))))
                                                (c9_0 (S (S (S (S (S O))))))) :: (
                                              (f.nmul
                                                (f.ndiv
                                                  (f.nofZ (Zpos (XI (XI (XO
                                                    (XO (XI (XI (XO (XO (XI
                                                    (XI (XO (XO (XI (XI (XO
                                                    (XO (XI (XI (XO (XO (XI
                                                    (XI (XO (XO (XI (XI (XO
                                                    (XO (XI (XI (XO (XO (XI
                                                    (XI (XO (XO (XI (XI (XO
                                                    (XO (XI (XI (XO (XO (XI
                                                    (XI (XO (XO (XI (XI (XO
                                                    (XO
                                                    XH))))))))))))))))))))))))))))))))))))))))))))))))))))))
                                                  (f.nofZ (Zpos (XO (XO (XO
                                                    (XO (XO (XO (XO (XO (XO
                                                    (XO (XO (XO (XO (XO (XO
                                                    (XO (XO (XO (XO (XO (XO
                                                    (XO (XO (XO (XO (XO (XO
                                                    (XO (XO (XO (XO (XO (XO
                                                    (XO (XO (XO (XO (XO (XO
                                                    (XO (XO (XO (XO (XO (XO
                                                    (XO (XO (XO (XO (XO (XO
                                                    (XO (XO (XO
                                                    XH)))))))))))))))))))))))))))))))))))))))))))))))))))))))))
                                                (c9_0 (S (S (S (S (S (S
                                                  O)))))))) :: ((f.nmul
                                                                  (f.ndiv
                                                                    (f.nofZ
                                                                    (Zpos (XI
                                                                    (XI (XO
                                                                    (XO (XI
                                                                    (XI (XO
                                                                    (XO (XI
                                                                    (XI (XO
                                                                    (XO (XI
                                                                    (XI (XO
                                                                    (XO (XI
                                                                    (XI (XO
                                                                    (XO (XI
                                                                    (XI (XO
                                                                    (XO (XI
                                                                    (XI (XO
                                                                    (XO (XI
                                                                    (XI (XO
                                                                    (XO (XI
                                                                    (XI (XO
                                                                    (XO (XI
                                                                    (XI (XO
                                                                    (XO (XI
                                                                    (XI (XO
                                                                    (XO (XI
                                                                    (XI (XO
                                                                    (XO (XI
                                                                    (XI (XO
                                                                    (XO
                                                                    XH))))))))))))))))))))))))))))))))))))))))))))))))))))))
                                                                    (f.nofZ
                                                                    (Zpos (XO
                                                                    (XO (XO
                                                                    (XO (XO
                                                                    (XO (XO
                                                                    (XO (XO
                                                                    (XO (XO
                                                                    (XO (XO
                                                                    (XO (XO
                                                                    (XO (XO
                                                                    (XO (XO
                                                                    (XO (XO
                                                                    (XO (XO
                                                                    (XO (XO
                                                                    (XO (XO
                                                                    (XO (XO
                                                                    (XO (XO
                                                                    (XO (XO
                                                                    (XO (XO
                                                                    (XO (XO
                                                                    (XO (XO
                                                                    (XO (XO
                                                                    (XO (XO
                                                                    (XO (XO
                                                                    (XO (XO
                                                                    (XO (XO
                                                                    (XO (XO
                                                                    (XO (XO
                                                                    (XO
                                                                    XH)))))))))))))))))))))))))))))))))))))))))))))))))))))))))
                                                                  (c9_0 (S (S
                                                                    (S (S (S
                                                                    (S (S
                                                                    O))))))))) :: (
                                              (f.nmul
                                                (f.ndiv
                                                  (f.nofZ (Zpos (XI (XI (XO
                                                    (XO (XI (XI (XO (XO (XI
                                                    (XI (XO (XO (XI (XI (XO
                                                    (XO (XI (XI (XO (XO (XI
                                                    (XI (XO (XO (XI (XI (XO
                                                    (XO (XI (XI (XO (XO (XI
                                                    (XI (XO (XO (XI (XI (XO
                                                    (XO (XI (XI (XO (XO (XI
                                                    (XI (XO (XO (XI (XI (XO
                                                    (XO
                                                    XH))))))))))))))))))))))))))))))))))))))))))))))))))))))
                                                  (f.nofZ (Zpos (XO (XO (XO
                                                    (XO (XO (XO (XO (XO (XO
                                                    (XO (XO (XO (XO (XO (XO
                                                    (XO (XO (XO (XO (XO (XO
                                                    (XO (XO (XO (XO (XO (XO
                                                    (XO (XO (XO (XO (XO (XO
                                                    (XO (XO (XO (XO (XO (XO
                                                    (XO (XO (XO (XO (XO (XO
                                                    (XO (XO (XO (XO (XO (XO
                                                    (XO (XO (XO
                                                    XH)))))))))))))))))))))))))))))))))))))))))))))))))))))))))
                                                (c9_0 (S (S (S (S (S (S (S (S
                                                  O)))))))))) :: ((f.nmul
                                                                    (f.ndiv
                                                                    (f.nofZ
                                                                    (Zpos (XI
                                                                    (XI (XO
                                                                    (XO (XI
                                                                    (XI (XO
                                                                    (XO (XI
                                                                    (XI (XO
                                                                    (XO (XI
                                                                    (XI (XO
                                                                    (XO (XI
                                                                    (XI (XO
                                                                    (XO (XI
                                                                    (XI (XO
                                                                    (XO (XI
                                                                    (XI (XO
                                                                    (XO (XI
                                                                    (XI (XO
                                                                    (XO (XI
                                                                    (XI (XO
                                                                    (XO (XI
                                                                    (XI (XO
                                                                    (XO (XI
                                                                    (XI (XO
                                                                    (XO (XI
                                                                    (XI (XO
                                                                    (XO (XI
                                                                    (XI (XO
                                                                    (XO
                                                                    XH))))))))))))))))))))))))))))))))))))))))))))))))))))))
                                                                    (f.nofZ
                                                                    (Zpos (XO
                                                                    (XO (XO
                                                                    (XO (XO
                                                                    (XO (XO
                                                                    (XO (XO
                                                                    (XO (XO
                                                                    (XO (XO
                                                                    (XO (XO
                                                                    (XO (XO
                                                                    (XO (XO
                                                                    (XO (XO
                                                                    (XO (XO
                                                                    (XO (XO
                                                                    (XO (XO
                                                                    (XO (XO
                                                                    (XO (XO
                                                                    (XO (XO
                                                                    (XO (XO
                                                                    (XO (XO
                                                                    (XO (XO
                                                                    (XO (XO
                                                                    (XO (XO
                                                                    (XO (XO
                                                                    (XO (XO
                                                                    (XO (XO
                                                                    (XO (XO
                                                                    (XO (XO
                                                                    (XO
                                                                    XH)))))))))))))))))))))))))))))))))))))))))))))))))))))))))
                                                                    (c10_0 O)) :: (
                                              (f.nmul
                                                (f.ndiv
                                                  (f.nofZ (Zpos (XI (XI (XO
                                                    (XO (XI (XI (XO (XO (XI
                                                    (XI (XO (XO (XI (XI (XO
                                                    (XO (XI (XI (XO (XO (XI
                                                    (XI (XO (XO (XI (XI (XO
                                                    (XO (XI (XI (XO (XO (XI
                                                    (XI (XO (XO (XI (XI (XO
                                                    (XO (XI (XI (XO (XO (XI
                                                    (XI (XO (XO (XI (XI (XO
                                                    (XO
                                                    XH))))))))))))))))))))))))))))))))))))))))))))))))))))))
                                                  (f.nofZ (Zpos (XO (XO (XO
                                                    (XO (XO (XO (XO (XO (XO
                                                    (XO (XO (XO (XO (XO (XO
                                                    (XO (XO (XO (XO (XO (XO
                                                    (XO (XO (XO (XO (XO (XO
                                                    (XO (XO (XO (XO (XO (XO
                                                    (XO (XO (XO (XO (XO (XO
                                                    (XO (XO (XO (XO (XO (XO
                                                    (XO (XO (XO (XO (XO (XO
                                                    (XO (XO (XO
                                                    XH)))))))))))))))))))))))))))))))))))))))))))))))))))))))))
                                                (c10_0 (S O))) :: ((f.nmul
                                                                    (f.ndiv
                                                                    (f.nofZ
                                                                    (Zpos (XI
                                                                    (XI (XO
                                                                    (XO (XI
                                                                    (XI (XO
                                                                    (XO (XI
                                                                    (XI (XO
                                                                    (XO (XI
                                                                    (XI (XO
                                                                    (XO (XI
                                                                    (XI (XO
                                                                    (XO (XI
                                                                    (XI (XO
                                                                    (XO (XI
                                                                    (XI (XO
                                                                    (XO (XI
                                                                    (XI (XO
                                                                    (XO (XI
                                                                    (XI (XO
                                                                    (XO (XI
                                                                    (XI (XO
                                                                    (XO (XI
                                                                    (XI (XO
                                                                    (XO (XI
                                                                    (XI (XO
                                                                    (XO (XI
                                                                    (XI (XO
                                                                    (XO
                                                                    XH))))))))))))))))))))))))))))))))))))))))))))))))))))))
                                                                    (f.nofZ
                                                                    (Zpos (XO
                                                                    (XO (XO
                                                                    (XO (XO
                                                                    (XO (XO
                                                                    (XO (XO
                                                                    (XO (XO
                                                                    (XO (XO
                                                                    (XO (XO
                                                                    (XO (XO
                                                                    (XO (XO
                                                                    (XO (XO
                                                                    (XO (XO
                                                                    (XO (XO
                                                                    (XO (XO
                                                                    (XO (XO
                                                                    (XO (XO
                                                                    (XO (XO
                                                                    (XO (XO
                                                                    (XO (XO
                                                                    (XO (XO
                                                                    (XO (XO
                                                                    (XO (XO
                                                                    (XO (XO
                                                                    (XO (XO
                                                                    (XO (XO
                                                                    (XO (XO
                                                                    (XO (XO
                                                                    (XO
                                                                    XH)))))))))))))))))))))))))))))))))))))))))))))))))))))))))
                                                                    (c10_0 (S
                                                                    (S O)))) :: (
                                              (f.nmul
                                                (f.ndiv
                                                  (f.nofZ (Zpos (XI (XI (XO
                                                    (XO (XI (XI (XO (XO (XI
                                                    (XI (XO (XO (XI (XI (XO
                                                    (XO (XI (XI (XO (XO (XI
                                                    (XI (XO (XO (XI (XI (XO
                                                    (XO (XI (XI (XO (XO (XI
                                                    (XI (XO (XO (XI (XI (XO
                                                    (XO (XI (XI (XO (XO (XI
                                                    (XI (XO (XO (XI (XI (XO
                                                    (XO
                                                    XH))))))))))))))))))))))))))))))))))))))))))))))))))))))
                                                  (f.nofZ (Zpos (XO (XO (XO
                                                    (XO (XO (XO (XO (XO (XO
                                                    (XO (XO (XO (XO (XO (XO
                                                    (XO (XO (XO (XO (XO (XO
                                                    (XO (XO (XO (XO (XO (XO
                                                    (XO (XO (XO (XO (XO (XO
                                                    (XO (XO (XO (XO (XO (XO
                                                    (XO (XO (XO (XO (XO (XO
                                                    (XO (XO (XO (XO (XO (XO
                                                    (XO (XO (XO
                                                    XH)))))))))))))))))))))))))))))))))))))))))))))))))))))))))
                                                (c10_0 (S (S (S O))))) :: (
                                              (f.nmul
                                                (f.ndiv
                                                  (f.nofZ (Zpos (XI (XI (XO
                                                    (XO (XI (XI (XO (XO (XI
                                                    (XI (XO (XO (XI (XI (XO
                                                    (XO (XI (XI (XO (XO (XI
                                                    (XI (XO (XO (XI (XI (XO
                                                    (XO (XI (XI (XO (XO (XI
                                                    (XI (XO (XO (XI (XI (XO
                                                    (XO (XI (XI (XO (XO (XI
                                                    (XI (XO (XO (XI (XI (XO
                                                    (XO
                                                    XH))))))))))))))))))))))))))))))))))))))))))))))))))))))
                                                  (f.nofZ (Zpos (XO (XO (XO
                                                    (XO (XO (XO (XO (XO (XO
                                                    (XO (XO (XO (XO (XO (XO
                                                    (XO (XO (XO (XO (XO (XO
                                                    (XO (XO (XO (XO (XO (XO
                                                    (XO (XO (XO (XO (XO (XO
                                                    (XO (XO (XO (XO (XO (XO
                                                    (XO (XO (XO (XO (XO (XO
                                                    (XO (XO (XO (XO (XO (XO
                                                    (XO (XO (XO
                                                    XH)))))))))))))))))))))))))))))))))))))))))))))))))))))))))
                                                (c10_0 (S (S (S (S O)))))) :: (
                                              (f.nmul
                                                (f.ndiv
                                                  (f.nofZ (Zpos (XI (XI (XO
                                                    (XO (XI (XI (XO (XO (XI
                                                    (XI (XO (XO (XI (XI (XO
                                                    (XO (XI (XI (XO (XO (XI
                                                    (XI (XO (XO (XI (XI (XO
                                                    (XO (XI (XI (XO (XO (XI
                                                    (XI (XO (XO (XI (XI (XO
                                                    (XO (XI (XI (XO (XO (XI
                                                    (XI (XO (XO (XI (XI (XO
                                                    (XO
                                                    XH))))))))))))))))))))))))))))))))))))))))))))))))))))))
                                                  (f.nofZ (Zpos (XO (XO (XO
                                                    (XO (XO (XO (XO (XO (XO
                                                    (XO (XO (XO (XO (XO (XO
                                                    (XO (XO (XO (XO (XO (XO
                                                    (XO (XO (XO (XO (XO (XO
                                                    (XO (XO (XO (XO (XO (XO
                                                    (XO (XO (XO (XO (XO (XO
                                                    (XO (XO (XO (XO (XO (XO
                                                    (XO (XO (XO (XO (XO (XO
                                                    (XO (XO (XO
                                                    XH)))))))))))))))))))))))))))))))))))))))))))))))))))))))))
                                                (c10_0 (S (S (S (S (S O))))))) :: (
                                              (f.nmul
                                                (f.ndiv
                                                  (f.nofZ (Zpos (XI (XI (XO
                                                    (XO (XI (XI (XO (XO (XI
                                                    (XI (XO (XO (XI (XI (XO
                                                    (XO (XI (XI (XO (XO (XI
                                                    (XI (XO (XO (XI (XI (XO
                                                    (XO (XI (XI (XO (XO (XI
                                                    (XI (XO (XO (XI (XI (XO
                                                    (XO (XI (XI (XO (XO (XI
                                                    (XI (XO (XO (XI (XI (XO
                                                    (XO
                                                    XH))))))))))))))))))))))))))))))))))))))))))))))))))))))
                                                  (f.nofZ (Zpos (XO (XO (XO
                                                    (XO (XO (XO (XO (XO (XO
                                                    (XO (XO (XO (XO (XO (XO
                                                    (XO (XO (XO (XO (XO (XO
                                                    (XO (XO (XO (XO (XO (XO
                                                    (XO (XO (XO (XO (XO (XO
                                                    (XO (XO (XO (XO (XO (XO
                                                    (XO (XO (XO (XO (XO (XO
                                                    (XO (XO (XO (XO (XO (XO
                                                    (XO (XO (XO
                                                    XH)))))))))))))))))))))))))))))))))))))))))))))))))))))))))
                                                (c10_0 (S (S (S (S (S (S
                                                  O)))))))) :: ((f.nmul
                                                                  (f.ndiv
                                                                    (f.nofZ
                                                                    (Zpos (XI
                                                                    (XI (XO
                                                                    (XO (XI
                                                                    (XI (XO
                                                                    (XO (XI
                                                                    (XI (XO
                                                                    (XO (XI
                                                                    (XI (XO
                                                                    (XO (XI
                                                                    (XI (XO
                                                                    (XO (XI
                                                                    (XI (XO
                                                                    (XO (XI
                                                                    (XI (XO
                                                                    (XO (XI
                                                                    (XI (XO
                                                                    (XO (XI
                                                                    (XI (XO
                                                                    (XO (XI
                                                                    (XI (XO
                                                                    (XO (XI
                                                                    (XI (XO
                                                                    (XO (XI
                                                                    (XI (XO
                                                                    (XO (XI
                                                                    (XI (XO
                                                                    (XO
                                                                    XH))))))))))))))))))))))))))))))))))))))))))))))))))))))
                                                                    (f.nofZ
                                                                    (Zpos (XO
                                                                    (XO (XO
                                                                    (XO (XO
                                                                    (XO (XO
                                                                    (XO (XO
                                                                    (XO (XO
                                                                    (XO (XO
                                                                    (XO (XO
                                                                    (XO (XO
                                                                    (XO (XO
                                                                    (XO (XO
                                                                    (XO (XO
                                                                    (XO (XO
                                                                    (XO (XO
                                                                    (XO (XO
                                                                    (XO (XO
                                                                    (XO (XO
                                                                    (XO (XO
                                                                    (XO (XO
                                                                    (XO (XO
                                                                    (XO (XO
                                                                    (XO (XO
                                                                    (XO (XO
                                                                    (XO (XO
                                                                    (XO (XO
                                                                    (XO (XO
                                                                    (XO (XO
                                                                    (XO
                                                                    XH)))))))))))))))))))))))))))))))))))))))))))))))))))))))))
                                                                  (c10_0 (S
                                                                    (S (S (S
                                                                    (S (S (S
                                                                    O))))))))) :: (
                                              (f.nmul
                                                (f.ndiv
                                                  (f.nofZ (Zpos (XI (XI (XO
                                                    (XO (XI (XI (XO (XO (XI
                                                    (XI (XO (XO (XI (XI (XO
                                                    (XO (XI (XI (XO (XO (XI
                                                    (XI (XO (XO (XI (XI (XO
                                                    (XO (XI (XI (XO (XO (XI
                                                    (XI (XO (XO (XI (XI (XO
                                                    (XO (XI (XI (XO (XO (XI
                                                    (XI (XO (XO (XI (XI (XO
                                                    (XO
                                                    XH))))))))))))))))))))))))))))))))))))))))))))))))))))))
                                                  (f.nofZ (Zpos (XO (XO (XO
                                                    (XO (XO (XO (XO (XO (XO
                                                    (XO (XO (XO (XO (XO (XO
                                                    (XO (XO (XO (XO (XO (XO
                                                    (XO (XO (XO (XO (XO (XO
                                                    (XO (XO (XO (XO (XO (XO
                                                    (XO (XO (XO (XO (XO (XO
                                                    (XO (XO (XO (XO (XO (XO
                                                    (XO (XO (XO (XO (XO (XO
                                                    (XO (XO (XO
                                                    XH)))))))))))))))))))))))))))))))))))))))))))))))))))))))))
                                                (c10_0 (S (S (S (S (S (S (S
                                                  (S O)))))))))) :: []))))))))))))))))))),
                                           (mk_arr f.nzero
                                             ((f.nmul x12
                                                (f.nmul
                                                  (f.ndiv
                                                    (f.nofZ (Zpos (XI (XI (XO
                                                      (XO (XI (XI (XO (XO (XI
                                                      (XI (XO (XO (XI (XI (XO
                                                      (XO (XI (XI (XO (XO (XI
                                                      (XI (XO (XO (XI (XI (XO
                                                      (XO (XI (XI (XO (XO (XI
                                                      (XI (XO (XO (XI (XI (XO
                                                      (XO (XI (XI (XO (XO (XI
                                                      (XI (XO (XO (XI (XI (XO
                                                      (XO
                                                      XH))))))))))))))))))))))))))))))))))))))))))))))))))))))
                                                    (f.nofZ (Zpos (XO (XO (XO
                                                      (XO (XO (XO (XO (XO (XO
                                                      (XO (XO (XO (XO (XO (XO
                                                      (XO (XO (XO (XO (XO (XO
                                                      (XO (XO (XO (XO (XO (XO
                                                      (XO (XO (XO (XO (XO (XO
                                                      (XO (XO (XO (XO (XO (XO
                                                      (XO (XO (XO (XO (XO (XO
                                                      (XO (XO (XO (XO (XO (XO
                                                      (XO (XO (XO
                                                      XH)))))))))))))))))))))))))))))))))))))))))))))))))))))))))
                                                  x14)) :: ((f.nmul x15
                                                              (f.nmul
                                                                (f.ndiv
                                                                  (f.nofZ
                                                                    (Zpos (XI
                                                                    (XI (XO
                                                                    (XO (XI
                                                                    (XI (XO
                                                                    (XO (XI
                                                                    (XI (XO
                                                                    (XO (XI
                                                                    (XI (XO
                                                                    (XO (XI
                                                                    (XI (XO
                                                                    (XO (XI
                                                                    (XI (XO
                                                                    (XO (XI
                                                                    (XI (XO
                                                                    (XO (XI
                                                                    (XI (XO
                                                                    (XO (XI
                                                                    (XI (XO
                                                                    (XO (XI
                                                                    (XI (XO
                                                                    (XO (XI
                                                                    (XI (XO
                                                                    (XO (XI
                                                                    (XI (XO
                                                                    (XO (XI
                                                                    (XI (XO
                                                                    (XO
                                                                    XH))))))))))))))))))))))))))))))))))))))))))))))))))))))
                                                                  (f.nofZ
                                                                    (Zpos (XO
                                                                    (XO (XO
                                                                    (XO (XO
                                                                    (XO (XO
                                                                    (XO (XO
                                                                    (XO (XO
                                                                    (XO (XO
                                                                    (XO (XO
                                                                    (XO (XO
                                                                    (XO (XO
                                                                    (XO (XO
                                                                    (XO (XO
                                                                    (XO (XO
                                                                    (XO (XO
                                                                    (XO (XO
                                                                    (XO (XO
                                                                    (XO (XO
                                                                    (XO (XO
                                                                    (XO (XO
                                                                    (XO (XO
                                                                    (XO (XO
                                                                    (XO (XO
                                                                    (XO (XO
                                                                    (XO (XO
                                                                    (XO (XO
                                                                    (XO (XO
                                                                    (XO (XO
                                                                    (XO
                                                                    XH)))))))))))))))))))))))))))))))))))))))))))))))))))))))))
                                                                x16)) :: []))))
                                         | Err e -> Err e)
                                      | Err e -> Err e)
                                else if Z.eqb regime (Zpos (XI (XI XH)))
                                     then Ok
                                            ((mk_arr f.nzero
                                               (f.nzero :: (f.nzero :: (f.nzero :: (f.nzero :: (f.nzero :: (f.nzero :: (f.nzero :: (f.nzero :: (f.nzero :: (f.nzero :: (f.nzero :: (f.nzero :: (f.nzero :: (f.nzero :: (f.nzero :: (f.nzero :: (f.nzero :: (f.nzero :: []))))))))))))))))))),
                                            (mk_arr f.nzero
                                              (f.nzero :: (f.nzero :: []))))
                                     else Err ValueError

(** val k_derivatives_n3 :
    num -> z -> z -> z -> t arr -> t arr -> t arr -> t arr -> t arr -> t -> t
    -> t -> t -> t -> (t arr * t arr) res **)

let k_derivatives_n3 f regime phase fabric orientations fractions strain_rate velocity_gradient deformation_gradient_spin stress_exponent deformation_exponent nucleation_efficiency gbm_mobility volume_fraction =
  if Z.eqb regime Z0
  then Ok
         ((mk_arr f.nzero
            (f.nzero :: (f.nzero :: (f.nzero :: (f.nzero :: (f.nzero :: (f.nzero :: (f.nzero :: (f.nzero :: (f.nzero :: (f.nzero :: (f.nzero :: (f.nzero :: (f.nzero :: (f.nzero :: (f.nzero :: (f.nzero :: (f.nzero :: (f.nzero :: (f.nzero :: (f.nzero :: (f.nzero :: (f.nzero :: (f.nzero :: (f.nzero :: (f.nzero :: (f.nzero :: (f.nzero :: [])))))))))))))))))))))))))))),
         (mk_arr f.nzero (f.nzero :: (f.nzero :: (f.nzero :: [])))))
  else if Z.eqb regime (Zpos XH)
       then Ok
              ((mk_arr f.nzero
                 ((deformation_gradient_spin O) :: ((deformation_gradient_spin
                                                      (S O)) :: ((deformation_gradient_spin
                                                                   (S (S O))) :: (
                 (deformation_gradient_spin (S (S (S O)))) :: ((deformation_gradient_spin
                                                                 (S (S (S (S
                                                                 O))))) :: (
                 (deformation_gradient_spin (S (S (S (S (S O)))))) :: (
                 (deformation_gradient_spin (S (S (S (S (S (S O))))))) :: (
                 (deformation_gradient_spin (S (S (S (S (S (S (S O)))))))) :: (
                 (deformation_gradient_spin (S (S (S (S (S (S (S (S O))))))))) :: (
                 (deformation_gradient_spin O) :: ((deformation_gradient_spin
                                                     (S O)) :: ((deformation_gradient_spin
                                                                  (S (S O))) :: (
                 (deformation_gradient_spin (S (S (S O)))) :: ((deformation_gradient_spin
                                                                 (S (S (S (S
                                                                 O))))) :: (
                 (deformation_gradient_spin (S (S (S (S (S O)))))) :: (
                 (deformation_gradient_spin (S (S (S (S (S (S O))))))) :: (
                 (deformation_gradient_spin (S (S (S (S (S (S (S O)))))))) :: (
                 (deformation_gradient_spin (S (S (S (S (S (S (S (S O))))))))) :: (
                 (deformation_gradient_spin O) :: ((deformation_gradient_spin
                                                     (S O)) :: ((deformation_gradient_spin
                                                                  (S (S O))) :: (
                 (deformation_gradient_spin (S (S (S O)))) :: ((deformation_gradient_spin
                                                                 (S (S (S (S
                                                                 O))))) :: (
                 (deformation_gradient_spin (S (S (S (S (S O)))))) :: (
                 (deformation_gradient_spin (S (S (S (S (S (S O))))))) :: (
                 (deformation_gradient_spin (S (S (S (S (S (S (S O)))))))) :: (
                 (deformation_gradient_spin (S (S (S (S (S (S (S (S O))))))))) :: [])))))))))))))))))))))))))))),
              (mk_arr f.nzero (f.nzero :: (f.nzero :: (f.nzero :: [])))))
       else if Z.eqb regime (Zpos (XO XH))
            then Err ValueError
            else if Z.eqb regime (Zpos (XI XH))
                 then Err ValueError
                 else if Z.eqb regime (Zpos (XO (XO XH)))
                      then (match k_get_rotation_and_strain f phase fabric
                                    (mk_arr f.nzero
                                      ((orientations O) :: ((orientations (S
                                                              O)) :: (
                                      (orientations (S (S O))) :: ((orientations
                                                                    (S (S (S
                                                                    O)))) :: (
                                      (orientations (S (S (S (S O))))) :: (
                                      (orientations (S (S (S (S (S O)))))) :: (
                                      (orientations (S (S (S (S (S (S O))))))) :: (
                                      (orientations (S (S (S (S (S (S (S
                                        O)))))))) :: ((orientations (S (S (S
                                                        (S (S (S (S (S
                                                        O))))))))) :: []))))))))))
                                    strain_rate velocity_gradient
                                    stress_exponent deformation_exponent
                                    nucleation_efficiency with
                            | Ok a ->
                              let (c1_0, c1_1) = a in
                              (match k_get_rotation_and_strain f phase fabric
                                       (mk_arr f.nzero
                                         ((orientations (S (S (S (S (S (S (S
                                            (S (S O)))))))))) :: ((orientations
                                                                    (S (S (S
                                                                    (S (S (S
                                                                    (S (S (S
                                                                    (S
                                                                    O))))))))))) :: (
                                         (orientations (S (S (S (S (S (S (S
                                           (S (S (S (S O)))))))))))) :: (
                                         (orientations (S (S (S (S (S (S (S
                                           (S (S (S (S (S O))))))))))))) :: (
                                         (orientations (S (S (S (S (S (S (S
                                           (S (S (S (S (S (S O)))))))))))))) :: (
                                         (orientations (S (S (S (S (S (S (S
                                           (S (S (S (S (S (S (S
                                           O))))))))))))))) :: ((orientations
                                                                  (S (S (S (S
                                                                  (S (S (S (S
                                                                  (S (S (S (S
                                                                  (S (S (S
                                                                  O)))))))))))))))) :: (
                                         (orientations (S (S (S (S (S (S (S
                                           (S (S (S (S (S (S (S (S (S
                                           O))))))))))))))))) :: ((orientations
                                                                    (S (S (S
                                                                    (S (S (S
                                                                    (S (S (S
                                                                    (S (S (S
                                                                    (S (S (S
                                                                    (S (S
                                                                    O)))))))))))))))))) :: []))))))))))
                                       strain_rate velocity_gradient
                                       stress_exponent deformation_exponent
                                       nucleation_efficiency with
                               | Ok a0 ->
                                 let (c2_0, c2_1) = a0 in
                                 (match k_get_rotation_and_strain f phase
                                          fabric
                                          (mk_arr f.nzero
                                            ((orientations (S (S (S (S (S (S
                                               (S (S (S (S (S (S (S (S (S (S
                                               (S (S O))))))))))))))))))) :: (
                                            (orientations (S (S (S (S (S (S
                                              (S (S (S (S (S (S (S (S (S (S
                                              (S (S (S O)))))))))))))))))))) :: (
                                            (orientations (S (S (S (S (S (S
                                              (S (S (S (S (S (S (S (S (S (S
                                              (S (S (S (S
                                              O))))))))))))))))))))) :: (
                                            (orientations (S (S (S (S (S (S
                                              (S (S (S (S (S (S (S (S (S (S
                                              (S (S (S (S (S
                                              O)))))))))))))))))))))) :: (
                                            (orientations (S (S (S (S (S (S
                                              (S (S (S (S (S (S (S (S (S (S
                                              (S (S (S (S (S (S
                                              O))))))))))))))))))))))) :: (
                                            (orientations (S (S (S (S (S (S
                                              (S (S (S (S (S (S (S (S (S (S
                                              (S (S (S (S (S (S (S
                                              O)))))))))))))))))))))))) :: (
                                            (orientations (S (S (S (S (S (S
                                              (S (S (S (S (S (S (S (S (S (S
                                              (S (S (S (S (S (S (S (S
                                              O))))))))))))))))))))))))) :: (
                                            (orientations (S (S (S (S (S (S
                                              (S (S (S (S (S (S (S (S (S (S
                                              (S (S (S (S (S (S (S (S (S
                                              O)))))))))))))))))))))))))) :: (
                                            (orientations (S (S (S (S (S (S
                                              (S (S (S (S (S (S (S (S (S (S
                                              (S (S (S (S (S (S (S (S (S (S
                                              O))))))))))))))))))))))))))) :: []))))))))))
                                          strain_rate velocity_gradient
                                          stress_exponent
                                          deformation_exponent
                                          nucleation_efficiency with
                                  | Ok a1 ->
                                    let (c3_0, c3_1) = a1 in
                                    let x4 =
                                      f.nmul volume_fraction gbm_mobility
                                    in
                                    let x5 = f.nmul x4 (fractions O) in
                                    let x6 =
                                      f.nadd
                                        (f.nadd (f.nmul (fractions O) c1_1)
                                          (f.nmul (fractions (S O)) c2_1))
                                        (f.nmul (fractions (S (S O))) c3_1)
                                    in
                                    let x7 = f.nsub x6 c1_1 in
                                    let x8 = f.nmul x4 (fractions (S O)) in
                                    let x9 = f.nsub x6 c2_1 in
                                    let x10 = f.nmul x4 (fractions (S (S O)))
                                    in
                                    let x11 = f.nsub x6 c3_1 in
                                    Ok
                                    ((mk_arr f.nzero
                                       ((c1_0 O) :: ((c1_0 (S O)) :: (
                                       (c1_0 (S (S O))) :: ((c1_0 (S (S (S
                                                              O)))) :: (
                                       (c1_0 (S (S (S (S O))))) :: ((c1_0 (S
                                                                    (S (S (S
                                                                    (S O)))))) :: (
                                       (c1_0 (S (S (S (S (S (S O))))))) :: (
                                       (c1_0 (S (S (S (S (S (S (S O)))))))) :: (
                                       (c1_0 (S (S (S (S (S (S (S (S
                                         O))))))))) :: ((c2_0 O) :: (
                                       (c2_0 (S O)) :: ((c2_0 (S (S O))) :: (
                                       (c2_0 (S (S (S O)))) :: ((c2_0 (S (S
                                                                  (S (S O))))) :: (
                                       (c2_0 (S (S (S (S (S O)))))) :: (
                                       (c2_0 (S (S (S (S (S (S O))))))) :: (
                                       (c2_0 (S (S (S (S (S (S (S O)))))))) :: (
                                       (c2_0 (S (S (S (S (S (S (S (S
                                         O))))))))) :: ((c3_0 O) :: (
                                       (c3_0 (S O)) :: ((c3_0 (S (S O))) :: (
                                       (c3_0 (S (S (S O)))) :: ((c3_0 (S (S
                                                                  (S (S O))))) :: (
                                       (c3_0 (S (S (S (S (S O)))))) :: (
                                       (c3_0 (S (S (S (S (S (S O))))))) :: (
                                       (c3_0 (S (S (S (S (S (S (S O)))))))) :: (
                                       (c3_0 (S (S (S (S (S (S (S (S
                                         O))))))))) :: [])))))))))))))))))))))))))))),
                                    (mk_arr f.nzero
                                      ((f.nmul x5 x7) :: ((f.nmul x8 x9) :: (
                                      (f.nmul x10 x11) :: [])))))
                                  | Err e -> Err e)
                               | Err e -> Err e)
                            | Err e -> Err e)
                      else if Z.eqb regime (Zpos (XI (XO XH)))
                           then Err ValueError
                           else if Z.eqb regime (Zpos (XO (XI XH)))
                                then (match k_get_rotation_and_strain f phase
                                              fabric
                                              (mk_arr f.nzero
                                                ((orientations O) :: (
                                                (orientations (S O)) :: (
                                                (orientations (S (S O))) :: (
                                                (orientations (S (S (S O)))) :: (
                                                (orientations (S (S (S (S
                                                  O))))) :: ((orientations (S
                                                               (S (S (S (S
                                                               O)))))) :: (
                                                (orientations (S (S (S (S (S
                                                  (S O))))))) :: ((orientations
                                                                    (S (S (S
                                                                    (S (S (S
                                                                    (S
                                                                    O)))))))) :: (
                                                (orientations (S (S (S (S (S
                                                  (S (S (S O))))))))) :: []))))))))))
                                              strain_rate velocity_gradient
                                              stress_exponent
                                              deformation_exponent
                                              nucleation_efficiency with
                                      | Ok a ->
                                        let (c12_0, c12_1) = a in
                                        (match k_get_rotation_and_strain f
                                                 phase fabric
                                                 (mk_arr f.nzero
                                                   ((orientations (S (S (S (S
                                                      (S (S (S (S (S
                                                      O)))))))))) :: (
                                                   (orientations (S (S (S (S
                                                     (S (S (S (S (S (S
                                                     O))))))))))) :: (
                                                   (orientations (S (S (S (S
                                                     (S (S (S (S (S (S (S
                                                     O)))))))))))) :: (
                                                   (orientations (S (S (S (S
                                                     (S (S (S (S (S (S (S (S
                                                     O))))))))))))) :: (
                                                   (orientations (S (S (S (S
                                                     (S (S (S (S (S (S (S (S
                                                     (S O)))))))))))))) :: (
                                                   (orientations (S (S (S (S
                                                     (S (S (S (S (S (S (S (S
                                                     (S (S O))))))))))))))) :: (
                                                   (orientations (S (S (S (S
                                                     (S (S (S (S (S (S (S (S
                                                     (S (S (S
                                                     O)))))))))))))))) :: (
                                                   (orientations (S (S (S (S
                                                     (S (S (S (S (S (S (S (S
                                                     (S (S (S (S
                                                     O))))))))))))))))) :: (
                                                   (orientations (S (S (S (S
                                                     (S (S (S (S (S (S (S (S
                                                     (S (S (S (S (S
                                                     O)))))))))))))))))) :: []))))))))))
                                                 strain_rate
                                                 velocity_gradient
                                                 stress_exponent
                                                 deformation_exponent
                                                 nucleation_efficiency with
                                         | Ok a0 ->
                                           let (c13_0, c13_1) = a0 in
                                           (match k_get_rotation_and_strain f
                                                    phase fabric
                                                    (mk_arr f.nzero
                                                      ((orientations (S (S (S
                                                         (S (S (S (S (S (S (S
                                                         (S (S (S (S (S (S (S
                                                         (S
                                                         O))))))))))))))))))) :: (
                                                      (orientations (S (S (S
                                                        (S (S (S (S (S (S (S
                                                        (S (S (S (S (S (S (S
                                                        (S (S
                                                        O)))))))))))))))))))) :: (
                                                      (orientations (S (S (S
                                                        (S (S (S (S (S (S (S
                                                        (S (S (S (S (S (S (S
                                                        (S (S (S
                                                        O))))))))))))))))))))) :: (
                                                      (orientations (S (S (S
                                                        (S (S (S (S (S (S (S
                                                        (S (S (S (S (S (S (S
                                                        (S (S (S (S
                                                        O)))))))))))))))))))))) :: (
                                                      (orientations (S (S (S
                                                        (S (S (S (S (S (S (S
                                                        (S (S (S (S (S (S (S
                                                        (S (S (S (S (S
                                                        O))))))))))))))))))))))) :: (
                                                      (orientations (S (S (S
                                                        (S (S (S (S (S (S (S
                                                        (S (S (S (S (S (S (S
                                                        (S (S (S (S (S (S
                                                        O)))))))))))))))))))))))) :: (
                                                      (orientations (S (S (S
                                                        (S (S (S (S (S (S (S
                                                        (S (S (S (S (S (S (S
                                                        (S (S (S (S (S (S (S
                                                        O))))))))))))))))))))))))) :: (
                                                      (orientations (S (S (S
                                                        (S (S (S (S (S (S (S
                                                        (S (S (S (S (S (S (S
                                                        (S (S (S (S (S (S (S
                                                        (S
                                                        O)))))))))))))))))))))))))) :: (
                                                      (orientations (S (S (S
                                                        (S (S (S (S (S (S (S
                                                        (S (S (S (S (S (S (S
                                                        (S (S (S (S (S (S (S
                                                        (S (S
                                                        O))))))))))))))))))))))))))) :: []))))))))))
                                                    strain_rate
                                                    velocity_gradient
                                                    stress_exponent
                                                    deformation_exponent
                                                    nucleation_efficiency with
                                            | Ok a1 ->
                                              let (c14_0, c14_1) = a1 in
                                              let x15 =
                                                f.nmul volume_fraction
                                                  gbm_mobility
                                              in
                                              let x16 =
                                                f.nmul x15 (fractions O)
                                              in
                                              let x17 =
                                                f.nadd
                                                  (f.nadd
                                                    (f.nmul (fractions O)
                                                      c12_1)
                                                    (f.nmul (fractions (S O))
                                                      c13_1))
                                                  (f.nmul
                                                    (fractions (S (S O)))
                                                    c14_1)
                                              in
                                              let x18 = f.nsub x17 c12_1 in
                                              let x19 =
                                                f.nmul x15 (fractions (S O))
                                              in
                                              let x20 = f.nsub x17 c13_1 in
                                              let x21 =
                                                f.nmul x15
                                                  (fractions (S (S O)))
                                              in
                                              let x22 = f.nsub x17 c14_1 in
                                              Ok
                                              ((mk_arr f.nzero
                                                 ((f.nmul
                                                    (f.ndiv
                                                      (f.nofZ (Zpos (XI (XI
                                                        (XO (XO (XI (XI (XO
                                                        (XO (XI (XI (XO (XO
                                                        (XI (XI (XO (XO (XI
                                                        (XI (XO (XO (XI (XI
                                                        (XO (XO (XI (XI (XO
                                                        (XO (XI (XI (XO (XO
                                                        (XI (XI (XO (XO (XI
                                                        (XI (XO (XO (XI (XI
                                                        (XO (XO (XI (XI (XO
                                                        (XO (XI (XI (XO (XO
                                                        XH))))))))))))))))))))))))))))))))))))))))))))))))))))))
                                                      (f.nofZ (Zpos (XO (XO
                                                        (XO (XO (XO (XO (XO
                                                        (XO (XO (XO (XO (XO
                                                        (XO (XO (XO (XO (XO
                                                        (XO (XO (XO (XO (XO
                                                        (XO (XO (XO (XO (XO
                                                        (XO (XO (XO (XO (XO
                                                        (XO (XO (XO (XO (XO
                                                        (XO (XO (XO (XO (XO
                                                        (XO (XO (XO (XO (XO
                                                        (XO (XO (XO (XO (XO
                                                        (XO (XO
                                                        XH)))))))))))))))))))))))))))))))))))))))))))))))))))))))))
                                                    (c12_0 O)) :: ((f.nmul
                                                                    (f.ndiv
                                                                    (f.nofZ
                                                                    (Zpos (XI
                                                                    (XI (XO
                                                                    (XO (XI
                                                                    (XI (XO
                                                                    (XO (XI
                                                                    (XI (XO
                                                                    (XO (XI
                                                                    (XI (XO
                                                                    (XO (XI
                                                                    (XI (XO
                                                                    (XO (XI
                                                                    (XI (XO
                                                                    (XO (XI
                                                                    (XI (XO
                                                                    (XO (XI
                                                                    (XI (XO
                                                                    (XO (XI
                                                                    (XI (XO
                                                                    (XO (XI
                                                                    (XI (XO
                                                                    (XO (XI
                                                                    (XI (XO
                                                                    (XO (XI
                                                                    (XI (XO
                                                                    (XO (XI
                                                                    (XI (XO
                                                                    (XO
                                                                    XH))))))))))))))))))))))))))))))))))))))))))))))))))))))
                                                                    (f.nofZ
                                                                    (Zpos (XO
                                                                    (XO (XO
                                                                    (XO (XO
                                                                    (XO (XO
                                                                    (XO (XO
                                                                    (XO (XO
                                                                    (XO (XO
                                                                    (XO (XO
                                                                    (XO (XO
                                                                    (XO (XO
                                                                    (XO (XO
                                                                    (XO (XO
                                                                    (XO (XO
                                                                    (XO (XO
                                                                    (XO (XO
                                                                    (XO (XO
                                                                    (XO (XO
                                                                    (XO (XO
                                                                    (XO (XO
                                                                    (XO (XO
                                                                    (XO (XO
                                                                    (XO (XO
                                                                    (XO (XO
                                                                    (XO (XO
                                                                    (XO (XO
                                                                    (XO (XO
                                                                    (XO (XO
                                                                    (XO
                                                                    XH)))))))))))))))))))))))))))))))))))))))))))))))))))))))))
                                                                    (c12_0 (S
                                                                    O))) :: (
                                                 (f.nmul
                                                   (f.ndiv
                                                     (f.nofZ (Zpos (XI (XI
                                                       (XO (XO (XI (XI (XO
                                                       (XO (XI (XI (XO (XO
                                                       (XI (XI (XO (XO (XI
                                                       (XI (XO (XO (XI (XI
                                                       (XO (XO (XI (XI (XO
                                                       (XO (XI (XI (XO (XO
                                                       (XI (XI (XO (XO (XI
                                                       (XI (XO (XO (XI (XI
                                                       (XO (XO (XI (XI (XO
                                                       (XO (XI (XI (XO (XO
                                                       XH))))))))))))))))))))))))))))))))))))))))))))))))))))))
                                                     (f.nofZ (Zpos (XO (XO
                                                       (XO (XO (XO (XO (XO
                                                       (XO (XO (XO (XO (XO
                                                       (XO (XO (XO (XO (XO
                                                       (XO (XO (XO (XO (XO
                                                       (XO (XO (XO (XO (XO
                                                       (XO (XO (XO (XO (XO
                                                       (XO (XO (XO (XO (XO
                                                       (XO (XO (XO (XO (XO
                                                       (XO (XO (XO (XO (XO
                                                       (XO (XO (XO (XO (XO
                                                       (XO (XO
                                                       XH)))))))))))))))))))))))))))))))))))))))))))))))))))))))))
                                                   (c12_0 (S (S O)))) :: (
                                                 (f.nmul
                                                   (f.ndiv
                                                     (f.nofZ (Zpos (XI (XI
                                                       (XO (XO (XI (XI (XO
                                                       (XO (XI (XI (XO (XO
                                                       (XI (XI (XO (XO (XI
                                                       (XI (XO (XO (XI (XI
                                                       (XO (XO (XI (XI (XO
                                                       (XO (XI (XI (XO (XO
                                                       (XI (XI (XO (XO (XI
                                                       (XI (XO (XO (XI (XI
                                                       (XO (XO (XI (XI (XO
                                                       (XO (XI (XI (XO (XO
                                                       XH))))))))))))))))))))))))))))))))))))))))))))))))))))))
                                                     (f.nofZ (Zpos (XO (XO
                                                       (XO (XO (XO (XO (XO
                                                       (XO (XO (XO (XO (XO
                                                       (XO (XO (XO (XO (XO
                                                       (XO (XO (XO (XO (XO
                                                       (XO (XO (XO (XO (XO
                                                       (XO (XO (XO (XO (XO
                                                       (XO (XO (XO (XO (XO
                                                       (XO (XO (XO (XO (XO
                                                       (XO (XO (XO (XO (XO
                                                       (XO (XO (XO (XO (XO
                                                       (XO (XO
                                                       XH)))))))))))))))))))))))))))))))))))))))))))))))))))))))))
                                                   (c12_0 (S (S (S O))))) :: (
                                                 (f.nmul
                                                   (f.ndiv
                                                     (f.nofZ (Zpos (XI (XI
                                                       (XO (XO (XI (XI (XO
                                                       (XO (XI (XI (XO (XO
                                                       (XI (XI (XO (XO (XI
                                                       (XI (XO (XO (XI (XI
                                                       (XO (XO (XI (XI (XO
                                                       (XO (XI (XI (XO (XO
                                                       (XI (XI (XO (XO (XI
                                                       (XI (XO (XO (XI (XI
                                                       (XO (XO (XI (XI (XO
                                                       (XO (XI (XI (XO (XO
                                                       XH))))))))))))))))))))))))))))))))))))))))))))))))))))))
                                                     (f.nofZ (Zpos (XO (XO
                                                       (XO (XO (XO (XO (XO
                                                       (XO (XO (XO (XO (XO
                                                       (XO (XO (XO (XO (XO
                                                       (XO (XO (XO (XO (XO
                                                       (XO (XO (XO (XO (XO
                                                       (XO (XO (XO (XO (XO
                                                       (XO (XO (XO (XO (XO
                                                       (XO (XO (XO (XO (XO
                                                       (XO (XO (XO (XO (XO
                                                       (XO (XO (XO (XO (XO
                                                       (XO (XO
                                                       XH)))))))))))))))))))))))))))))))))))))))))))))))))))))))))
                                                   (c12_0 (S (S (S (S O)))))) :: (
                                                 (f.nmul
                                                   (f.ndiv
                                                     (f.nofZ (Zpos (XI (XI
                                                       (XO (XO (XI (XI (XO
                                                       (XO (XI (XI (XO (XO
                                                       (XI (XI (XO (XO (XI
                                                       (XI (XO (XO (XI (XI
                                                       (XO (XO (XI (XI (XO
                                                       (XO (XI (XI (XO (XO
                                                       (XI (XI (XO (XO (XI
                                                       (XI (XO (XO (XI (XI
                                                       (XO (XO (XI (XI (XO
                                                       (XO (XI (XI (XO (XO
                                                       XH))))))))))))))))))))))))))))))))))))))))))))))))))))))
                                                     (f.nofZ (Zpos (XO (XO
                                                       (XO (XO (XO (XO (XO
                                                       (XO (XO (XO (XO (XO
                                                       (XO (XO (XO (XO (XO
                                                       (XO (XO (XO (XO (XO
                                                       (XO (XO (XO (XO (XO
                                                       (XO (XO (XO (XO (XO
                                                       (XO (XO (XO (XO (XO
                                                       (XO (XO (XO (XO (XO
                                                       (XO (XO (XO (XO (XO
                                                       (XO (XO (XO (XO (XO
                                                       (XO (XO
                                                       XH)))))))))))))))))))))))))))))))))))))))))))))))))))))))))
                                                   (c12_0 (S (S (S (S (S
                                                     O))))))) :: ((f.nmul
                                                                    (f.ndiv
                                                                    (f.nofZ
                                                                    (Zpos (XI
                                                                    (XI (XO
                                                                    (XO (XI
                                                                    (XI (XO
                                                                    (XO (XI
                                                                    (XI (XO
                                                                    (XO (XI
                                                                    (XI (XO
                                                                    (XO (XI
                                                                    (XI (XO
                                                                    (XO (XI
                                                                    (XI (XO
                                                                    (XO (XI
                                                                    (XI (XO
                                                                    (XO (XI
                                                                    (XI (XO
                                                                    (XO (XI
                                                                    (XI (XO
                                                                    (XO (XI
                                                                    (XI (XO
                                                                    (XO (XI
                                                                    (XI (XO
                                                                    (XO (XI
                                                                    (XI (XO
                                                                    (XO (XI
                                                                    (XI (XO
                                                                    (XO
                                                                    XH))))))))))))))))))))))))))))))))))))))))))))))))))))))
                                                                    (f.nofZ
                                                                    (Zpos (XO
                                                                    (XO (XO
                                                                    (XO (XO
                                                                    (XO (XO
                                                                    (XO (XO
                                                                    (XO (XO
                                                                    (XO (XO
                                                                    (XO (XO
                                                                    (XO (XO
                                                                    (XO (XO
                                                                    (XO (XO
                                                                    (XO (XO
                                                                    (XO (XO
                                                                    (XO (XO
                                                                    (XO (XO
                                                                    (XO (XO
                                                                    (XO (XO
                                                                    (XO (XO
                                                                    (XO (XO
                                                                    (XO (XO
                                                                    (XO (XO
                                                                    (XO (XO
                                                                    (XO (XO
                                                                    (XO (XO
                                                                    (XO (XO
                                                                    (XO (XO
                                                                    (XO (XO
                                                                    (XO
                                                                    XH)))))))))))))))))))))))))))))))))))))))))))))))))))))))))
                                                                    (c12_0 (S
                                                                    (S (S (S
                                                                    (S (S
                                                                    O)))))))) :: (
                                                 (f.nmul
                                                   (f.ndiv
                                                     (f.nofZ (Zpos (XI (XI
                                                       (XO (XO (XI (XI (XO
                                                       (XO (XI (XI (XO (XO
                                                       (XI (XI (XO (XO (XI
                                                       (XI (XO (XO (XI (XI
                                                       (XO (XO (XI (XI (XO
                                                       (XO (XI (XI (XO (XO
                                                       (XI (XI (XO (XO (XI
                                                       (XI (XO (XO (XI (XI
                                                       (XO (XO (XI (XI (XO
                                                       (XO (XI (XI (XO (XO
                                                       XH))))))))))))))))))))))))))))))))))))))))))))))))))))))
                                                     (f.nofZ (Zpos (XO (XO
                                                       (XO (XO (XO (XO (XO
                                                       (XO (XO (XO (XO (XO
                                                       (XO (XO (XO (XO (XO
                                                       (XO (XO (XO (XO (XO
                                                       (XO (XO (XO (XO (XO
                                                       (XO (XO (XO (XO (XO
                                                       (XO (XO (XO (XO (XO
                                                       (XO (XO (XO (XO (XO
                                                       (XO (XO (XO (XO (XO
                                                       (XO (XO (XO (XO (XO
                                                       (XO (XO
                                                       XH)))))))))))))))))))))))))))))))))))))))))))))))))))))))))
                                                   (c12_0 (S (S (S (S (S (S
                                                     (S O))))))))) :: (
                                                 (f.nmul
                                                   (f.ndiv
                                                     (f.nofZ (Zpos (XI (XI
                                                       (XO (XO (XI (XI (XO
                                                       (XO (XI (XI (XO (XO
                                                       (XI (XI (XO (XO (XI
                                                       (XI (XO (XO (XI (XI
                                                       (XO (XO (XI (XI (XO
                                                       (XO (XI (XI (XO (XO
                                                       (XI (XI (XO (XO (XI
                                                       (XI (XO (XO (XI (XI
                                                       (XO (XO (XI (XI (XO
                                                       (XO (XI (XI (XO (XO
                                                       XH))))))))))))))))))))))))))))))))))))))))))))))))))))))
                                                     (f.nofZ (Zpos (XO (XO
                                                       (XO (XO (XO (XO (XO
                                                       (XO (XO (XO (XO (XO
                                                       (XO (XO (XO (XO (XO
                                                       (XO (XO (XO (XO (XO
                                                       (XO (XO (XO (XO (XO
                                                       (XO (XO (XO (XO (XO
                                                       (XO (XO (XO (XO (XO
                                                       (XO (XO (XO (XO (XO
                                                       (XO (XO (XO (XO (XO
                                                       (XO (XO (XO (XO (XO
                                                       (XO (XO
                                                       XH)))))))))))))))))))))))))))))))))))))))))))))))))))))))))
                                                   (c12_0 (S (S (S (S (S (S
                                                     (S (S O)))))))))) :: (
                                                 (f.nmul
                                                   (f.ndiv
                                                     (f.nofZ (Zpos (XI (XI
                                                       (XO (XO (XI (XI (XO
                                                       (XO (XI (XI (XO (XO
                                                       (XI (XI (XO (XO (XI
                                                       (XI (XO (XO (XI (XI
                                                       (XO (XO (XI (XI (XO
                                                       (XO (XI (XI (XO (XO
                                                       (XI (XI (XO (XO (XI
                                                       (XI (XO (XO (XI (XI
                                                       (XO (XO (XI (XI (XO
                                                       (XO (XI (XI (XO (XO
                                                       XH))))))))))))))))))))))))))))))))))))))))))))))))))))))
                                                     (f.nofZ (Zpos (XO (XO
                                                       (XO (XO (XO (XO (XO
                                                       (XO (XO (XO (XO (XO
                                                       (XO (XO (XO (XO (XO
                                                       (XO (XO (XO (XO (XO
                                                       (XO (XO (XO (XO (XO
                                                       (XO (XO (XO (XO (XO
                                                       (XO (XO (XO (XO (XO
                                                       (XO (XO (XO (XO (XO
                                                       (XO (XO (XO (XO (XO
                                                       (XO (XO (XO (XO (XO
                                                       (XO (XO
                                                       XH)))))))))))))))))))))))))))))))))))))))))))))))))))))))))
                                                   (c13_0 O)) :: ((f.nmul
                                                                    (f.ndiv
                                                                    (f.nofZ
                                                                    (Zpos (XI
                                                                    (XI (XO
                                                                    (XO (XI
                                                                    (XI (XO
                                                                    (XO (XI
                                                                    (XI (XO
                                                                    (XO (XI
                                                                    (XI (XO
                                                                    (XO (XI
                                                                    (XI (XO
                                                                    (XO (XI
                                                                    (XI (XO
                                                                    (XO (XI
                                                                    (XI (XO
                                                                    (XO (XI
                                                                    (XI (XO
                                                                    (XO (XI
                                                                    (XI (XO
                                                                    (XO (XI
                                                                    (XI (XO
                                                                    (XO (XI
                                                                    (XI (XO
                                                                    (XO (XI
                                                                    (XI (XO
                                                                    (XO (XI
                                                                    (XI (XO
                                                                    (XO
                                                                    XH))))))))))))))))))))))))))))))))))))))))))))))))))))))
                                                                    (f.nofZ
                                                                    (Zpos (XO
                                                                    (XO (XO
                                                                    (XO (XO
                                                                    (XO (XO
                                                                    (XO (XO
                                                                    (XO (XO
                                                                    (XO (XO
                                                                    (XO (XO
                                                                    (XO (XO
                                                                    (XO (XO
                                                                    (XO (XO
                                                                    (XO (XO
                                                                    (XO (XO
                                                                    (XO (XO
                                                                    (XO (XO
                                                                    (XO (XO
                                                                    (XO (XO
                                                                    (XO (XO
                                                                    (XO (XO
                                                                    (XO (XO
                                                                    (XO (XO
                                                                    (XO (XO
                                                                    (XO (XO
                                                                    (XO (XO
                                                                    (XO (XO
                                                                    (XO (XO
                                                                    (XO (XO
                                                                    (XO
                                                                    XH)))))))))))))))))))))))))))))))))))))))))))))))))))))))))
                                                                    (c13_0 (S
                                                                    O))) :: (
                                                 (f.nmul
                                                   (f.ndiv
                                                     (f.nofZ (Zpos (XI (XI
                                                       (XO (XO (XI (XI (XO
                                                       (XO (XI (XI (XO (XO
                                                       (XI (XI (XO (XO (XI
                                                       (XI (XO (XO (XI (XI
                                                       (XO (XO (XI (XI (XO
                                                       (XO (XI (XI (XO (XO
                                                       (XI (XI (XO (XO (XI
                                                       (XI (XO (XO (XI (XI
                                                       (XO (XO (XI (XI (XO
                                                       (XO (XI (XI (XO (XO
                                                       XH))))))))))))))))))))))))))))))))))))))))))))))))))))))
                                                     (f.nofZ (Zpos (XO (XO
                                                       (XO (XO (XO (XO (XO
                                                       (XO (XO (XO (XO (XO
                                                       (XO (XO (XO (XO (XO
                                                       (XO (XO (XO (XO (XO
                                                       (XO (XO (XO (XO (XO
                                                       (XO (XO (XO (XO (XO
                                                       (XO (XO (XO (XO (XO
                                                       (XO (XO (XO (XO (XO
                                                       (XO (XO (XO (XO (XO
                                                       (XO (XO (XO (XO (XO
                                                       (XO (XO
                                                       XH)))))))))))))))))))))))))))))))))))))))))))))))))))))))))
                                                   (c13_0 (S (S O)))) :: (
                                                 (f.nmul
                                                   (f.ndiv
                                                     (f.nofZ (Zpos (XI (XI
                                                       (XO (XO (XI (XI (XO
                                                       (XO (XI (XI (XO (XO
                                                       (XI (XI (XO (XO (XI
                                                       (XI (XO (XO (XI (XI
                                                       (XO (XO (XI (XI (XO
                                                       (XO (XI (XI (XO (XO
                                                       (XI (XI (XO (XO (XI
                                                       (XI (XO (XO (XI (XI
                                                       (XO (XO (XI (XI (XO
                                                       (XO (XI (XI (XO (XO
                                                       XH))))))))))))))))))))))))))))))))))))))))))))))))))))))
                                                     (f.nofZ (Zpos (XO (XO
                                                       (XO (XO (XO (XO (XO
                                                       (XO (XO (XO (XO (XO
                                                       (XO (XO (XO (XO (XO
                                                       (XO (XO (XO (XO (XO
                                                       (XO (XO (XO (XO (XO
                                                       (XO (XO (XO (XO (XO
                                                       (XO (XO (XO (XO (XO
                                                       (XO (XO (XO (XO (XO
                                                       (XO (XO (XO (XO (XO
                                                       (XO (XO (XO (XO (XO
                                                       (XO (XO
                                                       XH)))))))))))))))))))))))))))))))))))))))))))))))))))))))))
                                                   (c13_0 (S (S (S O))))) :: (
                                                 (f.nmul
                                                   (f.ndiv
                                                     (f.nofZ (Zpos (XI (XI
                                                       (XO (XO (XI (XI (XO
                                                       (XO (XI (XI (XO (XO
                                                       (XI (XI (XO (XO (XI
                                                       (XI (XO (XO (XI (XI
                                                       (XO (XO (XI (XI (XO
                                                       (XO (XI (XI (XO (XO
                                                       (XI (XI (XO (XO (XI
                                                       (XI (XO (XO (XI (XI
                                                       (XO (XO (XI (XI (XO
                                                       (XO (XI (XI (XO (XO
                                                       XH))))))))))))))))))))))))))))))))))))))))))))))))))))))
                                                     (f.nofZ (Zpos (XO (XO
                                                       (XO (XO (XO (XO (XO
                                                       (XO (XO (XO (XO (XO
                                                       (XO (XO (XO (XO (XO
                                                       (XO (XO (XO (XO (XO
                                                       (XO (XO (XO (XO (XO
                                                       (XO (XO (XO (XO (XO
                                                       (XO (XO (XO (XO (XO
                                                       (XO (XO (XO (XO (XO
                                                       (XO (XO (XO (XO (XO
                                                       (XO (XO (XO (XO (XO
                                                       (XO (XO
                                                       XH)))))))))))))))))))))))))))))))))))))))))))))))))))))))))
                                                   (c13_0 (S (S (S (S O)))))) :: (
                                                 (f.nmul
                                                   (f.ndiv
                                                     (f.nofZ (Zpos (XI (XI
                                                       (XO (XO (XI (XI (XO
                                                       (XO (XI (XI (XO (XO
                                                       (XI (XI (XO (XO (XI
                                                       (XI (XO (XO (XI (XI
                                                       (XO (XO (XI (XI (XO
                                                       (XO (XI (XI (XO (XO
                                                       (XI (XI (XO (XO (XI
                                                       (XI (XO (XO (XI (XI
                                                       (XO (XO (XI (XI (XO
                                                       (XO (XI (XI (XO (XO
                                                       XH))))))))))))))))))))))))))))))))))))))))))))))))))))))
                                                     (f.nofZ (Zpos (XO (XO
                                                       (XO (XO (XO (XO (XO
                                                       (XO (XO (XO (XO (XO
                                                       (XO (XO (XO (XO (XO
                                                       (XO (XO (XO (XO (XO
                                                       (XO (XO (XO (XO (XO
                                                       (XO (XO (XO (XO (XO
                                                       (XO (XO (XO (XO (XO
                                                       (XO (XO (XO (XO (XO
                                                       (XO (XO (XO (XO (XO
                                                       (XO (XO (XO (XO (XO
                                                       (XO (XO
                                                       XH)))))))))))))))))))))))))))))))))))))))))))))))))))))))))
                                                   (c13_0 (S (S (S (S (S
                                                     O))))))) :: ((f.nmul
                                                                    (f.ndiv
                                                                    (f.nofZ
                                                                    (Zpos (XI
                                                                    (XI (XO
                                                                    (XO (XI
                                                                    (XI (XO
                                                                    (XO (XI
                                                                    (XI (XO
                                                                    (XO (XI
                                                                    (XI (XO
                                                                    (XO (XI
                                                                    (XI (XO
                                                                    (XO (XI
                                                                    (XI (XO
                                                                    (XO (XI
                                                                    (XI (XO
                                                                    (XO (XI
                                                                    (XI (XO
                                                                    (XO (XI
                                                                    (XI (XO
                                                                    (XO (XI
                                                                    (XI (XO
                                                                    (XO (XI
                                                                    (XI (XO
                                                                    (XO (XI
                                                                    (XI (XO
                                                                    (XO (XI
                                                                    (XI (XO
                                                                    (XO
                                                                    XH))))))))))))))))))))))))))))))))))))))))))))))))))))))
                                                                    (f.nofZ
                                                                    (Zpos (XO
                                                                    (XO (XO
                                                                    (XO (XO
                                                                    (XO (XO
                                                                    (XO (XO
                                                                    (XO (XO
                                                                    (XO (XO
                                                                    (XO (XO
                                                                    (XO (XO
                                                                    (XO (XO
                                                                    (XO (XO
                                                                    (XO (XO
                                                                    (XO (XO
                                                                    (XO (XO
                                                                    (XO (XO
                                                                    (XO (XO
                                                                    (XO (XO
                                                                    (XO (XO
                                                                    (XO (XO
                                                                    (XO (XO
                                                                    (XO (XO
                                                                    (XO (XO
                                                                    (XO (XO
                                                                    (XO (XO
                                                                    (XO (XO
                                                                    (XO (XO
                                                                    (XO (XO
                                                                    (XO
                                                                    XH)))))))))))))))))))))))))))))))))))))))))))))))))))))))))
                                                                    (c13_0 (S
                                                                    (S (S (S
                                                                    (S (S
                                                                    O)))))))) :: (
                                                 (f.nmul
                                                   (f.ndiv
                                                     (f.nofZ (Zpos (XI (XI
                                                       (XO (XO (XI (XI (XO
                                                       (XO (XI (XI (XO (XO
                                                       (XI (XI (XO (XO (XI
                                                       (XI (XO (XO (XI (XI
                                                       (XO (XO (XI (XI (XO
                                                       (XO (XI (XI (XO (XO
                                                       (XI (XI (XO (XO (XI
                                                       (XI (XO (XO (XI (XI
                                                       (XO (XO (XI (XI (XO
                                                       (XO (XI (XI (XO (XO
                                                       XH))))))))))))))))))))))))))))))))))))))))))))))))))))))
                                                     (f.nofZ (Zpos (XO (XO
                                                       (XO (XO (XO (XO (XO
                                                       (XO (XO (XO (XO (XO
                                                       (XO (XO (XO (XO (XO
                                                       (XO (XO (XO (XO (XO
                                                       (XO (XO (XO (XO (XO
                                                       (XO (XO (XO (XO (XO
                                                       (XO (XO (XO (XO (XO
                                                       (XO (XO (XO (XO (XO
                                                       (XO (XO (XO (XO (XO
                                                       (XO (XO (XO (XO (XO
                                                       (XO (XO
                                                       XH)))))))))))))))))))))))))))))))))))))))))))))))))))))))))
                                                   (c13_0 (S (S (S (S (S (S
                                                     (S O))))))))) :: (
                                                 (f.nmul
                                                   (f.ndiv
                                                     (f.nofZ (Zpos (XI (XI
                                                       (XO (XO (XI (XI (XO
                                                       (XO (XI (XI (XO (XO
                                                       (XI (XI (XO (XO (XI
                                                       (XI (XO (XO (XI (XI
                                                       (XO (XO (XI (XI (XO
                                                       (XO (XI (XI (XO (XO
                                                       (XI (XI (XO (XO (XI
                                                       (XI (XO (XO (XI (XI
                                                       (XO (XO (XI (XI (XO
                                                       (XO (XI (XI (XO (XO
                                                       XH))))))))))))))))))))))))))))))))))))))))))))))))))))))
                                                     (f.nofZ (Zpos (XO (XO
                                                       (XO (XO (XO (XO (XO
                                                       (XO (XO (XO (XO (XO
                                                       (XO (XO (XO (XO (XO
                                                       (XO (XO (XO (XO (XO
                                                       (XO (XO (XO (XO (XO
                                                       (XO (XO (XO (XO (XO
                                                       (XO (XO (XO (XO (XO
                                                       (XO (XO (XO (XO (XO
                                                       (XO (XO (XO (XO (XO
                                                       (XO (XO (XO (XO (XO
                                                       (XO (XO
                                                       XH)))))))))))))))))))))))))))))))))))))))))))))))))))))))))
                                                   (c13_0 (S (S (S (S (S (S
                                                     (S (S O)))))))))) :: (
                                                 (f.nmul
                                                   (f.ndiv
                                                     (f.nofZ (Zpos (XI (XI
                                                       (XO (XO (XI (XI (XO
                                                       (XO (XI (XI (XO (XO
                                                       (XI (XI (XO (XO (XI
                                                       (XI (XO (XO (XI (XI
                                                       (XO (XO (XI (XI (XO
                                                       (XO (XI (XI (XO (XO
                                                       (XI (XI (XO (XO (XI
                                                       (XI (XO (XO (XI (XI
                                                       (XO (XO (XI (XI (XO
                                                       (XO (XI (XI (XO (XO
                                                       XH))))))))))))))))))))))))))))))))))))))))))))))))))))))
                                                     (f.nofZ (Zpos (XO (XO
                                                       (XO (XO (XO (XO (XO
                                                       (XO (XO (XO (XO (XO
                                                       (XO (XO (XO (XO (XO
                                                       (XO (XO (XO (XO (XO
                                                       (XO (XO (XO (XO (XO
                                                       (XO (XO (XO (XO (XO
                                                       (XO (XO (XO (XO (XO
                                                       (XO (XO (XO (XO (XO
                                                       (XO (XO (XO (XO (XO
                                                       (XO (XO (XO (XO (XO
                                                       (XO (XO
                                                       XH)))))))))))))))))))))))))))))))))))))))))))))))))))))))))
                                                   (c14_0 O)) :: ((f.nmul
                                                                    (f.ndiv
                                                                    (f.nofZ
                                                                    (Zpos (XI
                                                                    (XI (XO
                                                                    (XO (XI
                                                                    (XI (XO
                                                                    (XO (XI
                                                                    (XI (XO
                                                                    (XO (XI
                                                                    (XI (XO
                                                                    (XO (XI
                                                                    (XI (XO
                                                                    (XO (XI
                                                                    (XI (XO
                                                                    (XO (XI
                                                                    (XI (XO
                                                                    (XO (XI
                                                                    (XI (XO
                                                                    (XO (XI
                                                                    (XI (XO
                                                                    (XO (XI
                                                                    (XI (XO
                                                                    (XO (XI
                                                                    (XI (XO
                                                                    (XO (XI
                                                                    (XI (XO
                                                                    (XO (XI
                                                                    (XI (XO
                                                                    (XO
                                                                    XH))))))))))))))))))))))))))))))))))))))))))))))))))))))
                                                                    (f.nofZ
                                                                    (Zpos (XO
                                                                    (XO (XO
                                                                    (XO (XO
                                                                    (XO (XO
                                                                    (XO (XO
                                                                    (XO (XO
                                                                    (XO (XO
                                                                    (XO (XO
                                                                    (XO (XO
                                                                    (XO (XO
                                                                    (XO (XO
                                                                    (XO (XO
                                                                    (XO (XO
                                                                    (XO (XO
                                                                    (XO (XO
                                                                    (XO (XO
                                                                    (XO (XO
                                                                    (XO (XO
                                                                    (XO (XO
                                                                    (XO (XO
                                                                    (XO (XO
                                                                    (XO (XO
                                                                    (XO (XO
                                                                    (XO (XO
                                                                    (XO (XO
                                                                    (XO (XO
                                                                    (XO (XO
                                                                    (XO
                                                                    XH)))))))))))))))))))))))))))))))))))))))))))))))))))))))))
                                                                    (c14_0 (S
                                                                    O))) :: (
                                                 (f.nmul
                                                   (f.ndiv
                                                     (f.nofZ (Zpos (XI (XI
                                                       (XO (XO (XI (XI (XO
                                                       (XO (XI (XI (XO (XO
                                                       (XI (XI (XO (XO (XI
                                                       (XI (XO (XO (XI (XI
                                                       (XO (XO (XI (XI (XO
                                                       (XO (XI (XI (XO (XO
                                                       (XI (XI (XO (XO (XI
                                                       (XI (XO (XO (XI (XI
                                                       (XO (XO (XI (XI (XO
                                                       (XO (XI (XI (XO (XO
                                                       XH))))))))))))))))))))))))))))))))))))))))))))))))))))))
                                                     (f.nofZ (Zpos (XO (XO
                                                       (XO (XO (XO (XO (XO
                                                       (XO (XO (XO (XO (XO
                                                       (XO (XO (XO (XO (XO
                                                       (XO (XO (XO (XO (XO
                                                       (XO (XO (XO (XO (XO
                                                       (XO (XO (XO (XO (XO
                                                       (XO (XO (XO (XO (XO
                                                       (XO (XO (XO (XO (XO
                                                       (XO (XO (XO (XO (XO
                                                       (XO (XO (XO (XO (XO
                                                       (XO (XO
                                                       XH)))))))))))))))))))))))))))))))))))))))))))))))))))))))))
                                                   (c14_0 (S (S O)))) :: (
                                                 (f.nmul
                                                   (f.ndiv
                                                     (f.nofZ (Zpos (XI (XI
                                                       (XO (XO (XI (XI (XO
                                                       (XO (XI (XI (XO (XO
                                                       (XI (XI (XO (XO (XI
                                                       (XI (XO (XO (XI (XI
                                                       (XO (XO (XI (XI (XO
                                                       (XO (XI (XI (XO (XO
                                                       (XI (XI (XO (XO (XI
                                                       (XI (XO (XO (XI (XI
                                                       (XO (XO (XI (XI (XO
                                                       (XO (XI (XI (XO (XO
                                                       XH))))))))))))))))))))))))))))))))))))))))))))))))))))))
                                                     (f.nofZ (Zpos (XO (XO
                                                       (XO (XO (XO (XO (XO
                                                       (XO (XO (XO (XO (XO
                                                       (XO (XO (XO (XO (XO
                                                       (XO (XO (XO (XO (XO
                                                       (XO (XO (XO (XO (XO
                                                       (XO (XO (XO (XO (XO
                                                       (XO (XO (XO (XO (XO
                                                       (XO (XO (XO (XO (XO
                                                       (XO (XO (XO (XO (XO
                                                       (XO (XO (XO (XO (XO
                                                       (XO (XO
                                                       XH)))))))))))))))))))))))))))))))))))))))))))))))))))))))))
                                                   (c14_0 (S (S (S O))))) :: (
                                                 (f.nmul
                                                   (f.ndiv
                                                     (f.nofZ (Zpos (XI (XI
                                                       (XO (XO (XI (XI (XO
                                                       (XO (XI (XI (XO (XO
                                                       (XI (XI (XO (XO (XI
                                                       (XI (XO (XO (XI (XI
                                                       (XO (XO (XI (XI (XO
                                                       (XO (XI (XI (XO (XO
                                                       (XI (XI (XO (XO (XI
                                                       (XI (XO (XO (XI (XI
                                                       (XO (XO (XI (XI (XO
                                                       (XO (XI (XI (XO (XO
                                                       XH))))))))))))))))))))))))))))))))))))))))))))))))))))))
                                                     (f.nofZ (Zpos (XO (XO
                                                       (XO (XO (XO (XO (XO
                                                       (XO (XO (XO (XO (XO
                                                       (XO (XO (XO (XO (XO
                                                       (XO (XO (XO (XO (XO
                                                       (XO (XO (XO (XO (XO
                                                       (XO (XO (XO (XO (XO
                                                       (XO (XO (XO (XO (XO
                                                       (XO (XO (XO (XO (XO
                                                       (XO (XO (XO (XO (XO
                                                       (XO (XO (XO (XO (XO
                                                       (XO (XO
                                                       XH)))))))))))))))))))))))))))))))))))))))))))))))))))))))))
                                                   (c14_0 (S (S (S (S O)))))) :: (
                                                 (f.nmul
                                                   (f.ndiv
                                                     (f.nofZ (Zpos (XI (XI
                                                       (XO (XO (XI (XI (XO
                                                       (XO (XI (XI (XO (XO
                                                       (XI (XI (XO (XO (XI
                                                       (XI (XO (XO (XI (XI
                                                       (XO (XO (XI (XI (XO
                                                       (XO (XI (XI (XO (XO
                                                       (XI (XI (XO (XO (XI
                                                       (XI (XO (XO (XI (XI
                                                       (XO (XO (XI (XI (XO
                                                       (XO (XI (XI (XO (XO
                                                       XH))))))))))))))))))))))))))))))))))))))))))))))))))))))
                                                     (f.nofZ (Zpos (XO (XO
                                                       (XO (XO (XO (XO (XO
                                                       (XO (XO (XO (XO (XO
                                                       (XO (XO (XO (XO (XO
                                                       (XO (XO (XO (XO (XO
                                                       (XO (XO (XO (XO (XO
                                                       (XO (XO (XO (XO (XO
                                                       (XO (XO (XO (XO (XO
                                                       (XO (XO (XO (XO (XO
                                                       (XO (XO (XO (XO (XO
                                                       (XO (XO (XO (XO (XO
                                                       (XO (XO
                                                       XH)))))))))))))))))))))))))))))))))))))))))))))))))))))))))
                                                   (c14_0 (S (S (S (S (S
                                                     O))))))) :: ((f.nmul
                                                                    (f.ndiv
                                                                    (f.nofZ
                                                                    (Zpos (XI
                                                                    (XI (XO
                                                                    (XO (XI
                                                                    (XI (XO
                                                                    (XO (XI
                                                                    (XI (XO
                                                                    (XO (XI
                                                                    (XI (XO
                                                                    (XO (XI
                                                                    (XI (XO
                                                                    (XO (XI
                                                                    (XI (XO
                                                                    (XO (XI
                                                                    (XI (XO
                                                                    (XO (XI
                                                                    (XI (XO
                                                                    (XO (XI
                                                                    (XI (XO
                                                                    (XO (XI
                                                                    (XI (XO
                                                                    (XO (XI
                                                                    (XI (XO
                                                                    (XO (XI
                                                                    (XI (XO
                                                                    (XO (XI
                                                                    (XI (XO
                                                                    (XO
                                                                    XH))))))))))))))))))))))))))))))))))))))))))))))))))))))
                                                                    (f.nofZ
                                                                    (Zpos (XO
                                                                    (XO (XO
                                                                    (XO (XO
                                                                    (XO (XO
                                                                    (XO (XO
                                                                    (XO (XO
                                                                    (XO (XO
                                                                    (XO (XO
                                                                    (XO (XO
                                                                    (XO (XO
                                                                    (XO (XO
                                                                    (XO (XO
                                                                    (XO (XO
                                                                    (XO (XO
                                                                    (XO (XO
                                                                    (XO (XO
                                                                    (XO (XO
                                                                    (XO (XO
                                                                    (XO (XO
                                                                    (XO (XO
                                                                    (XO (XO
                                                                    (XO (XO
                                                                    (XO (XO
                                                                    (XO (XO
                                                                    (XO (XO
                                                                    (XO (XO
                                                                    (XO (XO
                                                                    (XO
                                                                    XH)))))))))))))))))))))))))))))))))))))))))))))))))))))))))
                                                                    (c14_0 (S
                                                                    (S (S (S
                                                                    (S (S
                                                                    O)))))))) :: (
                                                 (f.nmul
                                                   (f.ndiv
                                                     (f.nofZ (Zpos (XI (XI
                                                       (XO (XO (XI (XI (XO
                                                       (XO (XI (XI (XO (XO
                                                       (XI (XI (XO (XO (XI
                                                       (XI (XO (XO (XI (XI
                                                       (XO (XO (XI (XI (XO
                                                       (XO (XI (XI (XO (XO
                                                       (XI (XI (XO (XO (XI
                                                       (XI (XO (XO (XI (XI
                                                       (XO (XO (XI (XI (XO
                                                       (XO (XI (XI (XO (XO
                                                       XH))))))))))))))))))))))))))))))))))))))))))))))))))))))
                                                     (f.nofZ (Zpos (XO (XO
                                                       (XO (XO (XO (XO (XO
                                                       (XO (XO (XO (XO (XO
                                                       (XO (XO (XO (XO (XO
                                                       (XO (XO (XO (XO (XO
                                                       (XO (XO (XO (XO (XO
                                                       (XO (XO (XO (XO (XO
                                                       (XO (XO (XO (XO (XO
                                                       (XO (XO (XO (XO (XO
                                                       (XO (XO (XO (XO (XO
                                                       (XO (XO (XO (XO (XO
                                                       (XO (XO
                                                       XH)))))))))))))))))))))))))))))))))))))))))))))))))))))))))
                                                   (c14_0 (S (S (S (S (S (S
                                                     (S O))))))))) :: (
                                                 (f.nmul
                                                   (f.ndiv
                                                     (f.nofZ (Zpos (XI (XI
                                                       (XO (XO (XI (XI (XO
                                                       (XO (XI (XI (XO (XO
                                                       (XI (XI (XO (XO (XI
                                                       (XI (XO (XO (XI (XI
                                                       (XO (XO (XI (XI (XO
                                                       (XO (XI (XI (XO (XO
                                                       (XI (XI (XO (XO (XI
                                                       (XI (XO (XO (XI (XI
                                                       (XO (XO (XI (XI (XO
                                                       (XO (XI (XI (XO (XO
                                                       XH))))))))))))))))))))))))))))))))))))))))))))))))))))))
                                                     (f.nofZ (Zpos (XO (XO
                                                       (XO (XO (XO (XO (XO
                                                       (XO (XO (XO (XO (XO
                                                       (XO (XO (XO (XO (XO
                                                       (XO (XO (XO (XO (XO
                                                       (XO (XO (XO (XO (XO
                                                       (XO (XO (XO (XO (XO
                                                       (XO (XO (XO (XO (XO
                                                       (XO (XO (XO (XO (XO
                                                       (XO (XO (XO (XO (XO
                                                       (XO (XO (XO (XO (XO
                                                       (XO (XO
                                                       XH)))))))))))))))))))))))))))))))))))))))))))))))))))))))))
                                                   (c14_0 (S (S (S (S (S (S
                                                     (S (S O)))))))))) :: [])))))))))))))))))))))))))))),
                                              (mk_arr f.nzero
                                                ((f.nmul x16
                                                   (f.nmul
                                                     (f.ndiv
                                                       (f.nofZ (Zpos (XI (XI
                                                         (XO (XO (XI (XI (XO
                                                         (XO (XI (XI (XO (XO
                                                         (XI (XI (XO (XO (XI
                                                         (XI (XO (XO (XI (XI
                                                         (XO (XO (XI (XI (XO
                                                         (XO (XI (XI (XO (XO
                                                         (XI (XI (XO (XO (XI
                                                         (XI (XO (XO (XI (XI
                                                         (XO (XO (XI (XI (XO
                                                         (XO (XI (XI (XO (XO
                                                         XH))))))))))))))))))))))))))))))))))))))))))))))))))))))
                                                       (f.nofZ (Zpos (XO (XO
                                                         (XO (XO (XO (XO (XO
                                                         (XO (XO (XO (XO (XO
                                                         (XO (XO (XO (XO (XO
                                                         (XO (XO (XO (XO (XO
                                                         (XO (XO (XO (XO (XO
                                                         (XO (XO (XO (XO (XO
                                                         (XO (XO (XO (XO (XO
                                                         (XO (XO (XO (XO (XO
                                                         (XO (XO (XO (XO (XO
                                                         (XO (XO (XO (XO (XO
                                                         (XO (XO
                                                         XH)))))))))))))))))))))))))))))))))))))))))))))))))))))))))
                                                     x18)) :: ((f.nmul x19
                                                                 (f.nmul
                                                                   (f.ndiv
                                                                    (f.nofZ
                                                                    (Zpos (XI
                                                                    (XI (XO
                                                                    (XO (XI
                                                                    (XI (XO
                                                                    (XO (XI
                                                                    (XI (XO
                                                                    (XO (XI
                                                                    (XI (XO
                                                                    (XO (XI
                                                                    (XI (XO
                                                                    (XO (XI
                                                                    (XI (XO
                                                                    (XO (XI
                                                                    (XI (XO
                                                                    (XO (XI
                                                                    (XI (XO
                                                                    (XO (XI
                                                                    (XI (XO
                                                                    (XO (XI
                                                                    (XI (XO
                                                                    (XO (XI
                                                                    (XI (XO
                                                                    (XO (XI
                                                                    (XI (XO
                                                                    (XO (XI
                                                                    (XI (XO
                                                                    (XO
                                                                    XH))))))))))))))))))))))))))))))))))))))))))))))))))))))
                                                                    (f.nofZ
                                                                    (Zpos (XO
                                                                    (XO (XO
                                                                    (XO (XO
                                                                    (XO (XO
                                                                    (XO (XO
                                                                    (XO (XO
                                                                    (XO (XO
                                                                    (XO (XO
                                                                    (XO (XO
                                                                    (XO (XO
                                                                    (XO (XO
                                                                    (XO (XO
                                                                    (XO (XO
                                                                    (XO (XO
                                                                    (XO (XO
                                                                    (XO (XO
                                                                    (XO (XO
                                                                    (XO (XO
                                                                    (XO (XO
                                                                    (XO (XO
                                                                    (XO (XO
                                                                    (XO (XO
                                                                    (XO (XO
                                                                    (XO (XO
                                                                    (XO (XO
                                                                    (XO (XO
                                                                    (XO (XO
                                                                    (XO
                                                                    XH)))))))))))))))))))))))))))))))))))))))))))))))))))))))))
                                                                   x20)) :: (
                                                (f.nmul x21
                                                  (f.nmul
                                                    (f.ndiv
                                                      (f.nofZ (Zpos (XI (XI
                                                        (XO (XO (XI (XI (XO
                                                        (XO (XI (XI (XO (XO
                                                        (XI (XI (XO (XO (XI
                                                        (XI (XO (XO (XI (XI
                                                        (XO (XO (XI (XI (XO
                                                        (XO (XI (XI (XO (XO
                                                        (XI (XI (XO (XO (XI
                                                        (XI (XO (XO (XI (XI
                                                        (XO (XO (XI (XI (XO
                                                        (XO (XI (XI (XO (XO
                                                        XH))))))))))))))))))))))))))))))))))))))))))))))))))))))
                                                      (f.nofZ (Zpos (XO (XO
                                                        (XO (XO (XO (XO (XO
                                                        (XO (XO (XO (XO (XO
                                                        (XO (XO (XO (XO (XO
                                                        (XO (XO (XO (XO (XO
                                                        (XO (XO (XO (XO (XO
                                                        (XO (XO (XO (XO (XO
                                                        (XO (XO (XO (XO (XO
                                                        (XO (XO (XO (XO (XO
                                                        (XO (XO (XO (XO (XO
                                                        (XO (XO (XO (XO (XO
                                                        (XO (XO
                                                        XH)))))))))))))))))))))))))))))))))))))))))))))))))))))))))
                                                    x22)) :: [])))))
                                            | Err e -> Err e)
                                         | Err e -> Err e)
                                      | Err e -> Err e)
                                else if Z.eqb regime (Zpos (XI (XI XH)))
                                     then Ok
                                            ((mk_arr f.nzero
                                               (f.nzero :: (f.nzero :: (f.nzero :: (f.nzero :: (f.nzero :: (f.nzero :: (f.nzero :: (f.nzero :: (f.nzero :: (f.nzero :: (f.nzero :: (f.nzero :: (f.nzero :: (f.nzero :: (f.nzero :: (f.nzero :: (f.nzero :: (f.nzero :: (f.nzero :: (f.nzero :: (f.nzero :: (f.nzero :: (f.nzero :: (f.nzero :: (f.nzero :: (f.nzero :: (f.nzero :: [])))))))))))))))))))))))))))),
                                            (mk_arr f.nzero
                                              (f.nzero :: (f.nzero :: (f.nzero :: [])))))
                                     else Err ValueError

(** val sumf : num -> t list -> t **)

let sumf f = function
| [] -> f.nzero
| x :: xs -> fold_left f.nadd xs x

(** val map2 : ('a1 -> 'a2 -> 'a3) -> 'a1 list -> 'a2 list -> 'a3 list **)

let rec map2 f l1 l2 =
  match l1 with
  | [] -> []
  | a :: l1' ->
    (match l2 with
     | [] -> []
     | b :: l2' -> (f a b) :: (map2 f l1' l2'))

(** val zeros9 : num -> t arr **)

let zeros9 f =
  mk_arr f.nzero
    (f.nzero :: (f.nzero :: (f.nzero :: (f.nzero :: (f.nzero :: (f.nzero :: (f.nzero :: (f.nzero :: (f.nzero :: [])))))))))

(** val scale9 : num -> t -> t arr -> t arr **)

let scale9 f c a =
  mk_arr f.nzero
    ((f.nmul c (a O)) :: ((f.nmul c (a (S O))) :: ((f.nmul c (a (S (S O)))) :: (
    (f.nmul c (a (S (S (S O))))) :: ((f.nmul c (a (S (S (S (S O)))))) :: (
    (f.nmul c (a (S (S (S (S (S O))))))) :: ((f.nmul c
                                               (a (S (S (S (S (S (S O)))))))) :: (
    (f.nmul c (a (S (S (S (S (S (S (S O))))))))) :: ((f.nmul c
                                                       (a (S (S (S (S (S (S
                                                         (S (S O)))))))))) :: [])))))))))

(** val copy9 : num -> t arr -> t arr **)

let copy9 f a =
  mk_arr f.nzero
    ((a O) :: ((a (S O)) :: ((a (S (S O))) :: ((a (S (S (S O)))) :: (
    (a (S (S (S (S O))))) :: ((a (S (S (S (S (S O)))))) :: ((a (S (S (S (S (S
                                                              (S O))))))) :: (
    (a (S (S (S (S (S (S (S O)))))))) :: ((a (S (S (S (S (S (S (S (S
                                            O))))))))) :: [])))))))))

(** val grains :
    num -> z -> z -> t arr list -> t arr -> t arr -> t -> t -> t -> (t
    arr * t) list res **)

let rec grains f phase fabric os d l p n lam =
  match os with
  | [] -> Ok []
  | o :: os' ->
    (match k_get_rotation_and_strain f phase fabric o d l p n lam with
     | Ok r ->
       (match grains f phase fabric os' d l p n lam with
        | Ok rs -> Ok (r :: rs)
        | Err e -> Err e)
     | Err e -> Err e)

(** val three_tenths : num -> t **)

let three_tenths f =
  f.ndiv
    (f.nofZ (Zpos (XI (XI (XO (XO (XI (XI (XO (XO (XI (XI (XO (XO (XI (XI (XO
      (XO (XI (XI (XO (XO (XI (XI (XO (XO (XI (XI (XO (XO (XI (XI (XO (XO (XI
      (XI (XO (XO (XI (XI (XO (XO (XI (XI (XO (XO (XI (XI (XO (XO (XI (XI (XO
      (XO XH))))))))))))))))))))))))))))))))))))))))))))))))))))))
    (f.nofZ (Zpos (XO (XO (XO (XO (XO (XO (XO (XO (XO (XO (XO (XO (XO (XO (XO
      (XO (XO (XO (XO (XO (XO (XO (XO (XO (XO (XO (XO (XO (XO (XO (XO (XO (XO
      (XO (XO (XO (XO (XO (XO (XO (XO (XO (XO (XO (XO (XO (XO (XO (XO (XO (XO
      (XO (XO (XO XH))))))))))))))))))))))))))))))))))))))))))))))))))))))))

(** val frac_rates :
    num -> t option -> t -> t -> t list -> t list -> t list **)

let frac_rates f c phi m fs es =
  let emean = sumf f (map2 f.nmul fs es) in
  map2 (fun f0 e ->
    match c with
    | Some c0 ->
      f.nmul (f.nmul (f.nmul phi m) f0) (f.nmul c0 (f.nsub emean e))
    | None -> f.nmul (f.nmul (f.nmul phi m) f0) (f.nsub emean e)) fs es

(** val derivs :
    num -> z -> z -> z -> t arr list -> t list -> t arr -> t arr -> t arr ->
    t -> t -> t -> t -> t -> (t arr list * t list) res **)

let derivs f regime phase fabric os fs d l s p n lam m phi =
  if Z.eqb regime Z0
  then Ok ((map (fun _ -> zeros9 f) os), (map (fun _ -> f.nzero) os))
  else if Z.eqb regime (Zpos XH)
       then Ok ((map (fun _ -> copy9 f s) os), (map (fun _ -> f.nzero) os))
       else if Z.eqb regime (Zpos (XO XH))
            then Err ValueError
            else if Z.eqb regime (Zpos (XI XH))
                 then Err ValueError
                 else if Z.eqb regime (Zpos (XO (XO XH)))
                      then (match grains f phase fabric os d l p n lam with
                            | Ok rs ->
                              Ok ((map fst rs),
                                (frac_rates f None phi m fs (map snd rs)))
                            | Err e -> Err e)
                      else if Z.eqb regime (Zpos (XI (XO XH)))
                           then Err ValueError
                           else if Z.eqb regime (Zpos (XO (XI XH)))
                                then (match grains f phase fabric os d l p n
                                              lam with
                                      | Ok rs ->
                                        Ok
                                          ((map (fun r ->
                                             scale9 f (three_tenths f) (fst r))
                                             rs),
                                          (frac_rates f (Some
                                            (three_tenths f)) phi m fs
                                            (map snd rs)))
                                      | Err e -> Err e)
                                else if Z.eqb regime (Zpos (XI (XI XH)))
                                     then Ok ((map (fun _ -> zeros9 f) os),
                                            (map (fun _ -> f.nzero) os))
                                     else Err ValueError

(** val aol : num -> t list -> t arr **)

let aol f l =
  mk_arr f.nzero l

(** val chunks : num -> nat -> nat -> t list -> t arr list **)

let rec chunks f w n l =
  match n with
  | O -> []
  | S n' -> (aol f (firstn w l)) :: (chunks f w n' (skipn w l))

(** val take : num -> nat -> t list -> t list * t list **)

let take _ k st =
  ((firstn k st), (skipn k st))

(** val run_derivs : num -> z -> z -> z -> nat -> t list -> t list res **)

let run_derivs f regime phase fabric n xs =
  let os = chunks f (S (S (S (S (S (S (S (S (S O))))))))) n xs in
  let (fs, r) =
    take f n (skipn (mul (S (S (S (S (S (S (S (S (S O))))))))) n) xs)
  in
  let (d, r0) = take f (S (S (S (S (S (S (S (S (S O))))))))) r in
  let (l, r1) = take f (S (S (S (S (S (S (S (S (S O))))))))) r0 in
  let (sp, r2) = take f (S (S (S (S (S (S (S (S (S O))))))))) r1 in
  (match r2 with
   | [] -> Err OtherError
   | p :: l0 ->
     (match l0 with
      | [] -> Err OtherError
      | nn :: l1 ->
        (match l1 with
         | [] -> Err OtherError
         | lam :: l2 ->
           (match l2 with
            | [] -> Err OtherError
            | m :: l3 ->
              (match l3 with
               | [] -> Err OtherError
               | phi :: l4 ->
                 (match l4 with
                  | [] ->
                    (match derivs f regime phase fabric os fs (aol f d)
                             (aol f l) (aol f sp) p nn lam m phi with
                     | Ok a ->
                       let (ads, fds) = a in
                       Ok
                       (app
                         (flat_map
                           (arr_to_list (S (S (S (S (S (S (S (S (S O))))))))))
                           ads) fds)
                     | Err e -> Err e)
                  | _ :: _ -> Err OtherError))))))

(** val run_kderivs : num -> z -> z -> z -> nat -> t list -> t list res **)

let run_kderivs f regime phase fabric n xs =
  let o = aol f (firstn (mul (S (S (S (S (S (S (S (S (S O))))))))) n) xs) in
  let (fs, r) =
    take f n (skipn (mul (S (S (S (S (S (S (S (S (S O))))))))) n) xs)
  in
  let (d, r0) = take f (S (S (S (S (S (S (S (S (S O))))))))) r in
  let (l, r1) = take f (S (S (S (S (S (S (S (S (S O))))))))) r0 in
  let (sp, r2) = take f (S (S (S (S (S (S (S (S (S O))))))))) r1 in
  (match r2 with
   | [] -> Err OtherError
   | p :: l0 ->
     (match l0 with
      | [] -> Err OtherError
      | nn :: l1 ->
        (match l1 with
         | [] -> Err OtherError
         | lam :: l2 ->
           (match l2 with
            | [] -> Err OtherError
            | m :: l3 ->
              (match l3 with
               | [] -> Err OtherError
               | phi :: l4 ->
                 (match l4 with
                  | [] ->
                    let k =
                      match n with
                      | O -> None
                      | S n0 ->
                        (match n0 with
                         | O ->
                           Some
                             (k_derivatives_n1 f regime phase fabric o
                               (aol f fs) (aol f d) (aol f l) (aol f sp) p nn
                               lam m phi)
                         | S n1 ->
                           (match n1 with
                            | O ->
                              Some
                                (k_derivatives_n2 f regime phase fabric o
                                  (aol f fs) (aol f d) (aol f l) (aol f sp) p
                                  nn lam m phi)
                            | S n2 ->
                              (match n2 with
                               | O ->
                                 Some
                                   (k_derivatives_n3 f regime phase fabric o
                                     (aol f fs) (aol f d) (aol f l)
                                     (aol f sp) p nn lam m phi)
                               | S _ -> None)))
                    in
                    (match k with
                     | Some r3 ->
                       (match r3 with
                        | Ok a0 ->
                          let (a, f0) = a0 in
                          Ok
                          (app
                            (arr_to_list
                              (mul (S (S (S (S (S (S (S (S (S O))))))))) n) a)
                            (arr_to_list n f0))
                        | Err e -> Err e)
                     | None -> Err OtherError)
                  | _ :: _ -> Err OtherError))))))
