(* Proofs_decomp.v -- lemmas about Model_decomp.elasticity_components1 (R instance):
   K and G are the isotropic (Voigt) invariants, percent anisotropy lies in [0,100], K, G
   and the norm are frame independent, the squared class norms add up. *)
From Coq Require Import Reals ZArith List Lra Lia Bool.
From PV Require Import Num NumR Model_voigt Model_decomp Proofs_tensors_alg Proofs_tensors_rot
  Proofs_tensors_maps Proofs_tensors_proj Inst_tensors.
From PV.gen Require Import Gen_tensors.
Import ListNotations.
Open Scope R_scope.

(* ---------------------------------------------------------------------- *)
(* double contractions and their invariance under orthogonal mode products *)
(* ---------------------------------------------------------------------- *)
Definition trK (f : T4) : R := sum3 (fun i => sum3 (fun k => f i i k k)).
Definition trG (f : T4) : R := sum3 (fun i => sum3 (fun j => f i j i j)).

Lemma trK_extb f g : eq4b f g -> trK f = trK g.
Proof. intros H; unfold trK; apply sum3_ext; intros i ?; apply sum3_ext; intros k ?; apply H; assumption. Qed.
Lemma trG_extb f g : eq4b f g -> trG f = trG g.
Proof. intros H; unfold trG; apply sum3_ext; intros i ?; apply sum3_ext; intros k ?; apply H; assumption. Qed.

Theorem trK_rot4 f Q : orth Q -> trK (rot4 f Q) = trK f.
Proof.
  intros H. unfold rot4. set (g := mp2 (mp1 f Q) Q).
  transitivity (sum3 (fun i => sum3 (fun c => g i i c c))).
  { unfold trK. apply sum3_ext; intros i _.
    rewrite <- (orth_rows_pair Q (fun c d => g i i c d) H).
    unfold mp4, mp3, sum3; ring. }
  transitivity (sum3 (fun c => sum3 (fun a => f a a c c))).
  { rewrite sum3_swap. apply sum3_ext; intros c _.
    rewrite <- (orth_rows_pair Q (fun a b => f a b c c) H).
    unfold g, mp2, mp1, sum3; ring. }
  unfold trK. apply sum3_swap.
Qed.

Theorem trG_rot4 f Q : orth Q -> trG (rot4 f Q) = trG f.
Proof.
  intros H. unfold rot4. set (g := mp3 (mp1 f Q) Q).
  transitivity (trG (mp4 (mp2 g Q) Q)).
  { unfold trG, g, mp1, mp2, mp3, mp4, sum3; ring. }
  transitivity (sum3 (fun i => sum3 (fun b => g i b i b))).
  { unfold trG. apply sum3_ext; intros i _.
    rewrite <- (orth_rows_pair Q (fun b d => g i b i d) H).
    unfold mp4, mp2, sum3; ring. }
  transitivity (sum3 (fun b => sum3 (fun a => f a b a b))).
  { rewrite sum3_swap. apply sum3_ext; intros b _.
    rewrite <- (orth_rows_pair Q (fun a c => f a b c b) H).
    unfold g, mp3, mp1, sum3; ring. }
  unfold trG. apply sum3_swap.
Qed.

(* ---------------------------------------------------------------------- *)
(* K and G of the model                                                    *)
(* ---------------------------------------------------------------------- *)
Definition Kof (M : arr NumR) : R := fst (@bulk_shear NumR M).
Definition Gof (M : arr NumR) : R := snd (@bulk_shear NumR M).

Lemma KG_contractions (M : arr NumR) : sym6 M ->
  Kof M = trK (t4 (k_voigt_to_elastic_tensor M)) / 9 /\
  Gof M = (trG (t4 (k_voigt_to_elastic_tensor M)) - 3 * Kof M) / 10.
Proof.
  intros H. destruct (contractions M H) as (Hd & Hv).
  unfold Kof, Gof, bulk_shear. destruct (k_voigt_decompose M) as [d v] eqn:E. cbn [fst snd] in *.
  unfold trace3. numR.
  pose proof (Hd 0 0 ltac:(lia) ltac:(lia))%nat as D0. pose proof (Hd 1 1 ltac:(lia) ltac:(lia))%nat as D1.
  pose proof (Hd 2 2 ltac:(lia) ltac:(lia))%nat as D2.
  pose proof (Hv 0 0 ltac:(lia) ltac:(lia))%nat as V0. pose proof (Hv 1 1 ltac:(lia) ltac:(lia))%nat as V1.
  pose proof (Hv 2 2 ltac:(lia) ltac:(lia))%nat as V2.
  unfold mat3 in *. cbn [Nat.add Nat.mul] in *.
  rewrite D0, D1, D2, V0, V1, V2.
  split; unfold trK, trG, dil4, dev4, sum3; field.
Qed.

(* the Voigt matrix of the rotated tensor *)
Definition rotM (M Q : arr NumR) : arr NumR :=
  k_elastic_tensor_to_voigt (k_rotate (k_voigt_to_elastic_tensor M) Q).

Lemma rotM_tensor (M Q : arr NumR) : sym6 M ->
  eq4b (t4 (k_voigt_to_elastic_tensor (rotM M Q))) (rot4 (t4 (k_voigt_to_elastic_tensor M)) (mat3 Q)).
Proof.
  intros H. unfold rotM.
  eapply eq4b_trans; [apply vte_etv, rotate_symmetries, vte_symmetries, H|].
  apply rotate_is_mode_products.
Qed.

(* C12: K and G do not depend on the frame *)
Theorem KG_frame_invariant (M Q : arr NumR) : sym6 M -> orth (mat3 Q) ->
  Kof (rotM M Q) = Kof M /\ Gof (rotM M Q) = Gof M.
Proof.
  intros H HQ.
  assert (H' : sym6 (rotM M Q)) by apply etv_symmetric.
  destruct (KG_contractions M H) as (K1 & G1). destruct (KG_contractions _ H') as (K2 & G2).
  assert (EK: Kof (rotM M Q) = Kof M).
  { rewrite K1, K2. rewrite (trK_extb _ _ (rotM_tensor M Q H)), trK_rot4 by assumption. reflexivity. }
  split; [exact EK|].
  rewrite G1, G2, EK. rewrite (trG_extb _ _ (rotM_tensor M Q H)), trG_rot4 by assumption. reflexivity.
Qed.

(* C12: the norm of the 21-vector does not depend on the frame *)
Theorem norm_frame_invariant (M Q : arr NumR) : sym6 M -> orth (mat3 Q) ->
  sumsq 21 (k_voigt_matrix_to_vector (rotM M Q)) = sumsq 21 (k_voigt_matrix_to_vector M).
Proof.
  intros H HQ.
  rewrite !vector_norm_is_frobenius by (try apply etv_symmetric; assumption).
  rewrite !sumsq81_norm4. rewrite (norm4_extb _ _ (rotM_tensor M Q H)). apply norm4_rot4, HQ.
Qed.

(* ---------------------------------------------------------------------- *)
(* the isotropic vector is the orthogonal projection on the isotropic plane *)
(* ---------------------------------------------------------------------- *)
Lemma iso_vector_spec K G : veq (@iso_vector NumR K G) (iso_vec K G).
Proof.
  intros k Hk. do 21 (destruct k as [|k]; [cbv [iso_vector iso_vec mk_arr nth]; numR; reflexivity|]).
  exfalso; lia.
Qed.

Theorem KG_isotropic_projection (M : arr NumR) : sym6 M ->
  let x := k_voigt_matrix_to_vector M in
  let iso := iso_vec (Kof M) (Gof M) in
  dot21 (vsub x iso) uK = 0 /\ dot21 (vsub x iso) uG = 0.
Proof.
  intros H x iso. subst x iso. unfold Kof, Gof, bulk_shear.
  sym_hyps M H.
  pose proof sqrt2_sq as Hs.
  split.
  - lazy [dot21 seq fold_right vsub uK uG iso_vec k_voigt_matrix_to_vector k_voigt_decompose
          trace3 fst snd mk_arr nth]; numR; clean_ite;
    set (s := sqrt 2) in *;
    repeat match goal with E : M _ = M _ |- _ => rewrite E; clear E end.
    field_simplify_eq. ring [Hs].
  - lazy [dot21 seq fold_right vsub uK uG iso_vec k_voigt_matrix_to_vector k_voigt_decompose
          trace3 fst snd mk_arr nth]; numR; clean_ite;
    set (s := sqrt 2) in *;
    repeat match goal with E : M _ = M _ |- _ => rewrite E; clear E end.
    field_simplify_eq. ring [Hs].
Qed.

(* ---------------------------------------------------------------------- *)
(* squared class norms add up (any vector rv, in whatever frame)            *)
(* ---------------------------------------------------------------------- *)
Lemma dot21_vsub_l (a b c : arr NumR) : dot21 (vsub a b) c = dot21 a c - dot21 b c.
Proof. cbv [dot21 seq fold_right vsub]; ring. Qed.
Lemma dot21_sym (a b : arr NumR) : dot21 a b = dot21 b a.
Proof. cbv [dot21 seq fold_right]; ring. Qed.
Lemma sumsq_vsub (a b : arr NumR) : sumsq 21 (vsub a b) = sumsq 21 a - 2 * dot21 a b + sumsq 21 b.
Proof. cbv [sumsq dot21 seq fold_right vsub]; ring. Qed.
Lemma dot21_iso (a : arr NumR) K G : dot21 a (iso_vec K G) = K * dot21 a uK + G * dot21 a uG.
Proof. cbv [dot21 seq fold_right iso_vec uK uG mk_arr nth]; numR; field. Qed.

Lemma mono_iso K G : veq (k_mono_project (iso_vec K G)) (iso_vec K G).
Proof. intros k Hk. do 21 (destruct k as [|k]; [lazy [k_mono_project iso_vec mk_arr nth]; numR; reflexivity|]). exfalso; lia. Qed.
Lemma ortho_iso K G : veq (k_ortho_project (iso_vec K G)) (iso_vec K G).
Proof. intros k Hk. do 21 (destruct k as [|k]; [lazy [k_ortho_project iso_vec mk_arr nth]; numR; reflexivity|]). exfalso; lia. Qed.
Lemma tetr_iso K G : veq (k_tetr_project (iso_vec K G)) (iso_vec K G).
Proof. intros k Hk. do 21 (destruct k as [|k]; [lazy [k_tetr_project k_ortho_project iso_vec mk_arr nth]; numR; try reflexivity; field|]). exfalso; lia. Qed.

(* the hexagonal-and-higher part has the same components along the isotropic plane as rv *)
Lemma chain_dot_iso (rv : arr NumR) K G :
  dot21 (hexv (k_tetr_project (k_ortho_project (k_mono_project rv)))) (iso_vec K G) = dot21 rv (iso_vec K G).
Proof.
  rewrite hex_selfadj. rewrite (dot21_ext _ _ _ _ (fun k _ => eq_refl) (hex_iso K G)).
  rewrite tetr_selfadj. rewrite (dot21_ext _ _ _ _ (fun k _ => eq_refl) (tetr_iso K G)).
  rewrite ortho_selfadj. rewrite (dot21_ext _ _ _ _ (fun k _ => eq_refl) (ortho_iso K G)).
  rewrite mono_selfadj. rewrite (dot21_ext _ _ _ _ (fun k _ => eq_refl) (mono_iso K G)).
  reflexivity.
Qed.

(* C12: tric^2 + mono^2 + ortho^2 + tetr^2 + hex^2 = |rv - iso|^2, for EVERY vector rv whose
   residual rv - iso is orthogonal to iso (which KG_isotropic_projection provides) *)
Theorem squares_add_up (rv : arr NumR) K G :
  dot21 (vsub rv (iso_vec K G)) (iso_vec K G) = 0 ->
  let m := k_mono_project rv in let o := k_ortho_project m in
  let t := k_tetr_project o in let h := hexv t in
  sumsq 21 (vsub rv m) + sumsq 21 (vsub m o) + sumsq 21 (vsub o t) + sumsq 21 (vsub t h)
  + sumsq 21 (vsub h (iso_vec K G)) = sumsq 21 (vsub rv (iso_vec K G)).
Proof.
  intros Hperp m o t h. subst h t o m.
  pose proof (pythagoras_chain rv) as P. cbv zeta in P.
  pose proof (chain_dot_iso rv K G) as Hh.
  rewrite dot21_vsub_l in Hperp.
  rewrite (sumsq_vsub (hexv _) (iso_vec K G)), (sumsq_vsub rv (iso_vec K G)). rewrite Hh.
  rewrite !sumsq21_dot in *. lra.
Qed.

(* C12: 0 <= |x - iso| <= |x| : percent anisotropy lies in [0, 100] *)
Theorem aniso_range (x : arr NumR) K G :
  dot21 (vsub x (iso_vec K G)) (iso_vec K G) = 0 -> 0 < sumsq 21 x ->
  0 <= sqrt (sumsq 21 (vsub x (iso_vec K G))) / sqrt (sumsq 21 x) * 100 <= 100.
Proof.
  intros Hperp Hpos.
  assert (Hle: sumsq 21 (vsub x (iso_vec K G)) <= sumsq 21 x).
  { rewrite dot21_vsub_l in Hperp. rewrite sumsq_vsub.
    assert (0 <= sumsq 21 (iso_vec K G)).
    { rewrite sumsq21_dot. cbv [dot21 seq fold_right].
      repeat apply Rplus_le_le_0_compat; try apply Rle_0_sqr; lra. }
    rewrite !sumsq21_dot in *. lra. }
  assert (H0: 0 <= sumsq 21 (vsub x (iso_vec K G))).
  { rewrite sumsq21_dot. cbv [dot21 seq fold_right].
    repeat apply Rplus_le_le_0_compat; try apply Rle_0_sqr; lra. }
  pose proof (sqrt_lt_R0 _ Hpos) as Hs.
  pose proof (sqrt_le_1 _ _ H0 (Rlt_le _ _ Hpos) Hle) as Hm.
  pose proof (sqrt_pos (sumsq 21 (vsub x (iso_vec K G)))) as Hp.
  split.
  - apply Rmult_le_pos; [|lra]. apply Rmult_le_pos; [assumption|]. left; apply Rinv_0_lt_compat; assumption.
  - assert (sqrt (sumsq 21 (vsub x (iso_vec K G))) / sqrt (sumsq 21 x) <= 1).
    { apply (Rmult_le_reg_r (sqrt (sumsq 21 x))); [assumption|]. unfold Rdiv.
      rewrite Rmult_assoc, Rinv_l by lra. lra. }
    lra.
Qed.

(* orthogonality to the plane gives orthogonality to iso itself *)
Lemma perp_plane_iso (x : arr NumR) K G K' G' :
  dot21 (vsub x (iso_vec K G)) uK = 0 -> dot21 (vsub x (iso_vec K G)) uG = 0 ->
  dot21 (vsub x (iso_vec K G)) (iso_vec K' G') = 0.
Proof. intros H1 H2. rewrite dot21_iso, H1, H2. ring. Qed.

(* a vector in the orthorhombic range is in the monoclinic range (its triclinic and
   monoclinic parts, x - mono x and mono x - ortho (mono x), vanish) *)
Lemma ortho_range_in_mono (x : arr NumR) : veq (k_ortho_project x) x -> veq (k_mono_project x) x.
Proof.
  intros H k Hk.
  do 21 (destruct k as [|k]; [
    lazy [k_mono_project mk_arr nth]; numR;
    first [ reflexivity
          | match goal with |- 0 = x ?j =>
              rewrite <- (H j ltac:(lia)); lazy [k_ortho_project mk_arr nth]; numR; reflexivity end ] |]).
  exfalso; lia.
Qed.

Lemma C12_nonvacuous_proof : sym6 (fun _ : nat => 1) /\ orth (mat3 (@eye3 NumR)) /\
  0 < sumsq 21 (@k_voigt_matrix_to_vector NumR (fun _ => 1)).
Proof.
  split; [intros i j _ _; reflexivity|]. split.
  - intros a e Ha He. destruct a as [|[|[|a]]]; try lia; destruct e as [|[|[|e]]]; try lia;
    cbv [sum3 mat3 eye3 mk_arr nth Nat.eqb Nat.add Nat.mul]; numR; ring.
  - cbv [sumsq seq fold_right k_voigt_matrix_to_vector mk_arr nth]; numR.
    pose proof sqrt2_pos. nra.
Qed.
