(* Inst_scsv.v -- instance lemmas of group scsv (tie T): the definitions of coq/gen/Gen_scsv.v, regenerated from
   /repo/src/pydrex/io.py on every run by translator/specs_scsv.py, are equal to the hand-written model
   (Model_scsv.v, Model_scsv_frame.v) on every input the typed model speaks about.  All statements are for ALL
   schemas / lists / strings (induction where the code loops), none is a computation on samples.
   The tactics do not mention generated variable names. *)
From Coq Require Import String Ascii List ZArith Bool NArith Lia.
From PV Require Import Model_scsv Model_scsv_frame Model_scsv_header Model_scsv_py Gen_scsv.
Import ListNotations.
Open Scope string_scope.

(* case analysis on whatever result of a text oracle / float token the two sides are stuck on *)
Ltac split_res := repeat match goal with
  | |- context [float_of_int ?O ?z] => destruct (float_of_int O z) eqn:?; cbn
  | |- context [o_int_of ?O ?z] => destruct (o_int_of O z) eqn:?; cbn
  | |- context [o_float_of ?O ?z] => destruct (o_float_of O z) eqn:?; cbn
  | |- context [o_cplx_of ?O ?z] => destruct (o_cplx_of O z) eqn:?; cbn
  | |- context [match ?x with Ok _ => _ | Err _ => _ end] => destruct x eqn:?; cbn
  | |- context [match ?x with FNan => _ | FInf _ => _ | FFin _ => _ end] => destruct x eqn:?; cbn
  end.

Lemma abs_fields_length : forall l fs, abs_fields l = Some fs -> length l = length fs.
Proof.
  induction l as [|p r IH]; intros fs A; cbn in A.
  - injection A as <-. reflexivity.
  - destruct (abs_field p); [|discriminate]. destruct (abs_fields r); [|discriminate]. injection A as <-.
    cbn. f_equal. apply IH. reflexivity.
Qed.

Lemma ltb0_of_nat : forall n, (0 <? Z.of_nat n)%Z = negb (n =? 0)%nat.
Proof. intro n. destruct n; [reflexivity|]. cbn [Nat.eqb negb]. apply Z.ltb_lt. lia. Qed.

Definition type_names : list string := ["string"; "integer"; "float"; "boolean"; "complex"].

Lemma typemap_cases : forall ty,
  (ty = "string" \/ ty = "integer" \/ ty = "float" \/ ty = "boolean" \/ ty = "complex")
  \/ (typemap ty = None /\ mem_str ty type_names = false).
Proof.
  intro ty. unfold typemap, type_names, mem_str.
  destruct (String.eqb ty "string") eqn:E1; [apply String.eqb_eq in E1; auto|].
  destruct (String.eqb ty "integer") eqn:E2; [apply String.eqb_eq in E2; auto|].
  destruct (String.eqb ty "float") eqn:E3; [apply String.eqb_eq in E3; auto|].
  destruct (String.eqb ty "boolean") eqn:E4; [apply String.eqb_eq in E4; auto 6|].
  destruct (String.eqb ty "complex") eqn:E5; [apply String.eqb_eq in E5; auto 6|].
  right. auto.
Qed.

Definition emb_col (c : bool * list pyval) : pyval := if fst c then PTuple (snd c) else PList (snd c).

Lemma tail_slice : forall {A} (l : list A), firstn (length l - 1) (skipn 1 l) = tl l.
Proof. intros A l. destruct l as [|x r]; [reflexivity|]. cbn [length skipn tl]. rewrite Nat.sub_succ, Nat.sub_0_r. apply firstn_all. Qed.

Lemma eqb_of_nat : forall a b, Z.eqb (Z.of_nat a) (Z.of_nat b) = Nat.eqb a b.
Proof. intros a b. destruct (Nat.eqb a b) eqn:E. apply Nat.eqb_eq in E. subst. apply Z.eqb_refl. apply Nat.eqb_neq in E. apply Z.eqb_neq. lia. Qed.

Lemma nth_py_0 : forall x r, nth_py (x :: r) 0 = Ok x.
Proof. intros x r. unfold nth_py. cbn [length]. rewrite Nat2Z.inj_succ. 
  replace (0 <? 0)%Z with false by reflexivity. cbn [orb].
  replace (Z.succ (Z.of_nat (length r)) <=? 0)%Z with false by (symmetry; apply Z.leb_gt; lia). reflexivity. Qed.

Lemma py_len_col : forall c, py_len (emb_col c) = Ok (PInt (Z.of_nat (length (snd c)))).
Proof. intros [[|] l]; reflexivity. Qed.

Lemma py_slice_tail : forall x r, py_slice (PList (x :: r)) (PInt 1) PNone = Ok (PList r).
Proof. intros x r. unfold py_slice, bound. replace (1 <? 0)%Z with false by reflexivity.
  change (Z.to_nat 1) with 1. rewrite (tail_slice (x :: r)). reflexivity. Qed.

Definition raw_fill (p : pyval) : pyval :=
  match p with PDict kv => match dget kv "fill" with Some v => v | None => PStr "" end | _ => PNone end.
Definition raw_name (p : pyval) : option pyval :=
  match p with PDict kv => dget kv "name" | _ => None end.
Fixpoint raw_names (l : list pyval) : option (list pyval) :=
  match l with
  | [] => Some []
  | p :: r => match raw_name p, raw_names r with Some n, Some ns => Some (n :: ns) | _, _ => None end
  end.

Lemma raw_fill_abs : forall p f, abs_field p = Some f -> abs_yval (raw_fill p) = fill_of f.
Proof.
  intros p f A. destruct p as [| | | | | | | | kv | |]; try discriminate A. unfold abs_field in A.
  destruct (opt_str (dget kv "type")); [|discriminate].
  destruct (match dget kv "name" with Some x => is_other x | None => false end); [discriminate|].
  injection A as <-. unfold raw_fill, fill_of. cbn [ffill]. destruct (dget kv "fill"); reflexivity.
Qed.

Lemma typemap_dget : forall ty,
  dget [("string", PType TStr); ("integer", PType TInt); ("float", PType TFloat); ("boolean", PType TBool); ("complex", PType TCplx)] ty
  = option_map PType (typemap ty).
Proof.
  intro ty. unfold typemap, dget.
  destruct (String.eqb ty "string"); [reflexivity|]. destruct (String.eqb ty "integer"); [reflexivity|].
  destruct (String.eqb ty "float"); [reflexivity|]. destruct (String.eqb ty "boolean"); [reflexivity|].
  destruct (String.eqb ty "complex"); reflexivity.
Qed.

Lemma py_get_type : forall p f, abs_field p = Some f -> py_get p (PStr "type") (PStr "string") = Ok (PStr (type_of f)).
Proof.
  intros p f A. destruct p as [| | | | | | | | kv | |]; try discriminate A. unfold abs_field in A.
  destruct (dget kv "type") as [[| | | | | ty | | | | |]|] eqn:Et; try discriminate A; cbn [opt_str] in A;
  (destruct (match dget kv "name" with Some x => is_other x | None => false end); [discriminate|]);
  injection A as <-; cbn [py_get]; rewrite Et; reflexivity.
Qed.

Lemma py_eqb_strs : forall O a b, py_eqb O (PList (map PStr a)) (PList (map PStr b)) = Ok (list_str_eqb a b).
Proof.
  intros O a. induction a as [|x r IH]; intros [|y r']; try reflexivity.
  specialize (IH r'). cbn [py_eqb] in IH. cbn [map py_eqb list_str_eqb].
  cbn [abs_cell cell_eq bind]. destruct (String.eqb x y); [exact IH|reflexivity].
Qed.

Fixpoint zip3 (a b c : list pyval) : list (list pyval) :=
  match a, b, c with
  | x :: a', y :: b', z :: c' => [x; y; z] :: zip3 a' b' c'
  | _, _, _ => []
  end.

Lemma zipn3 : forall a b c, zipn (length a) [a; b; c] = zip3 a b c.
Proof.
  induction a as [|x a IH]; intros b c; [reflexivity|].
  destruct b as [|y b]; [reflexivity|]. destruct c as [|z c]; [reflexivity|].
  cbn [length zipn heads map tl zip3]. rewrite IH. reflexivity.
Qed.

Lemma nth_py_in : forall l k, k < length l -> exists v, nth_py l (Z.of_nat k) = Ok v.
Proof.
  intros l k H. unfold nth_py.
  assert (A : (Z.of_nat k <? 0)%Z = false) by (apply Z.ltb_ge; lia).
  assert (B : (Z.of_nat (length l) <=? Z.of_nat k)%Z = false) by (apply Z.leb_gt; lia).
  cbv zeta. rewrite A, A, B. cbn [orb]. rewrite Nat2Z.id.
  destruct (nth_error l k) as [v|] eqn:E; [exists v; reflexivity|]. apply nth_error_None in E. lia.
Qed.

Lemma match_d_false : forall (A : Type) t (X Y : A), prefix "d" t = false ->
  (match t with String "d"%char _ => X | _ => Y end) = Y.
Proof.
  intros A t X Y H. destruct t as [|c r]; [reflexivity|]. cbn [prefix] in H.
  destruct (ascii_dec "d" c) as [<-|N]; [destruct r; discriminate H|].
  destruct c as [[] [] [] [] [] [] [] []]; try reflexivity; exfalso; apply N; reflexivity.
Qed.
Lemma match_d_true : forall (A : Type) t (X Y : A), prefix "d" t = true ->
  (match t with String "d"%char _ => X | _ => Y end) = X.
Proof.
  intros A t X Y H. destruct t as [|c r]; [discriminate H|]. cbn [prefix] in H.
  destruct (ascii_dec "d" c) as [<-|N]; [reflexivity|discriminate H].
Qed.

Lemma find_char_lt : forall c s stop k, find_char c s stop = Some k -> k < stop.
Proof.
  intros c s. induction s as [|x r IH]; intros stop k H; destruct stop as [|n]; cbn [find_char] in H; try discriminate H.
  destruct (Ascii.eqb x c); [injection H as <-; lia|].
  destruct (find_char c r n) as [k'|] eqn:E; [|discriminate H]. injection H as <-. apply IH in E. lia.
Qed.

Lemma ascii_prefix_le : forall s k k', k' <= k -> ascii_prefix s k = true -> ascii_prefix s k' = true.
Proof.
  induction s as [|c r IH]; intros k k' L H; destruct k' as [|k']; try reflexivity.
  destruct k as [|k]; [lia|]. cbn [ascii_prefix] in *. apply andb_true_iff in H. destruct H as [H1 H2].
  rewrite H1. cbn [andb]. apply (IH k k'); [lia|exact H2].
Qed.

Lemma ltb_of_nat : forall a b, (Z.of_nat a <? Z.of_nat b)%Z = Nat.ltb a b.
Proof. intros a b. destruct (Nat.ltb a b) eqn:E. apply Nat.ltb_lt in E. apply Z.ltb_lt. lia. apply Nat.ltb_ge in E. apply Z.ltb_ge. lia. Qed.

Lemma bound_of_nat : forall a d, bound (PInt (Z.of_nat a)) d = Some a.
Proof. intros a d. unfold bound. replace (Z.of_nat a <? 0)%Z with false by (symmetry; apply Z.ltb_ge; lia). rewrite Nat2Z.id. reflexivity. Qed.
Lemma py_slice_str : forall t a b, py_slice (PStr t) (PInt (Z.of_nat a)) (PInt (Z.of_nat b)) = Ok (PStr (substring a (b - a) t)).
Proof. intros t a b. unfold py_slice. rewrite !bound_of_nat. reflexivity. Qed.
Lemma py_slice_str_end : forall t a, py_slice (PStr t) (PInt (Z.of_nat a)) PNone = Ok (PStr (substring a (String.length t - a) t)).
Proof. intros t a. unfold py_slice. rewrite bound_of_nat. reflexivity. Qed.

Lemma split_on_nonempty : forall p s, split_on p s <> [].
Proof. intros p s. destruct s as [|c r]; cbn [split_on]; [discriminate|]. destruct (p c); [discriminate|]. destruct (split_on p r); discriminate. Qed.

Lemma removelast_map : forall {A B} (f : A -> B) l, removelast (map f l) = map f (removelast l).
Proof. intros A B f l. induction l as [|x r IH]; [reflexivity|]. cbn [map removelast]. destruct r; [reflexivity|]. cbn [map] in *. rewrite IH. reflexivity. Qed.

Lemma py_pop_strs : forall l, l <> [] -> py_pop (PList (map PStr l)) = Ok (PList (map PStr (removelast l))).
Proof. intros l H. destruct l as [|x r]; [congruence|]. cbn [map py_pop]. rewrite <- (removelast_map PStr (x :: r)). reflexivity. Qed.

Lemma even_mod2 : forall n, (Z.of_nat n mod 2 =? 0)%Z = Nat.even n.
Proof.
  intro n. destruct (Nat.even n) eqn:E.
  - apply Nat.even_spec in E. destruct E as [k ->]. rewrite Nat2Z.inj_mul, Z.mul_comm, Z_mod_mult. reflexivity.
  - assert (Od : Nat.odd n = true) by (unfold Nat.odd; rewrite E; reflexivity).
    apply Nat.odd_spec in Od. destruct Od as [k ->]. rewrite Nat2Z.inj_add, Nat2Z.inj_mul, Z.add_comm, Z.mul_comm, Z_mod_plus_full. reflexivity.
Qed.

Lemma nth_py_nth : forall l k, k < length l -> nth_py l (Z.of_nat k) = Ok (nth k l PNone).
Proof.
  intros l k H. unfold nth_py.
  assert (A : (Z.of_nat k <? 0)%Z = false) by (apply Z.ltb_ge; lia).
  assert (B : (Z.of_nat (length l) <=? Z.of_nat k)%Z = false) by (apply Z.leb_gt; lia).
  cbv zeta. rewrite A, A, B. cbn [orb]. rewrite Nat2Z.id.
  destruct (nth_error l k) as [v|] eqn:E; [rewrite (nth_error_nth _ _ _ E); reflexivity|]. apply nth_error_None in E. lia.
Qed.

Lemma list_pair_ind : forall {A} (P : list A -> Prop),
  P [] -> (forall a, P [a]) -> (forall a b r, P r -> P (a :: b :: r)) -> forall l, P l.
Proof.
  intros A P H0 H1 H2 l. assert (X : P l /\ forall a, P (a :: l)); [|exact (proj1 X)].
  induction l as [|x r [IH1 IH2]]; [split; [exact H0|exact H1]|]. split; [apply IH2|]. intro a. apply H2. exact IH1.
Qed.

Lemma abs_fields_app : forall a b fa fb, abs_fields a = Some fa -> abs_fields b = Some fb -> abs_fields (a ++ b) = Some (fa ++ fb)%list.
Proof.
  induction a as [|p r IH]; intros b fa fb A B; cbn [abs_fields app] in *.
  - injection A as <-. exact B.
  - destruct (abs_field p); [|discriminate]. destruct (abs_fields r) as [fr|] eqn:Er; [|discriminate]. injection A as <-.
    rewrite (IH b fr fb eq_refl B). reflexivity.
Qed.

Lemma tersemap_dget : forall ty,
  dget [("s", PStr "string"); ("i", PStr "integer"); ("f", PStr "float"); ("b", PStr "boolean"); ("c", PStr "complex")] ty
  = option_map PStr (tersemap ty).
Proof.
  intro ty. unfold tersemap, dget.
  destruct (String.eqb ty "s"); [reflexivity|]. destruct (String.eqb ty "i"); [reflexivity|].
  destruct (String.eqb ty "f"); [reflexivity|]. destruct (String.eqb ty "b"); [reflexivity|].
  destruct (String.eqb ty "c"); reflexivity.
Qed.

Lemma py_gt_nat : forall a b, py_gt (PInt (Z.of_nat a)) (PInt (Z.of_nat b)) = Ok (PBool (Nat.ltb b a)).
Proof. intros a b. cbn [py_gt int_op2 as_int]. rewrite ltb_of_nat. reflexivity. Qed.
Lemma py_eq_nat : forall O a b, py_eq O (PInt (Z.of_nat a)) (PInt (Z.of_nat b)) = Ok (PBool (Nat.eqb a b)).
Proof. intros O a b. change (py_eq O (PInt (Z.of_nat a)) (PInt (Z.of_nat b))) with (Ok (A:=pyval) (PBool (Z.eqb (Z.of_nat a) (Z.of_nat b)))).
  rewrite eqb_of_nat. reflexivity. Qed.

Lemma string_of_list_ascii_app : forall a b, string_of_list_ascii (a ++ b) = (string_of_list_ascii a ++ string_of_list_ascii b)%string.
Proof. induction a as [|x a IH]; intro b; [reflexivity|]. cbn [app string_of_list_ascii append]. rewrite IH. reflexivity. Qed.

Lemma replace_apostrophe : forall s,
  replace_char "'"%char "''" s = string_of_list_ascii (esc ascii Ascii.eqb apostrophe (list_ascii_of_string s)).
Proof.
  induction s as [|x r IH]; [reflexivity|]. cbn [replace_char list_ascii_of_string esc]. unfold apostrophe in *.
  destruct (Ascii.eqb x "'"%char); cbn [string_of_list_ascii append]; rewrite IH; reflexivity.
Qed.

(* ---------------------------------------------------------------- facts about the primitives *)
Section Inst.
Variable O : oracles.

Lemma py_eqb_str : forall a b, py_eqb O (PStr a) (PStr b) = Ok (String.eqb a b).
Proof. reflexivity. Qed.

Lemma py_eq_str : forall a b, py_eq O (PStr a) (PStr b) = Ok (PBool (String.eqb a b)).
Proof. reflexivity. Qed.
Lemma py_ne_str : forall a b, py_ne O (PStr a) (PStr b) = Ok (PBool (negb (String.eqb a b))).
Proof. reflexivity. Qed.

Lemma mem_py_strs : forall x l, mem_py O (PStr x) (map PStr l) = Ok (mem_str x l).
Proof.
  intros x l. induction l as [|y r IH]; [reflexivity|].
  cbn [map mem_py mem_str]. rewrite py_eqb_str. cbn [bind]. destruct (String.eqb x y); [reflexivity|exact IH].
Qed.

(* ---------------------------------------------------------------- _parse_scsv_bool *)
Lemma gen_parse_bool_str : forall x, gen__parse_scsv_bool O (PStr x) = Ok (PBool (parse_bool x)).
Proof.
  intro x. unfold gen__parse_scsv_bool, parse_bool.
  change (py_call1 O (PType TStr) (PStr x)) with (Ok (A := pyval) (PStr x)). cbn [bind py_lower].
  change (PTuple [PStr "yes"; PStr "true"; PStr "t"; PStr "1"]) with (PTuple (map PStr ["yes"; "true"; "t"; "1"])).
  unfold py_in, py_inb. rewrite mem_py_strs. reflexivity.
Qed.

(* ---------------------------------------------------------------- _parse_scsv_cell *)
Definition not_complex (p : pyval) : Prop := match p with PCplx _ _ => False | _ => True end.

Lemma gen_parse_cell_eq : forall t data missing fill, not_complex fill ->
  gen__parse_scsv_cell O (PType t) (PStr data) (PStr missing) fill
  = lift_cell (parse_cell O t data missing (abs_yval fill)).
Proof.
  intros t data missing fill NC. unfold gen__parse_scsv_cell, parse_cell, read_fill.
  cbn [py_strip bind]. remember (strip data) as sd eqn:Esd.
  rewrite py_eq_str. cbn [bind py_truth].
  destruct (String.eqb sd missing).
  - (* the cell is the missing marker: fillval == "NaN" ? func(np.nan) : func(fillval) *)
    destruct fill as [| b | z | f | re im | s | l | l | kv | u | tag]; try (exfalso; exact NC);
      try (destruct t; cbn; split_res; reflexivity).
    (* str fill *) rewrite py_eq_str. cbn [bind py_truth abs_yval is_NaN_text].
    destruct (String.eqb s "NaN"); destruct t; cbn; split_res; reflexivity.
  - (* an ordinary cell *)
    cbn [py_qualname bind]. rewrite py_eq_str. cbn [bind py_truth].
    destruct t; cbn [ty_qualname String.eqb Ascii.eqb Bool.eqb]; cbn [bind run_fn];
      try (rewrite gen_parse_bool_str); cbn; split_res; reflexivity.
Qed.

(* ---------------------------------------------------------------- _validate_scsv_schema
   for every dictionary that stands for a typed schema (any key order, any further keys, every key possibly
   absent, names / fills of any scalar type): the generated function computes validate_schema, exceptions
   (KeyError for a field without name, AttributeError for a name that is not a string) included *)
Theorem gen_validate_eq : forall p s, abs_schema p = Some s ->
  gen__validate_scsv_schema O p = lift_bool (validate_schema O s).
Proof.
  intros p s A. destruct p as [| | | | | | | | kv | |]; try discriminate A.
  unfold abs_schema in A.
  destruct (dget kv "delimiter") as [[| | | | | d | | | | |]|] eqn:Ed; try discriminate A;
  destruct (dget kv "missing") as [[| | | | | m | | | | |]|] eqn:Em; try discriminate A;
  destruct (dget kv "fields") as [[| | | | | | l | | | |]|] eqn:Ef; try discriminate A;
  cbn [opt_str option_map] in A; try (destruct (abs_fields l) as [fs|] eqn:Efs; [|discriminate A]);
  injection A as <-; unfold gen__validate_scsv_schema, validate_schema; cbn [sdelim smissing sfields];
  cbn [py_in py_inb lift_bool bind]; rewrite ?Ed, ?Em, ?Ef; cbn [bind py_and py_truth py_not negb run_fn lift_bool]; try reflexivity.
  (* all three keys present: the loop over the fields *)
  match goal with |- context [for_loop ?b _ _] => set (body := b) end.
  assert (L : forall l fs, abs_fields l = Some fs ->
              for_items body l None tt =
              match validate_fields O fs with Ok true => Ok (inl tt) | Ok false => Ok (inr (PBool false)) | Err e => Err e end).
  { clear. induction l as [|x r IH]; intros fs A; cbn [abs_fields] in A.
    - injection A as <-. reflexivity.
    - destruct (abs_field x) as [f|] eqn:Af; [|discriminate]. destruct (abs_fields r) as [fs'|] eqn:Ar; [|discriminate].
      injection A as <-. specialize (IH fs' eq_refl).
      cbn [for_items validate_fields].
      destruct x as [| | | | | | | | kv | |]; try discriminate Af. unfold abs_field in Af.
      destruct (dget kv "type") as [[| | | | | ty | | | | |]|] eqn:Et; try discriminate Af; cbn [opt_str] in Af;
      (destruct (dget kv "name") as [n|] eqn:En;
       [ destruct n as [| | | | | n | | | | |]; cbn [is_other] in Af; try discriminate Af | ]);
      injection Af as <-; cbn [fname option_map abs_yval];
      unfold body at 1; cbn [py_getitem bind]; rewrite ?En; cbn [bind py_isidentifier]; try reflexivity.
      all: destruct (o_is_ident O n); cbn [py_not py_truth negb bind]; [|reflexivity].
      all: cbn [py_get bind]; rewrite Et; cbn [type_of ftype has_fill ffill]; unfold c_SCSV_TYPEMAP, c__SCSV_DEFAULT_TYPE, default_type;
           cbn [py_keys bind].
      + destruct (typemap_cases ty) as [[-> | [-> | [-> | [-> | ->]]]] | [T M]].
        1-5: cbn; destruct (dget kv "fill"); cbn; rewrite ?IH; destruct (validate_fields O fs') as [[|]|]; reflexivity.
        rewrite T. unfold py_not_in, py_inb. rewrite typemap_dget, T. reflexivity.
      + cbn; destruct (dget kv "fill"); cbn; rewrite ?IH; destruct (validate_fields O fs') as [[|]|]; reflexivity. }
  cbn [py_getitem bind]. rewrite Ed, Em, Ef. cbn [bind py_len py_gt int_op2 as_int].
  rewrite ltb0_of_nat, (abs_fields_length _ _ Efs).
  destruct (Datatypes.length fs =? 0)%nat; cbn [negb andb py_and py_truth bind py_not run_fn lift_bool]; [reflexivity|].
  rewrite py_ne_str. cbn [bind].
  destruct (String.eqb d m); cbn [negb andb py_and py_truth bind py_not run_fn lift_bool]; [reflexivity|].
  change (py_not_in O (PStr d) (PStr m)) with (Ok (A:=pyval) (PBool (negb (contains m d)))).
  destruct (contains m d); cbn [negb andb py_and py_truth bind py_not run_fn lift_bool]; [reflexivity|].
  cbn [py_iter bind]. unfold for_loop. cbn [fst snd]. rewrite (L _ _ Efs).
  destruct (validate_fields O fs) as [[|]|]; reflexivity.
Qed.

(* ---------------------------------------------------------------- the line loop of read_scsv
   for every file (list of lines): the generated loop computes Model_scsv_frame.frame *)
Theorem gen_read_lines_eq : forall lines,
  gen_read_scsv_lines O (PList (map PStr lines))
  = Ok (PList (map PStr (fst (frame false lines))), PList (map PStr (snd (frame false lines)))).
Proof.
  intros lines. unfold gen_read_scsv_lines. cbn [bind py_iter]. unfold for_loop. cbn [fst snd].
  match goal with |- context [for_items ?b _ _ _] => set (body := b) end.
  assert (L : forall lines b ys cs,
     for_items body (map PStr lines) None (PList cs, PBool b, PList ys)
     = Ok (inl (PList (cs ++ map PStr (snd (frame b lines))), PBool (frame_state b lines),
                PList (ys ++ map PStr (fst (frame b lines)))))).
  { clear. induction lines as [|l r IH]; intros b ys cs.
    - cbn. rewrite !app_nil_r. reflexivity.
    - cbn [map for_items frame frame_state]. unfold body at 1. rewrite !py_eq_str. cbn [bind py_truth].
      change (String.eqb l LF) with (String.eqb l blank_line). change ("---" ++ LF) with fence_line.
      destruct (String.eqb l blank_line) eqn:E1.
      + apply String.eqb_eq in E1. subst l. cbn [bind]. rewrite IH. reflexivity.
      + cbn [bind]. destruct (String.eqb l fence_line) eqn:E2; cbn [bind py_truth].
        * destruct b; cbn [bind negb]; rewrite IH; reflexivity.
        * destruct b; cbn [bind py_append fst snd]; rewrite IH; cbn [map fst snd]; rewrite <- !app_assoc; reflexivity. }
  rewrite (L lines false [] []). reflexivity.
Qed.

(* ---------------------------------------------------------------- save_scsv: the column-length check
   columns given as lists or tuples *)
Theorem gen_save_lengths_eq : forall (cols : list (bool * list pyval)),
  gen_save_scsv_lengths O (PList (map emb_col cols)) =
  match cols with
  | [] => Err EIndex
  | c0 :: rest => if existsb (fun c => negb (Nat.eqb (length (snd c)) (length (snd c0)))) rest then Err SCSV
                  else Ok (PInt (Z.of_nat (length (snd c0))))
  end.
Proof.
  intros cols. unfold gen_save_scsv_lengths. destruct cols as [|c0 rest]; [reflexivity|].
  cbn [map py_getitem as_int]. rewrite nth_py_0. cbn [bind]. rewrite py_len_col. cbn [bind].
  rewrite py_slice_tail. cbn [bind py_iter]. unfold for_loop. cbn [fst snd].
  match goal with |- context [for_items ?b _ _ _] => set (body := b) end.
  assert (L : forall rest, for_items body (map emb_col rest) None tt =
     if existsb (fun c => negb (Nat.eqb (length (snd c)) (length (snd c0)))) rest then Err SCSV else Ok (inl tt)).
  { clear. induction rest as [|c r IH]; [reflexivity|].
    cbn [map for_items existsb]. unfold body at 1. rewrite py_len_col. cbn [bind].
    change (py_ne O (PInt (Z.of_nat (length (snd c)))) (PInt (Z.of_nat (length (snd c0)))))
      with (Ok (A:=pyval) (PBool (negb (Z.eqb (Z.of_nat (length (snd c))) (Z.of_nat (length (snd c0))))))).
    rewrite eqb_of_nat. cbn [bind py_truth].
    destruct (Nat.eqb (length (snd c)) (length (snd c0))); cbn [negb orb bind]; [exact IH|reflexivity]. }
  rewrite L. destruct (existsb _ rest); reflexivity.
Qed.

(* ---------------------------------------------------------------- save_scsv: fills / types / names
   (KeyError for a type outside SCSV_TYPEMAP and for a field without name, in that order) *)
Lemma comp_fills : forall l fs, abs_fields l = Some fs ->
  comp_items (fun v => py_get v (PStr "fill") c__SCSV_DEFAULT_FILL) l None = Ok (map raw_fill l).
Proof.
  induction l as [|p r IH]; intros fs A; [reflexivity|]. cbn [abs_fields] in A.
  destruct (abs_field p) as [f|] eqn:Af; [|discriminate]. destruct (abs_fields r) as [fs'|] eqn:Ar; [|discriminate].
  cbn [comp_items map]. rewrite (IH fs' eq_refl).
  destruct p as [| | | | | | | | kv | |]; try discriminate Af. cbn [py_get raw_fill].
  destruct (dget kv "fill"); reflexivity.
Qed.

Lemma comp_types : forall l fs, abs_fields l = Some fs ->
  comp_items (fun v => t5 <- py_get v (PStr "type") c__SCSV_DEFAULT_TYPE ;; py_getitem c_SCSV_TYPEMAP t5) l None
  = match field_types fs with Ok tfs => Ok (map (fun tf => PType (fst tf)) tfs) | Err e => Err e end.
Proof.
  induction l as [|p r IH]; intros fs A; cbn [abs_fields] in A.
  - injection A as <-. reflexivity.
  - destruct (abs_field p) as [f|] eqn:Af; [|discriminate]. destruct (abs_fields r) as [fs'|] eqn:Ar; [|discriminate].
    injection A as <-. cbn [comp_items]. unfold field_types in *. cbn [map_res]. rewrite (IH fs' eq_refl).
    unfold c__SCSV_DEFAULT_TYPE. rewrite (py_get_type _ _ Af). cbn [bind]. unfold c_SCSV_TYPEMAP. cbn [py_getitem].
    rewrite typemap_dget. destruct (typemap (type_of f)); cbn [option_map bind]; [|reflexivity].
    destruct (map_res _ fs'); reflexivity.
Qed.

Lemma comp_names : forall l fs, abs_fields l = Some fs ->
  comp_items (fun v => py_getitem v (PStr "name")) l None
  = match raw_names l with Some ns => Ok ns | None => Err EKey end.
Proof.
  induction l as [|p r IH]; intros fs A; [reflexivity|]. cbn [abs_fields] in A.
  destruct (abs_field p) as [f|] eqn:Af; [|discriminate]. destruct (abs_fields r) as [fs'|] eqn:Ar; [|discriminate].
  destruct p as [| | | | | | | | kv | |]; try discriminate Af.
  cbn [comp_items raw_names raw_name py_getitem]. rewrite (IH fs' eq_refl). destruct (dget kv "name"); [|reflexivity].
  cbn [bind]. destruct (raw_names r); reflexivity.
Qed.

Theorem gen_save_columns_eq : forall kv l fs,
  dget kv "fields" = Some (PList l) -> abs_fields l = Some fs ->
  gen_save_scsv_columns (PDict kv) =
    match field_types fs with
    | Err e => Err e
    | Ok tfs => match raw_names l with
                | None => Err EKey
                | Some ns => Ok (PList (map raw_fill l), PList (map (fun tf => PType (fst tf)) tfs), PList ns)
                end
    end.
Proof.
  intros kv l fs Ef A. unfold gen_save_scsv_columns. cbn [py_getitem bind]. rewrite Ef. cbn [bind py_iter].
  unfold list_comp. cbn [fst snd].
  rewrite (comp_fills l fs A). cbn [bind]. rewrite (comp_types l fs A), (comp_names l fs A).
  destruct (field_types fs); [|reflexivity]. cbn [bind]. destruct (raw_names l); reflexivity.
Qed.


(* ---------------------------------------------------------------- read_scsv: schema names against the header row
   (next(reader) is a parameter of the block: the first row csv.reader yields) *)
Theorem gen_read_names_eq : forall kv l ns hdr file,
  dget kv "fields" = Some (PList l) -> raw_names l = Some (map PStr ns) ->
  gen_read_scsv_names O (PDict kv) (PList (map PStr hdr)) file
  = if list_str_eqb ns (map strip hdr) then Ok (PList (map PStr ns)) else Err SCSV.
Proof.
  intros kv l ns hdr file Ef N. unfold gen_read_scsv_names. cbn [py_getitem bind]. rewrite Ef. cbn [bind py_iter].
  unfold list_comp. cbn [fst snd].
  assert (C : forall l, comp_items (fun v => py_getitem v (PStr "name")) l None
              = match raw_names l with Some ns => Ok ns | None => match l with [] => Ok [] | _ => comp_items (fun v => py_getitem v (PStr "name")) l None end end).
  { clear. induction l as [|p r IH]; [reflexivity|]. cbn [raw_names]. destruct (raw_name p) as [n|] eqn:En; [|reflexivity].
    destruct (raw_names r) as [ns|] eqn:Er; [|reflexivity].
    destruct p as [| | | | | | | | kv | |]; try discriminate En. cbn [raw_name] in En.
    cbn [comp_items py_getitem]. rewrite En, IH. reflexivity. }
  rewrite C, N. cbn [bind].
  assert (S : forall hdr, comp_items (fun v => py_strip v) (map PStr hdr) None = Ok (map PStr (map strip hdr))).
  { clear. induction hdr as [|h r IH]; [reflexivity|]. cbn [map comp_items py_strip bind]. rewrite IH. reflexivity. }
  rewrite S. cbn [bind]. unfold py_eq. rewrite py_eqb_strs. cbn [lift_bool bind py_not py_truth].
  destruct (list_str_eqb ns (map strip hdr)); reflexivity.
Qed.

(* ---------------------------------------------------------------- read_scsv: coltypes / missingstr / fillvals *)
Theorem gen_read_columns_eq : forall kv l fs,
  dget kv "fields" = Some (PList l) -> abs_fields l = Some fs ->
  gen_read_scsv_columns (PDict kv) =
    match field_types fs with
    | Err e => Err e
    | Ok tfs => match dget kv "missing" with
                | None => Err EKey
                | Some m => Ok (PList (map (fun tf => PType (fst tf)) tfs), m, PList (map raw_fill l))
                end
    end.
Proof.
  intros kv l fs Ef A. unfold gen_read_scsv_columns. cbn [py_getitem bind]. rewrite Ef. cbn [bind py_iter].
  unfold list_comp. cbn [fst snd].
  rewrite (comp_types l fs A). destruct (field_types fs); [|reflexivity]. cbn [bind].
  destruct (dget kv "missing"); [|reflexivity]. cbn [bind]. rewrite (comp_fills l fs A). reflexivity.
Qed.

(* ---------------------------------------------------------------- save_scsv: the body of the row loop
   row = []; for i, (d, t, f) in enumerate(zip(col, types, fills, strict=True)): <parse check>; <substitution chain>
   for every row, every list of (type, fill) pairs, cells of all five kinds; the ValueError of zip(strict=True) is
   raised after the cells (as in Python) *)
Lemma py_str_cell : forall d, py_call1 O (PType TStr) (emb_cell d) = Ok (PStr (pystr O d)).
Proof. intros [s|z|f|b|re im]; reflexivity. Qed.

Lemma py_call1_fill : forall t f, not_complex f -> py_call1 O (PType t) f = lift_cell (conv O t (abs_yval f)).
Proof. intros t f NC. destruct f; try reflexivity. destruct NC. Qed.

Lemma np_isnan_cell : forall d, np_isnan (emb_cell d) = lift_bool (cell_isnan d).
Proof. intros [s|z|f|b|re im]; reflexivity. Qed.

Lemma py_eq_cells : forall a b, py_eq O (emb_cell a) (emb_cell b) = Ok (PBool (cell_eq O a b)).
Proof. intros [s|z|f|b|re im] [s'|z'|f'|b'|re' im']; reflexivity. Qed.

(* the value save_scsv appends to `row` for one cell (fill = the Python fill value of the field) *)
Definition cell_val (m : string) (t : ty) (fill : pyval) (d : cell) : res cell :=
  match parse_cell O t (pystr O d) m (abs_yval fill) with
  | Err EValue => Err SCSV                              (* except ValueError: raise SCSVError *)
  | Err e => Err e
  | Ok _ => sub <- substituted O t (abs_yval fill) d ;; Ok (if sub then CStr m else d)
  end.

Fixpoint row_vals (m : string) (tfs : list (ty * pyval)) (row : list cell) : res (list cell) :=
  match row, tfs with
  | [], [] => Ok []
  | d :: row', (t, f) :: tfs' => x <- cell_val m t f d ;; r <- row_vals m tfs' row' ;; Ok (x :: r)
  | _, _ => Err EValue                                   (* zip(strict=True) *)
  end.

Theorem gen_save_row_eq : forall kv m names tfs row,
  dget kv "missing" = Some (PStr m) -> Forall (fun tf => not_complex (snd tf)) tfs -> length names = length tfs ->
  gen_save_scsv_row O (PDict kv) (PList names) (PList (map (fun tf => PType (fst tf)) tfs)) (PList (map snd tfs))
                    (PTuple (map emb_cell row))
  = match row_vals m tfs row with Ok vs => Ok (PList (map emb_cell vs)) | Err e => Err e end.
Proof.
  intros kv m names tfs row Em NC Ln. unfold gen_save_scsv_row. cbn [bind py_zip_strict items_of py_iter fst snd].
  cbn [zip_fuel]. rewrite zipn3. cbn [py_enumerate bind fst snd]. unfold for_loop. cbn [fst snd].
  match goal with |- context [for_items ?b _ _ _] => set (body := b) end.
  assert (C : forall k d t f acc, k < length names -> not_complex f ->
     body (PTuple [PInt (Z.of_nat k); PTuple [emb_cell d; PType t; f]]) (PList acc)
     = match cell_val m t f d with Ok v => Ok (CNormal (PList (acc ++ [emb_cell v]))) | Err e => Err e end).
  { intros k d t f acc Hk NCf. unfold body. cbn [py_unpack2 seq_items bind py_unpack3].
    rewrite py_str_cell. cbn [bind py_getitem]. rewrite Em. cbn [bind].
    rewrite (gen_parse_cell_eq t _ m f NCf). unfold cell_val.
    destruct (nth_py_in names k Hk) as [nv Hn].
    destruct (parse_cell O t (pystr O d) m (abs_yval f)) as [c|e].
    - cbn [lift_cell bind py_try py_isinstance py_truth]. unfold substituted.
      destruct t; cbn [py_in py_inb mem_py py_eqb ty_eqb bind lift_bool py_truth py_and];
        rewrite ?np_isnan_cell, ?(py_call1_fill _ f NCf).
      all: try (match goal with |- context [conv O ?t (abs_yval ?g)] => destruct (conv O t (abs_yval g)) as [tf|ee] end).
      all: cbn [lift_cell lift_bool bind]; rewrite ?py_eq_cells;
           try (destruct (cell_isnan d) as [[|]|]); cbn [lift_cell lift_bool bind py_and py_truth]; rewrite ?np_isnan_cell;
           try (destruct (cell_isnan tf) as [[|]|]); cbn [lift_cell lift_bool bind py_and py_truth]; rewrite ?py_eq_cells;
           try (destruct (cell_eq O d tf)); cbn [lift_cell lift_bool bind py_and py_truth py_append emb_cell]; reflexivity.
    - cbn [lift_cell bind py_try]. destruct e; cbn [bind as_int py_getitem py_qualname]; rewrite ?Hn; reflexivity. }
  assert (L : forall row tfs k acc stop, Forall (fun tf => not_complex (snd tf)) tfs -> k + length tfs = length names ->
     stop = (if Nat.eqb (length tfs) (length row) then None else Some EValue) ->
     for_items body (enum_from (Z.of_nat k) (map PTuple (zip3 (map emb_cell row) (map (fun tf => PType (fst tf)) tfs) (map snd tfs))))
               stop (PList acc)
     = match row_vals m tfs row with Ok vs => Ok (inl (PList (acc ++ map emb_cell vs))) | Err e => Err e end).
  { clear - C. induction row as [|d row IH]; intros tfs k acc stop NC Lk Es.
    - destruct tfs as [|[t f] tfs]; subst stop; cbn; rewrite ?app_nil_r; reflexivity.
    - destruct tfs as [|[t f] tfs]; [subst stop; reflexivity|].
      cbn [map zip3 enum_from for_items row_vals fst snd length] in *. inversion NC as [|? ? NCf NC']; subst.
      rewrite C; [|lia|exact NCf]. destruct (cell_val m t f d) as [v|e]; [|reflexivity]. cbn [bind].
      replace (Z.of_nat k + 1)%Z with (Z.of_nat (S k)) by lia.
      rewrite (IH tfs (S k) (acc ++ [emb_cell v])%list _ NC'); [|lia|reflexivity].
      destruct (row_vals m tfs row); [|reflexivity]. cbn [bind map]. rewrite <- app_assoc. reflexivity. }
  change 0%Z with (Z.of_nat 0).
  rewrite (L row tfs 0 [] _ NC); [ | lia | ].
  2: { unfold all_same_length. cbn [forallb]. rewrite !map_length. destruct (Nat.eqb (length tfs) (length row)); reflexivity. }
  destruct (row_vals m tfs row); reflexivity.
Qed.

(* ... and these values, stringified as csv.writer does (str), inside save_scsv's outer `except ValueError`, are the
   row of the hand-written model *)
Lemma cell_val_model : forall m t f d,
  value_to_scsv (match cell_val m t f d with Ok v => Ok (pystr O v) | Err e => Err e end)
  = save_cell O m t (abs_yval f) d.
Proof.
  intros m t f d. unfold cell_val, save_cell.
  destruct (parse_cell O t (pystr O d) m (abs_yval f)) as [c|e]; [|destruct e; reflexivity].
  destruct (substituted O t (abs_yval f) d) as [[|]|e]; try reflexivity. destruct e; reflexivity.
Qed.

Theorem row_vals_model : forall m tfs row,
  value_to_scsv (match row_vals m tfs row with Ok vs => Ok (map (pystr O) vs) | Err e => Err e end)
  = save_row O m (map (fun tf => (fst tf, abs_yval (snd tf))) tfs) row.
Proof.
  intros m tfs row. revert tfs. induction row as [|d row IH]; intros [|[t f] tfs]; try reflexivity.
  cbn [row_vals save_row map fst snd]. rewrite <- cell_val_model, <- IH.
  destruct (cell_val m t f d) as [v|e]; [|destruct e; reflexivity]. cbn [bind value_to_scsv].
  destruct (row_vals m tfs row) as [vs|e]; [reflexivity|destruct e; reflexivity].
Qed.

(* ---------------------------------------------------------------- parse_scsv_schema (terse schemas)
   for EVERY string: the generated parser fails exactly when parse_terse fails (with the same exception), and
   otherwise returns a dictionary that stands for the schema parse_terse returns (the dictionary also carries
   the 'unit' key of a three-part spec, which the typed schema does not record) *)
Theorem gen_parse_terse_eq : forall t,
  match gen_parse_scsv_schema O (PStr t), parse_terse t with
  | Ok p, Ok s => abs_schema p = Some s
  | Err e, Err e' => e = e'
  | _, _ => False
  end.
Proof.
  intros t. unfold gen_parse_scsv_schema, parse_terse.
  cbn [py_startswith bind py_not py_truth].
  destruct (prefix "d" t) eqn:P; [rewrite (match_d_true _ t _ _ P)|rewrite (match_d_false _ t _ _ P); reflexivity].
  cbn [negb bind py_find one_char]. unfold find_from0.
  destruct (find_char ":" t (String.length t)) as [ic|] eqn:Fc; [|reflexivity].
  destruct (ascii_prefix t ic) eqn:Ap; cbn [negb]; [|reflexivity].
  cbn [bind py_lt int_op2 as_int]. change 4%Z with (Z.of_nat 4). rewrite ltb_of_nat. cbn [py_truth bind].
  destruct (Nat.ltb ic 4) eqn:L4; [reflexivity|]. cbn [bind py_find3 one_char].
  replace (Z.of_nat ic <? 0)%Z with false by (symmetry; apply Z.ltb_ge; lia). rewrite Nat2Z.id. unfold find_from0.
  destruct (find_char "m" t ic) as [im|] eqn:Fm; [|reflexivity].
  rewrite (ascii_prefix_le t ic im (Nat.lt_le_incl _ _ (find_char_lt _ _ _ _ Fm)) Ap).
  cbn [bind py_lt int_op2 as_int]. change 2%Z with (Z.of_nat 2). rewrite ltb_of_nat. cbn [py_truth bind].
  destruct (Nat.ltb im 2) eqn:L2; [reflexivity|]. cbn [bind].
  change 1%Z with (Z.of_nat 1). rewrite py_slice_str. cbn [bind py_add int_op2 as_int].
  replace (Z.of_nat im + Z.of_nat 1)%Z with (Z.of_nat (S im)) by lia.
  replace (Z.of_nat ic + Z.of_nat 1)%Z with (Z.of_nat (S ic)) by lia.
  rewrite py_slice_str. cbn [bind]. rewrite py_slice_str_end. cbn [bind py_re_split String.eqb Ascii.eqb Bool.eqb].
  replace (String.length t - S ic) with (String.length t - ic - 1) by lia.
  replace (ic - S im) with (ic - im - 1) by lia.
  set (raw := split_on is_paren (substring (S ic) (String.length t - ic - 1) t)).
  rewrite (py_pop_strs raw (split_on_nonempty _ _)). cbn [bind py_len]. rewrite map_length.
  set (cols := removelast raw).
  cbn [py_lt int_op2 as_int]. rewrite ltb_of_nat. cbn [py_truth bind].
  destruct (Nat.ltb (length cols) 2) eqn:Lc; [reflexivity|]. cbn [bind].
  cbn [py_mod int_op2 as_int Z.of_nat Pos.of_succ_nat Pos.succ Z.eqb bind].
  change (py_ne O (PInt (Z.of_nat (length cols) mod 2)) (PInt 0))
    with (Ok (A:=pyval) (PBool (negb (Z.of_nat (length cols) mod 2 =? 0)%Z))).
  rewrite even_mod2. cbn [bind py_truth].
  destruct (Nat.even (length cols)) eqn:Ev; cbn [negb]; [|reflexivity]. cbn [bind py_batched py_iter].
  unfold for_loop. cbn [fst snd].
  match goal with |- context [for_items ?b _ _ _] => set (body := b) end.
  assert (C : forall name spec acc,
     match body (PTuple [PStr name; PStr spec]) (PList acc), terse_field name spec with
     | Ok (CNormal (PList out)), Ok f => exists p, out = (acc ++ [p])%list /\ abs_field p = Some f
     | Err e, Err e' => e = e'
     | _, _ => False
     end).
  { clear. intros name spec acc. unfold body, terse_field. cbn [py_unpack2 seq_items bind py_split one_char].
    change (fun c : ascii => Ascii.eqb c ":"%char) with is_colon.
    destruct (split_on is_colon spec) as [|t0 rest] eqn:Es; [exfalso; exact (split_on_nonempty _ _ Es)|].
    cbn [map py_getitem as_int hd]. rewrite nth_py_0. cbn [bind]. rewrite py_ne_str. cbn [bind py_truth].
    assert (R : forall tn,
      match
        (t34 <- py_len (PList (PStr t0 :: map PStr rest));;
        t35 <- py_gt t34 (PInt 1);;
        b36 <- py_truth t35;;
        t37 <- (if b36 then nth_py (PStr t0 :: map PStr rest) 1 else Ok c__SCSV_DEFAULT_FILL);;
        t38 <- py_len (PList (PStr t0 :: map PStr rest));;
        t39 <- py_eq O t38 (PInt 3);;
        b40 <- py_truth t39;;
        c42 <-
        (if b40
         then
          t41 <- nth_py (PStr t0 :: map PStr rest) 2;;
          v_field <- py_setitem (PDict [("name", PStr name); ("type", PStr tn); ("fill", t37)]) (PStr "unit") t41;;
          Ok (CNormal v_field)
         else Ok (CNormal (PDict [("name", PStr name); ("type", PStr tn); ("fill", t37)])));;
        match c42 with
        | CNormal v_field => v_fields <- py_append (PList acc) v_field;; Ok (CNormal v_fields)
        | CReturn v => Ok (CReturn v)
        | CContinue l => Ok (CContinue l)
        | CBreak l => Ok (CBreak l)
        end : res (ctl pyval pyval))
      with
      | Ok (CNormal (PList out)) => exists p, out = (acc ++ [p])%list /\
           abs_field p = Some {| fname := Some (YStr name); ftype := Some tn;
                                 ffill := Some match rest with [] => default_fill | f :: _ => YStr f end |}
      | _ => False
      end).
    { intro tn. cbn [py_len bind]. change 1%Z with (Z.of_nat 1). change 2%Z with (Z.of_nat 2). change 3%Z with (Z.of_nat 3).
      rewrite py_gt_nat, py_eq_nat. cbn [bind py_truth].
      destruct rest as [|f1 [|u [|w more]]]; cbn [map length Nat.ltb Nat.leb Nat.eqb bind];
        rewrite ?nth_py_nth by (cbn [length]; lia); cbn [nth bind py_setitem dset String.eqb Ascii.eqb Bool.eqb py_append];
        (eexists; split; [reflexivity|reflexivity]). }
    destruct (String.eqb t0 ""); cbn [negb bind].
    - exact (R default_type).
    - unfold c_SCSV_TERSEMAP. cbn [py_getitem]. rewrite tersemap_dget.
      destruct (tersemap t0) as [tn|]; cbn [option_map bind py_try]; [exact (R tn)|reflexivity]. }
  assert (L : forall cols, Nat.even (length cols) = true -> forall acc fsacc, abs_fields acc = Some fsacc ->
     match for_items body (batched2 (map PStr cols)) None (PList acc), terse_fields cols with
     | Ok (inl (PList out)), Ok fs => abs_fields out = Some (fsacc ++ fs)%list
     | Err e, Err e' => e = e'
     | _, _ => False
     end).
  { clear - C. intro cols. induction cols as [| a | a b r IH] using list_pair_ind; intros Ev acc fsacc A.
    - cbn. rewrite app_nil_r. exact A.
    - discriminate Ev.
    - cbn [map batched2 for_items terse_fields]. specialize (C a b acc).
      destruct (body (PTuple [PStr a; PStr b]) (PList acc)) as [[st|v|l|l]|e]; destruct (terse_field a b) as [f|e'];
        try contradiction; try (destruct st; contradiction).
      + destruct st as [| | | | | | out | | | |]; try contradiction. destruct C as [p [-> Ap]]. cbn [bind].
        assert (A' : abs_fields (acc ++ [p]) = Some (fsacc ++ [f])%list).
        { apply abs_fields_app; [exact A|]. cbn [abs_fields]. rewrite Ap. reflexivity. }
        specialize (IH Ev (acc ++ [p])%list (fsacc ++ [f])%list A').
        destruct (for_items body (batched2 (map PStr r)) None (PList (acc ++ [p]))) as [[st|v]|e]; destruct (terse_fields r) as [fs|e'];
          try contradiction; try (destruct st; contradiction); cbn [bind].
        * destruct st; try contradiction. rewrite <- app_assoc in IH. exact IH.
        * exact IH.
      + cbn [bind]. exact C. }
  specialize (L cols Ev [] [] eq_refl).
  destruct (for_items body (batched2 (map PStr cols)) None (PList [])) as [[st|v]|e]; destruct (terse_fields cols) as [fs|e'];
    try contradiction; try (destruct st; contradiction); cbn [bind run_fn].
  - destruct st as [| | | | | | out | | | |]; try contradiction. cbn [app] in L.
    unfold abs_schema. cbn [dget String.eqb Ascii.eqb Bool.eqb opt_str]. rewrite L. reflexivity.
  - exact L.
Qed.

(* ---------------------------------------------------------------- _yaml_quote
   for every string: the generated function is the quoting function the header theorems (exact invertibility for
   every string / alphabet / code point) are about *)
Theorem gen_yaml_quote_eq : forall s, gen__yaml_quote O (PStr s) = Ok (PStr (yaml_quote s)).
Proof.
  intro s. unfold gen__yaml_quote, yaml_quote, quote.
  change (py_call1 O (PType TStr) (PStr s)) with (Ok (A:=pyval) (PStr s)).
  cbn [bind py_replace one_char py_add run_fn]. rewrite replace_apostrophe.
  cbn [string_of_list_ascii]. rewrite string_of_list_ascii_app. reflexivity.
Qed.

End Inst.
