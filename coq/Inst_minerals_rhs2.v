(* Inst_minerals_rhs2.v -- instance lemmas for the generated eval_rhs closures at n_grains = 2
   (see Inst_minerals.v): every generated k_eval_rhs_n2_a<assemblage> coincides with
   Model_minerals.rhs on the corresponding lists. *)
From Coq Require Import Reals ZArith List Bool Lra Lia.
From PV Require Import Num NumR Model_core Model_minerals Inst_core Inst_minerals.
From PV.gen Require Import Gen_core Gen_minerals.
Import ListNotations.
Open Scope R_scope.

Lemma eval_rhs_inst_2_a0 : rhs_stmt (@k_eval_rhs_n2_a0 NumR) 2 [0]%Z 1.
Proof. unfold rhs_stmt, k_eval_rhs_n2_a0. rhs_2. Qed.
Lemma eval_rhs_inst_2_a1 : rhs_stmt (@k_eval_rhs_n2_a1 NumR) 2 [1]%Z 1.
Proof. unfold rhs_stmt, k_eval_rhs_n2_a1. rhs_2. Qed.
Lemma eval_rhs_inst_2_a01 : rhs_stmt (@k_eval_rhs_n2_a01 NumR) 2 [0; 1]%Z 2.
Proof. unfold rhs_stmt, k_eval_rhs_n2_a01. rhs_2. Qed.
Lemma eval_rhs_inst_2_a10 : rhs_stmt (@k_eval_rhs_n2_a10 NumR) 2 [1; 0]%Z 2.
Proof. unfold rhs_stmt, k_eval_rhs_n2_a10. rhs_2. Qed.
