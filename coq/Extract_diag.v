(* Extract_diag.v -- extraction of the diagnostics model to OCaml (ExtrOcamlBasic only). *)
From Coq Require Import Extraction ExtrOcamlBasic.
From PV Require Import Num Model_diag Entry_diag.
Extraction Language OCaml.
Extraction "model_diag.ml" run_scatter run_pgr run_coaxial run_bingham run_lcg run_fse run_fse_angle run_session.
