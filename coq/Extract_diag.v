(* Extract_diag.v -- extraction of the diagnostics model to OCaml (ExtrOcamlBasic only). *)
From Coq Require Import Extraction ExtrOcamlBasic.
From PV Require Import Num Model_diag Entry_diag.
Extraction Language OCaml.
Extraction "model_diag.ml" run_scatter run_pgr run_coaxial run_bingham run_lcg run_fse run_fse_angle run_session run_fse_session run_smallest_angle
  run_gen_scatter run_gen_pgr run_gen_coaxial run_gen_bingham run_gen_default run_gen_fse run_gen_lcg run_gen_angle run_gen_fse_angle.
