(* Proofs_frame2.v -- C04: frame indifference transferred to the generated kernel and to
   aggregates of any size. *)
From Coq Require Import Reals ZArith List Bool Lra Lia.
From PV Require Import Num NumR Model_core Spec_drex Proofs_core Proofs_total Proofs_spec Proofs_frame.
From PV.gen Require Import Gen_core.
Import ListNotations.
Open Scope R_scope.

Definition rotQ (Q : arr R) (o : arr R) : arr R := mm o (tp Q).     (* o Q^T *)

Theorem kernel_frame ph fb (Q A D L : arr R) p n lam :
  valid_pair ph fb -> n <> 0 -> SO3 Q ->
  frame_related Q (@k_get_rotation_and_strain NumR ph fb A D L p n lam)
                  (@k_get_rotation_and_strain NumR ph fb (rotQ Q A) (conj Q D) (conj Q L) p n lam).
Proof.
  intros Hv Hn HQ. rewrite !(grain_eq_spec ph fb) by assumption. apply spec_grain_frame. exact HQ.
Qed.

Definition rates_related (Q : arr R) (Ad Ad' : arr R) : Prop :=
  forall k, (k < 9)%nat -> Ad' k = mm Ad (tp Q) k.

Definition grains_related (Q : arr R) (r r' : res (list (arr R * R))) : Prop :=
  match r, r' with
  | Ok rs, Ok rs' => map snd rs' = map snd rs /\ Forall2 (rates_related Q) (map fst rs) (map fst rs')
  | Err e, Err e' => e = e'
  | _, _ => False
  end.

Lemma grains_frame ph fb (Q D L : arr R) p n lam os :
  valid_pair ph fb -> n <> 0 -> SO3 Q ->
  grains_related Q (@grains NumR ph fb os D L p n lam)
                   (@grains NumR ph fb (map (rotQ Q) os) (conj Q D) (conj Q L) p n lam).
Proof.
  intros Hv Hn HQ. induction os as [|o os IH]; cbn [grains map].
  - split; [reflexivity|constructor].
  - pose proof (kernel_frame ph fb Q o D L p n lam Hv Hn HQ) as Hk. unfold frame_related in Hk.
    destruct (@k_get_rotation_and_strain NumR ph fb o D L p n lam) as [[Ad E]|e];
    destruct (@k_get_rotation_and_strain NumR ph fb (rotQ Q o) (conj Q D) (conj Q L) p n lam) as [[Ad' E']|e'];
    try contradiction; [|cbn; exact Hk].
    destruct Hk as [HE HA]. unfold grains_related in IH.
    destruct (@grains NumR ph fb os D L p n lam) as [rs|e];
    destruct (@grains NumR ph fb (map (rotQ Q) os) (conj Q D) (conj Q L) p n lam) as [rs'|e'];
    try contradiction; [|cbn; exact IH].
    destruct IH as [IH1 IH2]. cbn [grains_related map fst snd]. split.
    + rewrite HE, IH1. reflexivity.
    + constructor; assumption.
Qed.

Lemma scale9_related Q c Ad Ad' : rates_related Q Ad Ad' ->
  rates_related Q (@scale9 NumR c Ad) (@scale9 NumR c Ad').
Proof.
  intros H k Hk.
  pose proof (H 0%nat ltac:(lia)) as H0; pose proof (H 1%nat ltac:(lia)) as H1;
  pose proof (H 2%nat ltac:(lia)) as H2; pose proof (H 3%nat ltac:(lia)) as H3;
  pose proof (H 4%nat ltac:(lia)) as H4; pose proof (H 5%nat ltac:(lia)) as H5;
  pose proof (H 6%nat ltac:(lia)) as H6; pose proof (H 7%nat ltac:(lia)) as H7;
  pose proof (H 8%nat ltac:(lia)) as H8.
  do 9 (destruct k as [|k];
        [cbv [scale9 mm tp mk_arr nth Nat.add Nat.mul] in *; numR;
         rewrite ?H0, ?H1, ?H2, ?H3, ?H4, ?H5, ?H6, ?H7, ?H8; ring|]). lia.
Qed.

Definition derivs_related (Q : arr R) (r r' : res (list (arr R) * list R)) : Prop :=
  match r, r' with
  | Ok (Ads, fds), Ok (Ads', fds') => fds' = fds /\ Forall2 (rates_related Q) Ads Ads'
  | Err e, Err e' => e = e'
  | _, _ => False
  end.

(* C04: rotating the frame (L -> Q L Q^T, D -> Q D Q^T, A -> A Q^T) rotates every orientation
   rate (Ad -> Ad Q^T) and leaves every volume rate IDENTICAL -- any number of grains *)
Theorem derivs_frame regime ph fb (Q D L S : arr R) os fs p n lam M phi :
  dislocation_regime regime -> valid_pair ph fb -> n <> 0 -> SO3 Q ->
  derivs_related Q (@derivs NumR regime ph fb os fs D L S p n lam M phi)
                   (@derivs NumR regime ph fb (map (rotQ Q) os) fs (conj Q D) (conj Q L) S p n lam M phi).
Proof.
  intros Hr Hv Hn HQ. pose proof (grains_frame ph fb Q D L p n lam os Hv Hn HQ) as Hg.
  unfold grains_related in Hg.
  destruct Hr as [-> | ->]; cbn [derivs Z.eqb Pos.eqb];
  destruct (@grains NumR ph fb os D L p n lam) as [rs|e];
  destruct (@grains NumR ph fb (map (rotQ Q) os) (conj Q D) (conj Q L) p n lam) as [rs'|e'];
  try contradiction; try exact Hg; destruct Hg as [Hg1 Hg2]; cbn [derivs_related]; (split; [f_equal; exact Hg1|]).
  - exact Hg2.
  - clear Hg1. revert Hg2. generalize rs'. induction rs as [|r rs IH]; intros [|r' rs2] H; cbn [map] in *;
    inversion H; subst; constructor; [apply scale9_related; assumption | apply IH; assumption].
Qed.

(* non-vacuity: a non-trivial rational rotation *)
Definition Qex : arr R := mk_arr 0 [2/3; -1/3; 2/3; 2/3; 2/3; -1/3; -1/3; 2/3; 2/3].
Lemma Qex_SO3 : SO3 Qex.
Proof. constructor; cbv [Qex mk_arr nth]; lra. Qed.

Lemma C04_nonvacuous_proof : SO3 Qex /\ Qex 1%nat <> 0.
Proof. split; [exact Qex_SO3 | cbv [Qex mk_arr nth]; lra]. Qed.
