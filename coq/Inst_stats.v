(* Inst_stats.v -- kernel-checked instance lemmas for pydrex.stats.resample_orientations (tie T).

   coq/gen/Gen_stats.v is regenerated from the current source on every run by
   translator/specs_stats.py: the PUBLIC function is executed on symbolic arrays at
   N snapshots x M grains = 1x1, 1x2, 1x3, 2x2 with n_samples = 1..3 (and with n_samples / seed
   omitted), np.argsort and Generator.random being oracles (symbolic permutation codes `perm_i`,
   symbolic variates `u`), and its shape test alone on symbolic dimensions for every pair of ranks.
   The lemmas below state that each generated definition coincides with the hand-written model
   Model_stats.resample (variant `faithful`) for ALL inputs of the right length and all sort
   permutations.  An edit of the source changes Gen_stats.v and one of these proofs stops compiling. *)
From Coq Require Import Reals ZArith List Bool Lra Lia Permutation.
From PV Require Import Num NumR Model_stats Proofs_stats.
From PV.gen Require Import Gen_stats.
Import ListNotations.
Open Scope R_scope.

Notation RL := (list R).
Notation A := (@mk_arr R 0).

(* decimal digit code of an index list: [1; 0; 2] -> 102 (how the translator names a permutation) *)
Definition perm_code (p : list nat) : Z := fold_left (fun acc d => (10 * acc + Z.of_nat d)%Z) p 0%Z.

(* row-major flat data -> nested lists *)
Fixpoint chunks {X} (k n : nat) (l : list X) : list (list X) :=
  match n with O => [] | S n' => firstn k l :: chunks k n' (skipn k l) end.
Definition rows (N M : nat) (f : RL) : list RL := chunks M N f.
Definition grains (N M : nat) (o : RL) : list (list RL) := map (chunks 9 M) (chunks (9 * M) N o).

Definition pack (r : res (list (list RL) * list RL)) : res (arr R * arr R) :=
  match r with
  | Ok (oo, ff) => Ok (A (concat (concat oo)), A (concat ff))
  | Err e => Err e
  end.

(* the model on flat data: orientations are 9-lists; the sort permutation of snapshot i is pis[i],
   the i-th draw of the generator is row i of u (N x n) when n variates are requested (nothing
   otherwise: the equalities below therefore also say that the model asks for n = n_samples) *)
Definition model (N M : nat) (ns : option Z) (n : nat) (pis : list (list nat)) (o f u : RL)
  : res (list (list RL) * list RL) :=
  @resample NumR RL (fun i _ => nth i pis [])
            (fun i k => if (k =? n)%nat then nth i (rows N n u) [] else []) faithful
            [N; M; 3; 3]%nat [N; M] (grains N M o) (rows N M f) ns.

(* what is proved of a generated definition g (arguments re-ordered into a uniform shape) *)
Definition inst_stmt (N M : nat) (ns : option Z) (n : nat)
           (g : list (list nat) -> RL -> RL -> RL -> res (arr R * arr R)) : Prop :=
  forall pis o f u,
    length pis = N -> Forall (is_perm M) pis ->
    length o = (N * M * 9)%nat -> length f = (N * M)%nat -> length u = (N * n)%nat ->
    g pis o f u = pack (model N M ns n pis o f u).

(* ---------------------------------------------------------------------------------------- *)
(* tactics                                                                                  *)
(* ---------------------------------------------------------------------------------------- *)
Ltac explode l H :=
  repeat (destruct l as [|? l]; [ cbn in H; discriminate H | ]);
  destruct l; [ clear H | cbn in H; discriminate H ].

Lemma is_perm_1 pi : is_perm 1 pi -> pi = [0%nat].
Proof. intros H. apply Permutation_sym, Permutation_length_1_inv in H. exact H. Qed.

Lemma is_perm_2 pi : is_perm 2 pi -> pi = [0; 1]%nat \/ pi = [1; 0]%nat.
Proof. intros H. apply Permutation_sym, Permutation_length_2_inv in H. exact H. Qed.

Lemma is_perm_3 pi : is_perm 3 pi ->
  pi = [0;1;2]%nat \/ pi = [0;2;1]%nat \/ pi = [1;0;2]%nat \/ pi = [1;2;0]%nat \/ pi = [2;0;1]%nat \/ pi = [2;1;0]%nat.
Proof.
  intros H. pose proof (Permutation_length H) as L. cbn in L.
  destruct pi as [|a [|b [|c [|]]]]; try discriminate L.
  assert (Ha : In a [0;1;2]%nat) by (apply (Permutation_in _ H); left; reflexivity).
  assert (Hb : In b [0;1;2]%nat) by (apply (Permutation_in _ H); right; left; reflexivity).
  assert (Hc : In c [0;1;2]%nat) by (apply (Permutation_in _ H); right; right; left; reflexivity).
  assert (ND : NoDup [a; b; c]) by (apply (Permutation_NoDup (Permutation_sym H)); apply seq_NoDup).
  inversion ND as [|? ? N1 ND']; subst. inversion ND' as [|? ? N2 _]; subst.
  cbn in Ha, Hb, Hc, N1, N2.
  destruct Ha as [<-|[<-|[<-|[]]]]; destruct Hb as [<-|[<-|[<-|[]]]]; destruct Hc as [<-|[<-|[<-|[]]]];
    try (exfalso; apply N1; auto; fail); try (exfalso; apply N2; auto; fail); tauto.
Qed.

(* every comparison of reals in the goal, innermost first *)
Ltac cases_cmp :=
  repeat match goal with
  | |- context [Rltb ?a ?b] => destruct (Rltb a b) eqn:?; cbv beta iota
  end.

Ltac run_both g :=
  unfold g, inst_stmt, model, pack;
  cbv -[Rltb Rleb Reqb Rplus Rminus Rmult Rdiv Ropp IZR].

(* split the hypothesis Forall (is_perm M) [p0; ...] into the M! cases of each permutation *)
Ltac perm_cases Hp :=
  repeat match type of Hp with
  | Forall _ (_ :: _) =>
      let H := fresh "Hperm" in
      pose proof (Forall_inv Hp) as H; apply Forall_inv_tail in Hp;
      first [ apply is_perm_1 in H; subst
            | apply is_perm_2 in H; destruct H as [-> | ->]
            | apply is_perm_3 in H; destruct H as [-> | [-> | [-> | [-> | [-> | ->]]]]] ]
  end; clear Hp.

Ltac inst_tac g :=
  let pis := fresh "pis" in let o := fresh "o" in let f := fresh "f" in let u := fresh "u" in
  let Hn := fresh in let Hp := fresh in let Ho := fresh in let Hf := fresh in let Hu := fresh in
  intros pis o f u Hn Hp Ho Hf Hu;
  explode pis Hn; explode o Ho; explode f Hf; explode u Hu;
  perm_cases Hp;
  run_both g; cases_cmp;
  first [ reflexivity
        | fail 1 "the definition regenerated from pydrex.stats.resample_orientations differs from Model_stats.resample (faithful) on some path" ].

(* ---------------------------------------------------------------------------------------- *)
(* the shape test, symbolic dimensions, every pair of ranks                                  *)
(* ---------------------------------------------------------------------------------------- *)
(* `Ok 0` stands for "the function got past the test" (it reached np.random.default_rng) *)
Definition validate_model (so sf : list nat) : res R :=
  if shape_bad so sf then Err ValueError else Ok 0.

Notation zn := Z.of_nat.
Notation d0 l k := (Z.of_nat (nth k l 0%nat)).

Ltac validate_tac g so sf :=
  let Ho := fresh in let Hf := fresh in
  intros Ho Hf; explode so Ho; explode sf Hf;
  unfold g, validate_model, shape_bad; cbn [length nth Nat.eqb negb orb];
  repeat match goal with
  | |- context [Z.eqb ?x ?y] => destruct (Z.eqb_spec x y)
  | |- context [Nat.eqb ?x ?y] => destruct (Nat.eqb_spec x y)
  end; cbn [negb orb];
  first [ reflexivity | exfalso; lia
        | fail 1 "the shape test regenerated from pydrex.stats.resample_orientations differs from Model_stats.shape_bad" ].

Lemma validate_inst_o0_f0 (so sf : list nat) : length so = 0%nat -> length sf = 0%nat ->
  @k_validate_o0_f0 NumR  = validate_model so sf.
Proof. validate_tac @k_validate_o0_f0 so sf. Qed.
Lemma validate_inst_o0_f1 (so sf : list nat) : length so = 0%nat -> length sf = 1%nat ->
  @k_validate_o0_f1 NumR (d0 sf 0) = validate_model so sf.
Proof. validate_tac @k_validate_o0_f1 so sf. Qed.
Lemma validate_inst_o0_f2 (so sf : list nat) : length so = 0%nat -> length sf = 2%nat ->
  @k_validate_o0_f2 NumR (d0 sf 0) (d0 sf 1) = validate_model so sf.
Proof. validate_tac @k_validate_o0_f2 so sf. Qed.
Lemma validate_inst_o0_f3 (so sf : list nat) : length so = 0%nat -> length sf = 3%nat ->
  @k_validate_o0_f3 NumR (d0 sf 0) (d0 sf 1) (d0 sf 2) = validate_model so sf.
Proof. validate_tac @k_validate_o0_f3 so sf. Qed.
Lemma validate_inst_o1_f0 (so sf : list nat) : length so = 1%nat -> length sf = 0%nat ->
  @k_validate_o1_f0 NumR (d0 so 0) = validate_model so sf.
Proof. validate_tac @k_validate_o1_f0 so sf. Qed.
Lemma validate_inst_o1_f1 (so sf : list nat) : length so = 1%nat -> length sf = 1%nat ->
  @k_validate_o1_f1 NumR (d0 so 0) (d0 sf 0) = validate_model so sf.
Proof. validate_tac @k_validate_o1_f1 so sf. Qed.
Lemma validate_inst_o1_f2 (so sf : list nat) : length so = 1%nat -> length sf = 2%nat ->
  @k_validate_o1_f2 NumR (d0 so 0) (d0 sf 0) (d0 sf 1) = validate_model so sf.
Proof. validate_tac @k_validate_o1_f2 so sf. Qed.
Lemma validate_inst_o1_f3 (so sf : list nat) : length so = 1%nat -> length sf = 3%nat ->
  @k_validate_o1_f3 NumR (d0 so 0) (d0 sf 0) (d0 sf 1) (d0 sf 2) = validate_model so sf.
Proof. validate_tac @k_validate_o1_f3 so sf. Qed.
Lemma validate_inst_o2_f0 (so sf : list nat) : length so = 2%nat -> length sf = 0%nat ->
  @k_validate_o2_f0 NumR (d0 so 0) (d0 so 1) = validate_model so sf.
Proof. validate_tac @k_validate_o2_f0 so sf. Qed.
Lemma validate_inst_o2_f1 (so sf : list nat) : length so = 2%nat -> length sf = 1%nat ->
  @k_validate_o2_f1 NumR (d0 so 0) (d0 so 1) (d0 sf 0) = validate_model so sf.
Proof. validate_tac @k_validate_o2_f1 so sf. Qed.
Lemma validate_inst_o2_f2 (so sf : list nat) : length so = 2%nat -> length sf = 2%nat ->
  @k_validate_o2_f2 NumR (d0 so 0) (d0 so 1) (d0 sf 0) (d0 sf 1) = validate_model so sf.
Proof. validate_tac @k_validate_o2_f2 so sf. Qed.
Lemma validate_inst_o2_f3 (so sf : list nat) : length so = 2%nat -> length sf = 3%nat ->
  @k_validate_o2_f3 NumR (d0 so 0) (d0 so 1) (d0 sf 0) (d0 sf 1) (d0 sf 2) = validate_model so sf.
Proof. validate_tac @k_validate_o2_f3 so sf. Qed.
Lemma validate_inst_o3_f0 (so sf : list nat) : length so = 3%nat -> length sf = 0%nat ->
  @k_validate_o3_f0 NumR (d0 so 0) (d0 so 1) (d0 so 2) = validate_model so sf.
Proof. validate_tac @k_validate_o3_f0 so sf. Qed.
Lemma validate_inst_o3_f1 (so sf : list nat) : length so = 3%nat -> length sf = 1%nat ->
  @k_validate_o3_f1 NumR (d0 so 0) (d0 so 1) (d0 so 2) (d0 sf 0) = validate_model so sf.
Proof. validate_tac @k_validate_o3_f1 so sf. Qed.
Lemma validate_inst_o3_f2 (so sf : list nat) : length so = 3%nat -> length sf = 2%nat ->
  @k_validate_o3_f2 NumR (d0 so 0) (d0 so 1) (d0 so 2) (d0 sf 0) (d0 sf 1) = validate_model so sf.
Proof. validate_tac @k_validate_o3_f2 so sf. Qed.
Lemma validate_inst_o3_f3 (so sf : list nat) : length so = 3%nat -> length sf = 3%nat ->
  @k_validate_o3_f3 NumR (d0 so 0) (d0 so 1) (d0 so 2) (d0 sf 0) (d0 sf 1) (d0 sf 2) = validate_model so sf.
Proof. validate_tac @k_validate_o3_f3 so sf. Qed.
Lemma validate_inst_o4_f0 (so sf : list nat) : length so = 4%nat -> length sf = 0%nat ->
  @k_validate_o4_f0 NumR (d0 so 0) (d0 so 1) (d0 so 2) (d0 so 3) = validate_model so sf.
Proof. validate_tac @k_validate_o4_f0 so sf. Qed.
Lemma validate_inst_o4_f1 (so sf : list nat) : length so = 4%nat -> length sf = 1%nat ->
  @k_validate_o4_f1 NumR (d0 so 0) (d0 so 1) (d0 so 2) (d0 so 3) (d0 sf 0) = validate_model so sf.
Proof. validate_tac @k_validate_o4_f1 so sf. Qed.
Lemma validate_inst_o4_f2 (so sf : list nat) : length so = 4%nat -> length sf = 2%nat ->
  @k_validate_o4_f2 NumR (d0 so 0) (d0 so 1) (d0 so 2) (d0 so 3) (d0 sf 0) (d0 sf 1) = validate_model so sf.
Proof. validate_tac @k_validate_o4_f2 so sf. Qed.
Lemma validate_inst_o4_f3 (so sf : list nat) : length so = 4%nat -> length sf = 3%nat ->
  @k_validate_o4_f3 NumR (d0 so 0) (d0 so 1) (d0 so 2) (d0 so 3) (d0 sf 0) (d0 sf 1) (d0 sf 2) = validate_model so sf.
Proof. validate_tac @k_validate_o4_f3 so sf. Qed.
Lemma validate_inst_o5_f0 (so sf : list nat) : length so = 5%nat -> length sf = 0%nat ->
  @k_validate_o5_f0 NumR (d0 so 0) (d0 so 1) (d0 so 2) (d0 so 3) (d0 so 4) = validate_model so sf.
Proof. validate_tac @k_validate_o5_f0 so sf. Qed.
Lemma validate_inst_o5_f1 (so sf : list nat) : length so = 5%nat -> length sf = 1%nat ->
  @k_validate_o5_f1 NumR (d0 so 0) (d0 so 1) (d0 so 2) (d0 so 3) (d0 so 4) (d0 sf 0) = validate_model so sf.
Proof. validate_tac @k_validate_o5_f1 so sf. Qed.
Lemma validate_inst_o5_f2 (so sf : list nat) : length so = 5%nat -> length sf = 2%nat ->
  @k_validate_o5_f2 NumR (d0 so 0) (d0 so 1) (d0 so 2) (d0 so 3) (d0 so 4) (d0 sf 0) (d0 sf 1) = validate_model so sf.
Proof. validate_tac @k_validate_o5_f2 so sf. Qed.
Lemma validate_inst_o5_f3 (so sf : list nat) : length so = 5%nat -> length sf = 3%nat ->
  @k_validate_o5_f3 NumR (d0 so 0) (d0 so 1) (d0 so 2) (d0 so 3) (d0 so 4) (d0 sf 0) (d0 sf 1) (d0 sf 2) = validate_model so sf.
Proof. validate_tac @k_validate_o5_f3 so sf. Qed.

(* ---------------------------------------------------------------------------------------- *)
(* the whole function: 1 x 1 and 1 x 2                                                       *)
(* ---------------------------------------------------------------------------------------- *)
Notation p0 pis := (perm_code (nth 0 pis [])).
Notation p1 pis := (perm_code (nth 1 pis [])).

Lemma resample_inst_N1_M1_n1 :
  inst_stmt 1 1 (Some 1%Z) 1 (fun pis o f u => @k_resample_N1_M1_n1 NumR (A o) (A f) (A u) (p0 pis)).
Proof. inst_tac @k_resample_N1_M1_n1. Qed.
Lemma resample_inst_N1_M1_n2 :
  inst_stmt 1 1 (Some 2%Z) 2 (fun pis o f u => @k_resample_N1_M1_n2 NumR (A o) (A f) (A u) (p0 pis)).
Proof. inst_tac @k_resample_N1_M1_n2. Qed.
Lemma resample_inst_N1_M1_n3 :
  inst_stmt 1 1 (Some 3%Z) 3 (fun pis o f u => @k_resample_N1_M1_n3 NumR (A o) (A f) (A u) (p0 pis)).
Proof. inst_tac @k_resample_N1_M1_n3. Qed.
Lemma resample_inst_N1_M1_default :
  inst_stmt 1 1 None 1 (fun pis o f u => @k_resample_N1_M1_default NumR (A o) (A f) (A u) (p0 pis)).
Proof. inst_tac @k_resample_N1_M1_default. Qed.
Lemma resample_inst_N1_M2_n1 :
  inst_stmt 1 2 (Some 1%Z) 1 (fun pis o f u => @k_resample_N1_M2_n1 NumR (A o) (A f) (A u) (p0 pis)).
Proof. inst_tac @k_resample_N1_M2_n1. Qed.
Lemma resample_inst_N1_M2_n2 :
  inst_stmt 1 2 (Some 2%Z) 2 (fun pis o f u => @k_resample_N1_M2_n2 NumR (A o) (A f) (A u) (p0 pis)).
Proof. inst_tac @k_resample_N1_M2_n2. Qed.
Lemma resample_inst_N1_M2_n3 :
  inst_stmt 1 2 (Some 3%Z) 3 (fun pis o f u => @k_resample_N1_M2_n3 NumR (A o) (A f) (A u) (p0 pis)).
Proof. inst_tac @k_resample_N1_M2_n3. Qed.
Lemma resample_inst_N1_M2_default :
  inst_stmt 1 2 None 2 (fun pis o f u => @k_resample_N1_M2_default NumR (A o) (A f) (A u) (p0 pis)).
Proof. inst_tac @k_resample_N1_M2_default. Qed.
(* n_samples = -1: np.empty raises ValueError before any other work *)
Lemma resample_inst_N1_M2_neg (o f : RL) : length o = 18%nat -> length f = 2%nat ->
  @k_resample_N1_M2_neg NumR (A o) (A f) = pack (model 1 2 (Some (-1)%Z) 0 [] o f []).
Proof. intros Ho Hf. explode o Ho. explode f Hf. reflexivity. Qed.
