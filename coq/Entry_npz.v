(* Entry_npz.v -- integer-token entry point of the archive model (group `npz`), used by
   the extracted OCaml driver for the C17 correspondence run.

   input  tokens:  sets_n nops op*
     op      ::= 0 string pf mineral      Mineral.save(filename, postfix)
               | 1 string pf n            Mineral.load into an object with n_grains = n
               | 2 string pf              Mineral.from_file
     string  ::= len c_1 .. c_len         (character codes)
     pf      ::= -1 | string              (None | postfix)
     mineral ::= phase fabric regime n_grains  nF arr*  nO arr*
     arr     ::= aid rank dim_1 .. dim_rank len      element i is the code aid*65536+i
   output tokens, one group per op:
     save        0 string(target file) nmembers string*   |  1 errcode
     load/from   0 phase fabric regime n_grains nF arrout* nO arrout*  |  1 errcode
     arrout  ::= rank dim* len elem*
   Array elements are opaque codes: the model is parametric in the element type, so the
   harness maps codes back to the bytes of the arrays it saved.  Blobs are the payloads
   themselves (npy = identity): the NPY layer is an oracle checked separately. *)
From Coq Require Import ZArith List Bool String Ascii Arith.
From PV Require Import Num Model_npz.
Import ListNotations.

Definition P (A : Type) := list Z -> option (A * list Z).

Definition pz : P Z := fun t => match t with x :: r => Some (x, r) | [] => None end.
Definition pnat : P nat := fun t =>
  match t with
  | x :: r => if (x <? 0)%Z then None else Some (Z.to_nat x, r)
  | [] => None
  end.
Fixpoint prep {A} (p : P A) (n : nat) : P (list A) := fun t =>
  match n with
  | O => Some ([], t)
  | S n' =>
      match p t with
      | None => None
      | Some (a, t1) =>
          match prep p n' t1 with
          | None => None
          | Some (l, t2) => Some (a :: l, t2)
          end
      end
  end.
Definition pbind {A B} (p : P A) (f : A -> P B) : P B := fun t =>
  match p t with None => None | Some (a, t1) => f a t1 end.
Definition pret {A} (a : A) : P A := fun t => Some (a, t).

Definition pchar : P ascii := pbind pnat (fun n => pret (ascii_of_nat n)).
Fixpoint string_of_chars (l : list ascii) : string :=
  match l with [] => EmptyString | c :: r => String c (string_of_chars r) end.
Definition pstring : P string :=
  pbind pnat (fun n => pbind (prep pchar n) (fun l => pret (string_of_chars l))).
Definition ppf : P (option string) := fun t =>
  match t with
  | x :: r => if (x =? -1)%Z then Some (None, r)
              else pbind pstring (fun s => pret (Some s)) t
  | [] => None
  end.

Definition parr : P (nda Z) :=
  pbind pz (fun aid => pbind pnat (fun rank => pbind (prep pnat rank) (fun dims =>
  pbind pnat (fun len =>
  pret (mk_nda dims (map (fun i => (aid * 65536 + Z.of_nat i)%Z) (seq 0 len))))))).

Definition pmineral : P (mineral Z) :=
  pbind pz (fun ph => pbind pz (fun fa => pbind pz (fun re => pbind pnat (fun n =>
  pbind pnat (fun nf => pbind (prep parr nf) (fun frs =>
  pbind pnat (fun no => pbind (prep parr no) (fun ors =>
  pret (mk_mineral ph fa re n frs ors))))))))).

Inductive op :=
| OSave (fn : string) (pf : option string) (m : mineral Z)
| OLoad (fn : string) (pf : option string) (tn : nat)
| OFrom (fn : string) (pf : option string).

Definition pop : P op :=
  pbind pz (fun k =>
  pbind pstring (fun fn => pbind ppf (fun pf =>
  if (k =? 0)%Z then pbind pmineral (fun m => pret (OSave fn pf m))
  else if (k =? 1)%Z then pbind pnat (fun n => pret (OLoad fn pf n))
  else if (k =? 2)%Z then pret (OFrom fn pf)
  else fun _ => None))).

(* ---- output ---------------------------------------------------------------- *)
Definition err_code (e : err) : Z :=
  match e with
  | DivZero => 0 | ValueError => 1 | AssertionError => 2 | NonFinite => 3
  | IndexError => 4 | TypeError => 5 | KeyError => 6 | OtherError => 7
  end%Z.

Fixpoint chars_of_string (s : string) : list Z :=
  match s with EmptyString => [] | String c r => Z.of_nat (nat_of_ascii c) :: chars_of_string r end.
Definition out_string (s : string) : list Z :=
  Z.of_nat (String.length s) :: chars_of_string s.
Definition out_arr (a : nda Z) : list Z :=
  Z.of_nat (List.length (shp a)) :: map Z.of_nat (shp a) ++ Z.of_nat (List.length (dat a)) :: dat a.
Definition out_mineral (m : mineral Z) : list Z :=
  [0; phase m; fabric m; regime m; Z.of_nat (n_grains m)]%Z
  ++ Z.of_nat (List.length (fractions m)) :: flat_map out_arr (fractions m)
  ++ Z.of_nat (List.length (orientations m)) :: flat_map out_arr (orientations m).

(* ---- running a history -------------------------------------------------------- *)
Definition id_npy (p : payload Z) : payload Z := p.
Definition id_unnpy (b : payload Z) : option (payload Z) := Some b.
Definition FS := @filesys (payload Z).

Definition step (sets_n : bool) (st : FS * list Z) (o : op) : FS * list Z :=
  let '(fs, out) := st in
  match o with
  | OSave fn pf m =>
      let '(fs', r) := save id_npy m fn pf fs in
      match r with
      | Err e => (fs', out ++ [1%Z; err_code e])
      | Ok _ =>
          let tgt := save_target fn pf in
          let ns := match fs_get tgt fs' with Some ar => names ar | None => [] end in
          (fs', out ++ 0%Z :: out_string tgt ++ Z.of_nat (List.length ns) :: flat_map out_string ns)
      end
  | OLoad fn pf tn =>
      match load id_unnpy sets_n (mk_mineral 0 0 0 tn [] []) fn pf fs with
      | Err e => (fs, out ++ [1%Z; err_code e])
      | Ok m => (fs, out ++ out_mineral m)
      end
  | OFrom fn pf =>
      match from_file id_unnpy fn pf fs with
      | Err e => (fs, out ++ [1%Z; err_code e])
      | Ok m => (fs, out ++ out_mineral m)
      end
  end.

Definition run_npz (toks : list Z) : res (list Z) :=
  match toks with
  | sn :: nops :: r =>
      if (nops <? 0)%Z then Err OtherError else
      match prep pop (Z.to_nat nops) r with
      | Some (ops, []) => Ok (snd (fold_left (step (negb (sn =? 0)%Z)) ops ([], [])))
      | _ => Err OtherError
      end
  | _ => Err OtherError
  end.
