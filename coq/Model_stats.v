(* Model_stats.v -- hand-written executable model of pydrex.stats.resample_orientations
   (src/pydrex/stats.py), numeric parts polymorphic in {F : Num}; orientations are
   elements of an arbitrary type O (never inspected, only selected).

   ORACLES (parameters of the model, hypotheses in the theorems, checked at run time):
     argsort i f   -- np.argsort(frac) of snapshot i: a permutation of 0..M-1 with f o pi
                      ascending (how ties are ordered is left open)
     draw i n      -- the i-th call rng.random(n) of numpy's Generator: n variates in [0,1)

   `variant` selects the code as it is (`faithful`) or one of the mutations the theorems
   decide about: searchsorted side="right", count_less shifted by +-1, orientations not
   permuted by the sort.  No proofs in this file. *)
From Coq Require Import ZArith List Bool Arith.
From PV Require Import Num.
Import ListNotations.
Local Open Scope num_scope.

(* the shape test, literally:
     len(o.shape) != 4 or len(f.shape) != 2 or o.shape[0] != f.shape[0]
     or o.shape[1] != f.shape[1] or o.shape[2] != 3 or o.shape[3] != 3
   (`or` is lazy, as is `||`; the subscripts are only reached when the ranks are right) *)
Definition shape_bad (so sf : list nat) : bool :=
  negb (length so =? 4)%nat || negb (length sf =? 2)%nat
  || negb (nth 0 so 0 =? nth 0 sf 0)%nat || negb (nth 1 so 0 =? nth 1 sf 0)%nat
  || negb (nth 2 so 0 =? 3)%nat || negb (nth 3 so 0 =? 3)%nat.

Record variant := mk_variant {
  v_right : bool;       (* searchsorted(..., side="right") *)
  v_shift : Z;          (* count_less + v_shift *)
  v_permute : bool }.   (* orient[sort_ascending][count_less]  vs  orient[count_less] *)
Definition faithful : variant := mk_variant false 0 true.

Fixpoint mapM {A B} (f : A -> res B) (l : list A) : res (list B) :=
  match l with
  | [] => Ok []
  | a :: r => bind (f a) (fun b => bind (mapM f r) (fun bs => Ok (b :: bs)))
  end.

(* a[idx] for an integer array idx: out of range raises IndexError *)
Definition gather {A} (l : list A) (idx : list nat) : res (list A) :=
  mapM (fun j => match nth_error l j with Some a => Ok a | None => Err IndexError end) idx.

(* a[i] for one Python integer: negative indices count from the end *)
Definition py_index {A} (l : list A) (i : Z) : res A :=
  let n := Z.of_nat (length l) in
  let j := if (i <? 0)%Z then (i + n)%Z else i in
  if (j <? 0)%Z || (n <=? j)%Z then Err IndexError
  else match nth_error l (Z.to_nat j) with Some a => Ok a | None => Err IndexError end.

Section Stats.
  Context {F : Num} {O : Type}.

  (* ndarray.cumsum: sequential accumulation, first entry copied *)
  Fixpoint cumsum_from (acc : F) (l : list F) : list F :=
    match l with
    | [] => []
    | x :: r => let a := acc + x in a :: cumsum_from a r
    end.
  Definition cumsum (l : list F) : list F :=
    match l with [] => [] | x :: r => x :: cumsum_from x r end.

  (* cumfrac[-1] = 1.0 *)
  Definition pin_last (l : list F) : res (list F) :=
    match l with [] => Err IndexError | _ :: _ => Ok (removelast l ++ [one]) end.

  (* length of the maximal prefix satisfying p = np.searchsorted on a sorted array *)
  Fixpoint count_while (p : F -> bool) (c : list F) : nat :=
    match c with
    | [] => 0
    | x :: r => if p x then S (count_while p r) else 0
    end.
  Definition searchsorted (right : bool) (c : list F) (u : F) : nat :=
    count_while (fun x => if right then leb x u else ltb x u) c.

  (* one snapshot *)
  Definition resample_one (v : variant) (orient : list O) (f : list F)
             (pi : list nat) (us : list F) : res (list O * list F) :=
    bind (gather f pi) (fun fa =>
    bind (pin_last (cumsum fa)) (fun c =>
    bind (if v_permute v then gather orient pi else Ok orient) (fun oa =>
    bind (mapM (fun u =>
            let k := (Z.of_nat (searchsorted (v_right v) c u) + v_shift v)%Z in
            bind (py_index oa k) (fun o => bind (py_index fa k) (fun x => Ok (o, x)))) us)
         (fun prs => Ok (map fst prs, map snd prs))))).

  Section Oracles.
    Variable argsort : nat -> list F -> list nat.
    Variable draw : nat -> nat -> list F.

    (* the loop over snapshots (zip(..., strict=True)) *)
    Fixpoint loop (v : variant) (i : nat) (os : list (list O)) (fs : list (list F)) (n : nat)
      : res (list (list O * list F)) :=
      match os, fs with
      | [], [] => Ok []
      | o :: os', f :: fs' =>
          bind (resample_one v o f (argsort i f) (draw i n)) (fun r =>
          bind (loop v (S i) os' fs' n) (fun rs => Ok (r :: rs)))
      | _, _ => Err ValueError
      end.

    (* so / sf are the shapes of the two arrays, os / fs their contents along the first
       two axes; n_samples = None is the default *)
    Definition resample (v : variant) (so sf : list nat) (os : list (list O)) (fs : list (list F))
               (n_samples : option Z) : res (list (list O) * list (list F)) :=
      if shape_bad so sf then Err ValueError
      else
        bind (match n_samples with
              | None => Ok (nth 1 sf 0%nat)
              | Some z => if (z <? 0)%Z then Err ValueError else Ok (Z.to_nat z)   (* np.empty *)
              end) (fun n =>
        bind (loop v 0 os fs n) (fun rs => Ok (map fst rs, map snd rs))).
  End Oracles.
End Stats.
