From Coq Require Import List Bool.
From PV Require Import Model_memo.
Import ListNotations.

Section MemoProofs.
  Context {Arg Res : Type} (f : Arg -> Res) (same : Arg -> Arg -> bool).

  Definition consistent (tbl : list (Arg * Res)) : Prop := forall (k : Arg) (r : Res), In (k, r) tbl -> r = f k.

  Lemma lookup_some (tbl : list (Arg * Res)) (a : Arg) (r : Res) : lookup same tbl a = Some r -> exists k : Arg, In (k, r) tbl /\ same k a = true.
  Proof.
    induction tbl as [|[k r'] t IH]; simpl; [discriminate|].
    destruct (same k a) eqn:E.
    - intros H; injection H as <-. exists k; split; [now left | exact E].
    - intros H. destruct (IH H) as [k' [Hin Hs]]. exists k'; split; [now right | exact Hs].
  Qed.

  Hypothesis key_separates : forall a b, same a b = true -> f a = f b.

  Lemma call_consistent (tbl : list (Arg * Res)) (a : Arg) : consistent tbl ->
    consistent (fst (call f same tbl a)) /\ snd (call f same tbl a) = f a.
  Proof.
    intros Hc. unfold call. destruct (lookup same tbl a) as [r|] eqn:E; simpl.
    - split; [exact Hc|]. destruct (lookup_some _ _ _ E) as [k [Hin Hs]]. rewrite (Hc _ _ Hin). now apply key_separates.
    - split; [|reflexivity]. intros k r Hin. apply in_app_or in Hin. destruct Hin as [Hin|[Hin|[]]]; [now apply Hc|]. now injection Hin as <- <-.
  Qed.

  (* a cache that hands out COPIES and whose key equality separates arguments with different results is invisible, on every history *)
  Theorem memo_transparent : forall ops (tbl : list (Arg * Res)), consistent tbl -> run f same false tbl ops = spec f ops.
  Proof.
    induction ops as [|o rest IH]; intros tbl Hc; [reflexivity|].
    destruct o as [a|a r]; cbn [run step spec].
    - destruct (call f same tbl a) as [t r] eqn:E.
      pose proof (call_consistent tbl a Hc) as [Hc' Hr]. rewrite E in Hc', Hr. simpl in Hc', Hr. subst r. f_equal. now apply IH.
    - now apply IH.
  Qed.

  Corollary memo_transparent_from_empty ops : run f same false [] ops = spec f ops.
  Proof. apply memo_transparent. intros k r []. Qed.
End MemoProofs.

Section MemoRefuted.
  Context {Arg Res : Type} (f : Arg -> Res) (same : Arg -> Arg -> bool).

  (* key equality that identifies two arguments with different results: the second call returns the first call's result *)
  Theorem memo_key_collision_refuted (a b : Arg) : same a b = true -> f a <> f b ->
    forall aliased, run f same aliased [] [Call a; Call b] = [f a; f a] /\ run f same aliased [] [Call a; Call b] <> spec f [Call a; Call b].
  Proof.
    intros Hs Hne aliased. assert (E : run f same aliased [] [Call a; Call b] = [f a; f a]).
    { unfold run, step, call. simpl. rewrite Hs. reflexivity. }
    split; [exact E|]. rewrite E. cbn. intros H. injection H as H. now apply Hne.
  Qed.

  (* results handed out by reference: after the caller overwrites the returned object, the same call returns the overwritten value *)
  Theorem memo_aliased_refuted (a : Arg) (r : Res) : same a a = true -> r <> f a ->
    run f same true [] [Call a; Scribble a r; Call a] = [f a; r] /\
    run f same true [] [Call a; Scribble a r; Call a] <> spec f [Call a; Scribble a r; Call a].
  Proof.
    intros Hs Hne. assert (E : run f same true [] [Call a; Scribble a r; Call a] = [f a; r]).
    { unfold run, step, call, overwrite. simpl. rewrite Hs. simpl. rewrite Hs. reflexivity. }
    split; [exact E|]. rewrite E. cbn. intros H. injection H as H. now apply Hne.
  Qed.
End MemoRefuted.
