(* Proofs_decomp_series.v -- the series (batch) form of elasticity_components:
   the enumerate/write-row-m loop of Model_decomp_series is the MAP of the single-matrix
   function over the series (or raises what the first raising entry raises), hence row k of
   the result depends on entry k only -- not on the other entries, their number or order.
   The structural part is proved for every Num instance (so also for the binary64 instance
   the extracted model runs on); the lifted C12 clauses are over R. *)
From Coq Require Import Reals ZArith List Lia Bool Arith.
From PV Require Import Num NumR Model_voigt Model_decomp Model_decomp_series Proofs_tensors_alg
  Proofs_tensors_rot Proofs_tensors_maps Proofs_tensors_proj Inst_tensors Proofs_decomp
  Proofs_decomp2 Proofs_decomp3.
From PV.gen Require Import Gen_tensors.
Import ListNotations.

Section SeriesProofs.
  Context {F : Num}.

  Lemma fold_series_err (l : list (nat * @ecin F)) e :
    fold_left series_step l (Err e) = Err e.
  Proof. induction l; simpl; auto. Qed.

  Lemma upd_app {A} (done : list A) x rest v :
    upd (done ++ x :: rest) (length done) v = done ++ v :: rest.
  Proof. induction done; simpl; congruence. Qed.

  Lemma snoc_shift {A} (done : list A) (r : A) (rest : list A) :
    done ++ r :: rest = (done ++ [r]) ++ rest.
  Proof. rewrite <- app_assoc; reflexivity. Qed.

  Lemma snoc_len {A} (done : list A) (r : A) : S (length done) = length (done ++ [r]).
  Proof. rewrite app_length; simpl; lia. Qed.

  (* loop invariant: after the first `length done` entries the table is
     done ++ (rows still as allocated) *)
  Lemma loop_spec : forall (t : list (@ecin F)) (done : list (@ecrow F)),
    fold_left series_step (combine (seq (length done) (length t)) t)
              (Ok (done ++ repeat None (length t)))
    = match first_raise t with Some e => Err e | None => Ok (done ++ map row1 t) end.
  Proof.
    induction t as [|x t IH]; intros done.
    - reflexivity.
    - cbn [length seq combine fold_left repeat first_raise map].
      unfold series_step at 2. cbn [fst snd]. unfold raises1, row1.
      destruct (ec1 x) as [l|e].
      + rewrite upd_app, (snoc_shift done (Some l)), (snoc_len done (Some l)), IH.
        destruct (first_raise t); [reflexivity|].
        rewrite <- app_assoc; reflexivity.
      + destruct e; try apply fold_series_err.
        rewrite (snoc_shift done None), (snoc_len done None), IH.
        destruct (first_raise t); [reflexivity|].
        rewrite <- app_assoc; reflexivity.
  Qed.

  (* THE LOOP IS THE MAP: the series function equals its specification *)
  Theorem series_is_spec : forall Ms : list (@ecin F),
    elasticity_components_series Ms = series_spec Ms.
  Proof. intros Ms. exact (loop_spec Ms []). Qed.

  Lemma first_raise_none (Ms : list (@ecin F)) :
    first_raise Ms = None <-> forall x, In x Ms -> raises1 x = None.
  Proof.
    induction Ms as [|y t IH]; simpl.
    - split; [intros _ x []|reflexivity].
    - destruct (raises1 y) eqn:E.
      + split; [discriminate|]. intros H. rewrite <- E. apply H; auto.
      + rewrite IH. split.
        * intros H x [<-|Hx]; auto.
        * intros H x Hx; apply H; auto.
  Qed.

  Theorem series_is_map : forall Ms : list (@ecin F),
    (forall x, In x Ms -> raises1 x = None) ->
    elasticity_components_series Ms = Ok (map row1 Ms).
  Proof.
    intros Ms H. rewrite series_is_spec. unfold series_spec.
    apply first_raise_none in H. rewrite H. reflexivity.
  Qed.

  Lemma series_ok_inv (Ms : list (@ecin F)) tab :
    elasticity_components_series Ms = Ok tab -> first_raise Ms = None /\ tab = map row1 Ms.
  Proof.
    rewrite series_is_spec. unfold series_spec.
    destruct (first_raise Ms); [discriminate|]. intros H; inversion H; auto.
  Qed.

  Theorem series_length : forall (Ms : list (@ecin F)) tab,
    elasticity_components_series Ms = Ok tab -> length tab = length Ms.
  Proof. intros Ms tab H. apply series_ok_inv in H as [_ ->]. apply map_length. Qed.

  (* row k of the result is the row of matrix k decomposed on its own *)
  Theorem series_entry : forall (Ms : list (@ecin F)) tab k d,
    elasticity_components_series Ms = Ok tab -> (k < length Ms)%nat ->
    nth k tab None = row1 (nth k Ms d).
  Proof.
    intros Ms tab k d H Hk. apply series_ok_inv in H as [_ ->].
    rewrite (nth_indep _ None (row1 d)) by (rewrite map_length; exact Hk).
    apply map_nth.
  Qed.

  (* ... so it depends on entry k only: two series of any lengths, with any other entries in
     any order, report the same row wherever they hold the same entry *)
  Theorem series_entry_local : forall (Ms Ms' : list (@ecin F)) tab tab' k k' d,
    elasticity_components_series Ms = Ok tab -> elasticity_components_series Ms' = Ok tab' ->
    (k < length Ms)%nat -> (k' < length Ms')%nat -> nth k Ms d = nth k' Ms' d ->
    nth k tab None = nth k' tab' None.
  Proof.
    intros Ms Ms' tab tab' k k' d H H' Hk Hk' E.
    rewrite (series_entry Ms tab k d H Hk), (series_entry Ms' tab' k' d H' Hk'), E. reflexivity.
  Qed.

  (* a series of one *)
  Theorem series_singleton : forall x : @ecin F,
    elasticity_components_series [x]
    = match raises1 x with Some e => Err e | None => Ok [row1 x] end.
  Proof. intros x. rewrite series_is_spec. unfold series_spec. simpl. destruct (raises1 x); reflexivity. Qed.

  Lemma first_raise_app (A B : list (@ecin F)) :
    first_raise (A ++ B) = match first_raise A with Some e => Some e | None => first_raise B end.
  Proof. induction A as [|x A IH]; simpl; [reflexivity|]. destruct (raises1 x); auto. Qed.

  (* concatenated series = concatenated results *)
  Theorem series_app : forall (A B : list (@ecin F)) ta tb,
    elasticity_components_series A = Ok ta -> elasticity_components_series B = Ok tb ->
    elasticity_components_series (A ++ B) = Ok (ta ++ tb).
  Proof.
    intros A B ta tb HA HB. apply series_ok_inv in HA as [RA ->]. apply series_ok_inv in HB as [RB ->].
    rewrite series_is_spec. unfold series_spec. rewrite first_raise_app, RA, RB, map_app. reflexivity.
  Qed.

  (* any selection of the entries (reordering, repetition, sub-series) gives the same
     selection of the rows *)
  Theorem series_select : forall (Ms : list (@ecin F)) tab (p : list nat) d,
    elasticity_components_series Ms = Ok tab -> (forall i, In i p -> (i < length Ms)%nat) ->
    elasticity_components_series (map (fun i => nth i Ms d) p)
    = Ok (map (fun i => nth i tab None) p).
  Proof.
    intros Ms tab p d H Hp. pose proof H as H0. apply series_ok_inv in H as [RA _].
    rewrite series_is_map.
    - f_equal. rewrite map_map. apply map_ext_in. intros i Hi.
      symmetry. apply series_entry; auto.
    - intros x Hx. apply in_map_iff in Hx as [i [<- Hi]].
      apply (proj1 (first_raise_none Ms) RA). apply nth_In. auto.
  Qed.

  (* the call raises exactly when some entry raises, and then what the FIRST raising entry
     raises (entries before it do not raise) *)
  Theorem series_raises_first : forall (Ms : list (@ecin F)) e,
    elasticity_components_series Ms = Err e <->
    exists A x B, Ms = A ++ x :: B /\ (forall y, In y A -> raises1 y = None) /\ raises1 x = Some e.
  Proof.
    intros Ms e. rewrite series_is_spec. unfold series_spec. split.
    - destruct (first_raise Ms) eqn:E; [|discriminate]. intros H; inversion H; subst e0; clear H.
      induction Ms as [|y t IH]; simpl in E; [discriminate|].
      destruct (raises1 y) eqn:Ey.
      + inversion E; subst. exists [], y, t. repeat split; auto. intros ? [].
      + destruct (IH E) as [A [x [B [-> [HA Hx]]]]].
        exists (y :: A), x, B. repeat split; auto. intros z [<-|Hz]; auto.
    - intros [A [x [B [-> [HA Hx]]]]]. rewrite first_raise_app.
      apply first_raise_none in HA. rewrite HA. simpl. rewrite Hx. reflexivity.
  Qed.

  (* a reported row is the result of the single-matrix function on that entry: every theorem
     about elasticity_components1 transfers to every row of every series *)
  Theorem series_row_ok : forall (Ms : list (@ecin F)) tab k M Ed Ev out,
    elasticity_components_series Ms = Ok tab -> nth_error Ms k = Some (M, Ed, Ev) ->
    nth k tab None = Some out -> elasticity_components1 M Ed Ev = Ok out.
  Proof.
    intros Ms tab k M Ed Ev out H Hk Hr.
    assert (Hlt : (k < length Ms)%nat) by (apply nth_error_Some; congruence).
    rewrite (series_entry Ms tab k (M, Ed, Ev) H Hlt) in Hr.
    rewrite (nth_error_nth Ms k (M, Ed, Ev) Hk) in Hr.
    unfold row1, ec1 in Hr. destruct (elasticity_components1 M Ed Ev); congruence.
  Qed.
End SeriesProofs.

(* ---------------------------------------------------------------------- *)
(* C12 clauses on the rows of a series (over R)                            *)
(* ---------------------------------------------------------------------- *)
Open Scope R_scope.

(* the sum rule holds on every row of every series *)
Theorem series_sum_rule_orth :
  forall (Ms : list (@ecin NumR)) tab k (M Ed Ev : arr NumR) out,
  elasticity_components_series Ms = Ok tab -> nth_error Ms k = Some (M, Ed, Ev) ->
  nth k tab None = Some out ->
  let vm := k_upper_tri_to_symmetric_6 M in
  sym6 vm -> (forall i, (i < 3)%nat -> orth (mat3 (@sccs_rotation NumR Ed Ev i))) ->
  nth 3 out 0 * nth 3 out 0 + nth 4 out 0 * nth 4 out 0 + nth 5 out 0 * nth 5 out 0
  + nth 6 out 0 * nth 6 out 0 + nth 7 out 0 * nth 7 out 0
  = nth 2 out 0 * nth 2 out 0.
Proof.
  intros Ms tab k M Ed Ev out H Hk Hr vm Hs Ho.
  exact (ec1_sum_rule_orth M Ed Ev out Hs Ho (series_row_ok Ms tab k M Ed Ev out H Hk Hr)).
Qed.

(* frame independence across series: the rotated tensor as entry k of one series and the
   unrotated tensor as entry k0 of another (any companions): outputs 0..7 agree *)
Theorem series_outputs_frame_invariant :
  forall (Ms0 Ms : list (@ecin NumR)) tab0 tab k0 k
         (M0 Ed0 Ev0 M Ed Ev Rq : arr NumR) (mud0 muv0 mud muv : nat -> R) (out0 out : list R),
  elasticity_components_series Ms0 = Ok tab0 -> nth_error Ms0 k0 = Some (M0, Ed0, Ev0) ->
  nth k0 tab0 None = Some out0 ->
  elasticity_components_series Ms = Ok tab -> nth_error Ms k = Some (M, Ed, Ev) ->
  nth k tab None = Some out ->
  let vm0 := k_upper_tri_to_symmetric_6 M0 in
  let vm := k_upper_tri_to_symmetric_6 M in
  let T0 := t4 (k_voigt_to_elastic_tensor vm0) in
  sym6 vm0 -> ortho4 T0 ->
  distinct3 (fun k => dil4 T0 k k) -> distinct3 (fun k => dev4 T0 k k) ->
  (exists kst, strict_min3 (hex_dist T0) kst) ->
  orth (mat3 Ed0) -> eigcols (mat3 (fst (k_voigt_decompose vm0))) (mat3 Ed0) mud0 ->
  orth (mat3 Ev0) -> eigcols (mat3 (snd (k_voigt_decompose vm0))) (mat3 Ev0) muv0 ->
  sym6 vm -> orth (mat3 Rq) -> eq4b (t4 (k_voigt_to_elastic_tensor vm)) (rot4 T0 (mat3 Rq)) ->
  orth (mat3 Ed) -> eigcols (mat3 (fst (k_voigt_decompose vm))) (mat3 Ed) mud ->
  orth (mat3 Ev) -> eigcols (mat3 (snd (k_voigt_decompose vm))) (mat3 Ev) muv ->
  forall n, (n < 8)%nat -> nth n out 0 = nth n out0 0.
Proof.
  intros Ms0 Ms tab0 tab k0 k M0 Ed0 Ev0 M Ed Ev Rq mud0 muv0 mud muv out0 out
         H0 Hk0 Hr0 H Hk Hr vm0 vm T0 A1 A2 A3 A4 A5 A6 A7 A8 A9 B1 B2 B3 B4 B5 B6 B7.
  exact (ec1_outputs_frame_invariant M0 Ed0 Ev0 M Ed Ev Rq mud0 muv0 mud muv out0 out
           A1 A2 A3 A4 A5 A6 A7 A8 A9 (series_row_ok Ms0 tab0 k0 M0 Ed0 Ev0 out0 H0 Hk0 Hr0)
           B1 B2 B3 B4 B5 B6 B7 (series_row_ok Ms tab k M Ed Ev out H Hk Hr)).
Qed.

(* non-vacuity: a series of two entries returns a table of two initialised rows *)
Lemma series_nonvacuous_proof :
  let x : @ecin NumR := (M_ortho_example2, @eye3 NumR, @eye3 NumR) in
  exists out, elasticity_components_series [x; x] = Ok [Some out; Some out] /\
              raises1 x = None.
Proof.
  intros x. destruct C12_run_nonvacuous_proof as [mud [muv [out Hall]]].
  assert (Hout : @elasticity_components1 NumR M_ortho_example2 eye3 eye3 = Ok out) by apply Hall.
  assert (Hr : raises1 x = None) by (unfold raises1, x, ec1; rewrite Hout; reflexivity).
  exists out. split; [|exact Hr].
  rewrite series_is_map.
  - simpl. unfold row1, x, ec1. rewrite Hout. reflexivity.
  - intros y [<-|[<-|[]]]; exact Hr.
Qed.
