(* Num.v -- the record of numeric operations every numeric model is polymorphic in.
   Two instances exist: NumR (Coq reals; all theorems) and the OCaml float
   dictionary built in ocaml/driver.ml (correspondence runs). *)
From Coq Require Import ZArith List.
Import ListNotations.

Record Num := mkNum {
  T :> Type;
  nzero : T; none : T; npi : T;
  nofZ : Z -> T;
  nadd : T -> T -> T; nsub : T -> T -> T; nmul : T -> T -> T; ndiv : T -> T -> T;
  nopp : T -> T; nabs : T -> T; nsqrt : T -> T; nexp : T -> T;
  ncos : T -> T; nsin : T -> T; nacos : T -> T; natan : T -> T;
  npow : T -> T -> T; natan2 : T -> T -> T;
  nltb : T -> T -> bool; nleb : T -> T -> bool; neqb : T -> T -> bool }.

Arguments nzero {n}. Arguments none {n}. Arguments npi {n}. Arguments nofZ {n}.
Arguments nadd {n}. Arguments nsub {n}. Arguments nmul {n}.
Arguments ndiv {n}. Arguments nopp {n}. Arguments nabs {n}. Arguments nsqrt {n}.
Arguments nexp {n}. Arguments ncos {n}. Arguments nsin {n}. Arguments nacos {n}.
Arguments natan {n}. Arguments npow {n}. Arguments natan2 {n}.
Arguments nltb {n}. Arguments nleb {n}. Arguments neqb {n}.

(* short names (abbreviations; the record fields keep extraction-stable n-names) *)
Notation zero := nzero. Notation one := none. Notation ofZ := nofZ.
Notation add := nadd. Notation sub := nsub. Notation mul := nmul. Notation div := ndiv.
Notation opp := nopp. Notation ltb := nltb. Notation leb := nleb. Notation eqb := neqb.

Declare Scope num_scope.
Delimit Scope num_scope with num.
Infix "+" := add : num_scope.
Infix "-" := sub : num_scope.
Infix "*" := mul : num_scope.
Infix "/" := div : num_scope.
Notation "- x" := (opp x) : num_scope.

(* errors a modelled function can raise *)
Inductive err := DivZero | ValueError | AssertionError | NonFinite | IndexError
               | TypeError | KeyError | OtherError.

Inductive res (A : Type) := Ok (a : A) | Err (e : err).
Arguments Ok {A}. Arguments Err {A}.

Definition bind {A B} (r : res A) (f : A -> res B) : res B :=
  match r with Ok a => f a | Err e => Err e end.

Definition is_ok {A} (r : res A) : bool := match r with Ok _ => true | Err _ => false end.

(* flat arrays: row-major, index -> entry *)
Definition arr (X : Type) := nat -> X.
Definition mk_arr {X} (d : X) (l : list X) : arr X := fun k => nth k l d.
Definition arr_to_list {X} (n : nat) (a : arr X) : list X := map a (seq 0 n).
Definition aeq {X} (n : nat) (a b : arr X) : Prop := forall k, (k < n)%nat -> a k = b k.

(* the 24 permutations of 4 elements, as results of argsort of four activities *)
Inductive perm4 :=
| P0123 | P0132 | P0213 | P0231 | P0312 | P0321
| P1023 | P1032 | P1203 | P1230 | P1302 | P1320
| P2013 | P2031 | P2103 | P2130 | P2301 | P2310
| P3012 | P3021 | P3102 | P3120 | P3201 | P3210.

Definition perm4_list (p : perm4) : list nat :=
  match p with
  | P0123 => [0;1;2;3] | P0132 => [0;1;3;2] | P0213 => [0;2;1;3] | P0231 => [0;2;3;1]
  | P0312 => [0;3;1;2] | P0321 => [0;3;2;1] | P1023 => [1;0;2;3] | P1032 => [1;0;3;2]
  | P1203 => [1;2;0;3] | P1230 => [1;2;3;0] | P1302 => [1;3;0;2] | P1320 => [1;3;2;0]
  | P2013 => [2;0;1;3] | P2031 => [2;0;3;1] | P2103 => [2;1;0;3] | P2130 => [2;1;3;0]
  | P2301 => [2;3;0;1] | P2310 => [2;3;1;0] | P3012 => [3;0;1;2] | P3021 => [3;0;2;1]
  | P3102 => [3;1;0;2] | P3120 => [3;1;2;0] | P3201 => [3;2;0;1] | P3210 => [3;2;1;0]
  end%nat.

Definition perm4_of_list (l : list nat) : perm4 :=
  match l with
  | [0;1;2;3] => P0123 | [0;1;3;2] => P0132 | [0;2;1;3] => P0213 | [0;2;3;1] => P0231
  | [0;3;1;2] => P0312 | [0;3;2;1] => P0321 | [1;0;2;3] => P1023 | [1;0;3;2] => P1032
  | [1;2;0;3] => P1203 | [1;2;3;0] => P1230 | [1;3;0;2] => P1302 | [1;3;2;0] => P1320
  | [2;0;1;3] => P2013 | [2;0;3;1] => P2031 | [2;1;0;3] => P2103 | [2;1;3;0] => P2130
  | [2;3;0;1] => P2301 | [2;3;1;0] => P2310 | [3;0;1;2] => P3012 | [3;0;2;1] => P3021
  | [3;1;0;2] => P3102 | [3;1;2;0] => P3120 | [3;2;0;1] => P3201 | [3;2;1;0] => P3210
  | _ => P0123
  end%nat.

Definition pidx (p : perm4) (k : nat) : nat := nth k (perm4_list p) 0%nat.

(* stable insertion sort of indices by key, as NumPy/numba use for fewer than 16
   elements: insert index i into the sorted prefix, moving left while strictly less *)
Section Argsort.
  Context {N : Num}.
  (* the sorted prefix is kept in increasing order; inserting from the right end
     corresponds to the usual "shift while smaller" loop; for stability an element
     is placed after all elements that are <= it *)
  Fixpoint ins_stable (v : arr N) (i : nat) (l : list nat) : list nat :=
    match l with
    | [] => [i]
    | j :: l' => if ltb (v i) (v j) then i :: j :: l' else j :: ins_stable v i l'
    end.
  Definition argsort4 (v : arr N) : perm4 :=
    perm4_of_list (ins_stable v 3 (ins_stable v 2 (ins_stable v 1 [0%nat]))).
End Argsort.
