(* Entry_velocity.v -- flat-list entry points of the C18 models for the extracted driver. *)
From Coq Require Import ZArith List Bool.
From PV Require Import Num Model_pathlines.
From PV.gen Require Import Gen_velocity Gen_velocity_utils Gen_pathlines.
Import ListNotations.
Local Open Scope num_scope.

Section Entry.
  Context {F : Num}.
  Definition aolv (l : list F) : arr F := mk_arr zero l.
  Definition ofnat_e (n : nat) : F := ofZ (Z.of_nat n).

  (* t x0 x1 x2 params... *)
  Definition run_velocity (flow hl vl : Z) (xs : list F) : res (list F) :=
    match xs with
    | t :: x0 :: x1 :: x2 :: ps =>
        match wrapper_velocity flow hl vl ps t (aolv [x0; x1; x2]) with
        | Err e => Err e
        | Ok a => Ok (arr_to_list 3 a)
        end
    | _ => Err OtherError
    end.

  Definition run_gradient (flow hl vl : Z) (xs : list F) : res (list F) :=
    match xs with
    | t :: x0 :: x1 :: x2 :: ps =>
        match wrapper_gradient flow hl vl ps t (aolv [x0; x1; x2]) with
        | Err e => Err e
        | Ok a => Ok (arr_to_list 9 a)
        end
    | _ => Err OtherError
    end.

  (* params... -> the index pair the wrapper passes to the kernels *)
  Definition run_indices (flow hl vl : Z) (ps : list F) : res (list F) :=
    match wrapper_indices flow hl vl ps with
    | Err e => Err e
    | Ok (i, j) => Ok [ofnat_e i; ofnat_e j]
    end.

  (* dt L(9) eigmax *)
  Definition run_strain_increment (xs : list F) : res (list F) :=
    match xs with
    | dt :: r =>
        match skipn 9 r with
        | [e] => Ok [k_strain_increment dt (aolv (firstn 9 r)) e]
        | _ => Err OtherError
        end
    | _ => Err OtherError
    end.

  Definition boolF (b : bool) : F := if b then one else zero.

  (* pt(n) mn(n) mx(n') : n' may differ (assertion) *)
  Definition run_is_inside (n n' : nat) (xs : list F) : res (list F) :=
    let pt := firstn n xs in
    let mn := firstn n (skipn n xs) in
    let mx := firstn n' (skipn (n + n) xs) in
    match is_inside pt mn mx with
    | Err e => Err e
    | Ok b => Ok [boolF b]
    end.

  (* _ivp_func with the velocity callable of a built-in flow: pt(3) mn(3) mx(3) params... *)
  Definition run_ivp_func (flow hl vl : Z) (xs : list F) : res (list F) :=
    let pt := firstn 3 xs in
    let mn := firstn 3 (skipn 3 xs) in
    let mx := firstn 3 (skipn 6 xs) in
    let ps := skipn 9 xs in
    ivp_func (fun p => match wrapper_velocity flow hl vl ps zero (aolv p) with
                       | Err e => Err e
                       | Ok a => Ok (arr_to_list 3 a)
                       end) mn mx pt.

  (* the terminal event replayed over a recorded call history.
     input: max_strain mn(3) mx(3) np params(np) then per call: t x0 x1 x2 eigmax
     (eigmax = the oracle's value for that call); output: the returned values *)
  Fixpoint event_loop (flow hl vl : Z) (ps mn mx : list F) (st : ev_state) (n : nat) (xs : list F)
    : res (list F) :=
    match n with
    | O => Ok []
    | S n' =>
        match xs with
        | t :: x0 :: x1 :: x2 :: e :: rest =>
            match ev_step (fun p => wrapper_gradient flow hl vl ps zero (aolv p)) (fun _ => e) mn mx st
                          (t, [x0; x1; x2]) with
            | Err er => Err er
            | Ok (st', v) =>
                match event_loop flow hl vl ps mn mx st' n' rest with
                | Err er => Err er
                | Ok vs => Ok (v :: vs)
                end
            end
        | _ => Err OtherError
        end
    end.

  Definition run_event (flow hl vl : Z) (np ncalls : nat) (xs : list F) : res (list F) :=
    match xs with
    | s0 :: r =>
        let mn := firstn 3 r in
        let mx := firstn 3 (skipn 3 r) in
        let ps := firstn np (skipn 6 r) in
        event_loop flow hl vl ps mn mx (ev_init s0) ncalls (skipn (6 + np) r)
    | _ => Err OtherError
    end.

  (* mode 0: regular_steps None; mode 1: Some n.   input: path.t *)
  Definition run_timestamps (mode : Z) (n : nat) (ts : list F) : res (list F) :=
    Ok (timestamps ts (if Z.eqb mode 0 then None else Some n)).

  (* ---- the PUBLIC wrappers as generated from pydrex/velocity.py: letters 0..5 = X Y Z x y z;
          which = 0 velocity callable, 1 gradient callable; t x0 x1 x2 params... (cell_2d with ONE
          parameter: edge_length left at its default) ---- *)
  Definition run_gen_wrap (which flow hl vl : Z) (xs : list F) : res (list F) :=
    match xs with
    | t :: x0 :: x1 :: x2 :: ps =>
        let x := aolv [x0; x1; x2] in
        let u := Z.eqb which 0 in
        let r := match flow, ps with
                 | 0%Z, [p] => if u then k_simple_shear_2d_wrap_u hl vl p t x else k_simple_shear_2d_wrap_L hl vl p t x
                 | 1%Z, [p; q] => if u then k_cell_2d_wrap_u hl vl p q t x else k_cell_2d_wrap_L hl vl p q t x
                 | 1%Z, [p] => if u then k_cell_2d_wrap_u_default hl vl p t x else k_cell_2d_wrap_L_default hl vl p t x
                 | 2%Z, [p] => if u then k_corner_2d_wrap_u hl vl p t x else k_corner_2d_wrap_L hl vl p t x
                 | _, _ => Err OtherError
                 end in
        match r with
        | Err e => Err e
        | Ok a => Ok (arr_to_list (if u then 3 else 9) a)
        end
    | _ => Err OtherError
    end.

  (* ---- the code GENERATED from pydrex/pathlines.py (gen/Gen_pathlines.v), dimension 3 ---- *)
  (* pt(3) mn(3) mx(3) *)
  Definition run_gen_is_inside (xs : list F) : res (list F) :=
    Ok [k_is_inside_n3 (aolv (firstn 3 xs)) (aolv (firstn 3 (skipn 3 xs))) (aolv (firstn 3 (skipn 6 xs)))].

  (* which = 0: _ivp_func (3 numbers), 1: _ivp_jac (9 numbers), with the callables of a built-in flow;
     pt(3) mn(3) mx(3) params... *)
  Definition run_gen_ivp (which flow hl vl : Z) (xs : list F) : res (list F) :=
    let ps := skipn 9 xs in
    let gv := fun p => wrapper_velocity flow hl vl ps zero p in
    let gg := fun p => wrapper_gradient flow hl vl ps zero p in
    let pt := aolv (firstn 3 xs) in
    let mn := aolv (firstn 3 (skipn 3 xs)) in
    let mx := aolv (firstn 3 (skipn 6 xs)) in
    if Z.eqb which 0 then
      match k_ivp_func_n3 zero pt gv gg mn mx with Err e => Err e | Ok a => Ok (arr_to_list 3 a) end
    else
      match k_ivp_jac_n3 zero pt gv gg mn mx with Err e => Err e | Ok a => Ok (arr_to_list 9 a) end.

  (* the generated event closure replayed over a recorded call history, its two state variables
     threaded from call to call; same input as run_event; output: the returned values, then the final
     (previous time, strain) *)
  Fixpoint gen_event_loop (flow hl vl : Z) (ps : list F) (mn mx : arr F) (tp s : F) (n : nat) (xs : list F)
    : res (list F) :=
    match n with
    | O => Ok [tp; s]
    | S n' =>
        match xs with
        | t :: x0 :: x1 :: x2 :: e :: rest =>
            match k_terminate_n3 tp s t (aolv [x0; x1; x2]) (fun p => wrapper_velocity flow hl vl ps zero p)
                                 (fun p => wrapper_gradient flow hl vl ps zero p) (fun _ => e) mn mx with
            | Err er => Err er
            | Ok (tp', s', v) =>
                match gen_event_loop flow hl vl ps mn mx tp' s' n' rest with
                | Err er => Err er
                | Ok vs => Ok (v :: vs)
                end
            end
        | _ => Err OtherError
        end
    end.

  Definition run_gen_event (flow hl vl : Z) (np ncalls : nat) (xs : list F) : res (list F) :=
    match xs with
    | s0 :: r =>
        let mn := aolv (firstn 3 r) in
        let mx := aolv (firstn 3 (skipn 3 r)) in
        let ps := firstn np (skipn 6 r) in
        (* the initial state is read off the generated request: entries 19 and 20 *)
        let rq := k_request_n3 (aolv [zero; zero; zero]) mn mx s0 in
        gen_event_loop flow hl vl ps mn mx (rq 19%nat) (rq 20%nat) ncalls (skipn (6 + np) r)
    | _ => Err OtherError
    end.

  (* fl(3) mn(3) mx(3) max_strain [atol rtol first_step max_step] -> the 22 numbers of the request *)
  Definition run_gen_request (xs : list F) : res (list F) :=
    let fl := aolv (firstn 3 xs) in
    let mn := aolv (firstn 3 (skipn 3 xs)) in
    let mx := aolv (firstn 3 (skipn 6 xs)) in
    match skipn 9 xs with
    | [ms] => Ok (arr_to_list 22 (k_request_n3 fl mn mx ms))
    | [ms; atol; rtol; fs; mxs] => Ok (arr_to_list 22 (k_request_kw_n3 fl mn mx ms atol rtol fs mxs))
    | _ => Err OtherError
    end.

  (* the generated post-processing for path.t of 2 or 3 entries: mode 0 None, 1 Some n (n <= 3) *)
  Definition run_gen_timestamps (mode : Z) (n : nat) (ts : list F) : res (list F) :=
    let t := aolv ts in
    match length ts, (if Z.eqb mode 0 then None else Some n) with
    | 2%nat, None => Ok (arr_to_list 2 (k_post_m2_none t))
    | 3%nat, None => Ok (arr_to_list 3 (k_post_m3_none t))
    | 2%nat, Some 0%nat => Ok (arr_to_list 1 (k_post_m2_s0 t))
    | 2%nat, Some 1%nat => Ok (arr_to_list 2 (k_post_m2_s1 t))
    | 2%nat, Some 2%nat => Ok (arr_to_list 3 (k_post_m2_s2 t))
    | 2%nat, Some 3%nat => Ok (arr_to_list 4 (k_post_m2_s3 t))
    | 3%nat, Some 0%nat => Ok (arr_to_list 1 (k_post_m3_s0 t))
    | 3%nat, Some 1%nat => Ok (arr_to_list 2 (k_post_m3_s1 t))
    | 3%nat, Some 2%nat => Ok (arr_to_list 3 (k_post_m3_s2 t))
    | 3%nat, Some 3%nat => Ok (arr_to_list 4 (k_post_m3_s3 t))
    | _, _ => Err OtherError
    end.
End Entry.
