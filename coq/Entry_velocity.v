(* Entry_velocity.v -- flat-list entry points of the C18 models for the extracted driver. *)
From Coq Require Import ZArith List Bool.
From PV Require Import Num Model_pathlines.
From PV.gen Require Import Gen_velocity Gen_velocity_utils.
Import ListNotations.
Local Open Scope num_scope.

Section Entry.
  Context {F : Num}.
  Definition aolv (l : list F) : arr F := mk_arr zero l.
  Definition ofnat_e (n : nat) : F := ofZ (Z.of_nat n).

  (* t x0 x1 x2 params... *)
  Definition run_velocity (flow hl vl : Z) (xs : list F) : res (list F) :=
    match xs with
    | t :: x0 :: x1 :: x2 :: ps =>
        match wrapper_velocity flow hl vl ps t (aolv [x0; x1; x2]) with
        | Err e => Err e
        | Ok a => Ok (arr_to_list 3 a)
        end
    | _ => Err OtherError
    end.

  Definition run_gradient (flow hl vl : Z) (xs : list F) : res (list F) :=
    match xs with
    | t :: x0 :: x1 :: x2 :: ps =>
        match wrapper_gradient flow hl vl ps t (aolv [x0; x1; x2]) with
        | Err e => Err e
        | Ok a => Ok (arr_to_list 9 a)
        end
    | _ => Err OtherError
    end.

  (* params... -> the index pair the wrapper passes to the kernels *)
  Definition run_indices (flow hl vl : Z) (ps : list F) : res (list F) :=
    match wrapper_indices flow hl vl ps with
    | Err e => Err e
    | Ok (i, j) => Ok [ofnat_e i; ofnat_e j]
    end.

  (* dt L(9) eigmax *)
  Definition run_strain_increment (xs : list F) : res (list F) :=
    match xs with
    | dt :: r =>
        match skipn 9 r with
        | [e] => Ok [k_strain_increment dt (aolv (firstn 9 r)) e]
        | _ => Err OtherError
        end
    | _ => Err OtherError
    end.

  Definition boolF (b : bool) : F := if b then one else zero.

  (* pt(n) mn(n) mx(n') : n' may differ (assertion) *)
  Definition run_is_inside (n n' : nat) (xs : list F) : res (list F) :=
    let pt := firstn n xs in
    let mn := firstn n (skipn n xs) in
    let mx := firstn n' (skipn (n + n) xs) in
    match is_inside pt mn mx with
    | Err e => Err e
    | Ok b => Ok [boolF b]
    end.

  (* _ivp_func with the velocity callable of a built-in flow: pt(3) mn(3) mx(3) params... *)
  Definition run_ivp_func (flow hl vl : Z) (xs : list F) : res (list F) :=
    let pt := firstn 3 xs in
    let mn := firstn 3 (skipn 3 xs) in
    let mx := firstn 3 (skipn 6 xs) in
    let ps := skipn 9 xs in
    ivp_func (fun p => match wrapper_velocity flow hl vl ps zero (aolv p) with
                       | Err e => Err e
                       | Ok a => Ok (arr_to_list 3 a)
                       end) mn mx pt.

  (* the terminal event replayed over a recorded call history.
     input: max_strain mn(3) mx(3) np params(np) then per call: t x0 x1 x2 eigmax
     (eigmax = the oracle's value for that call); output: the returned values *)
  Fixpoint event_loop (flow hl vl : Z) (ps mn mx : list F) (st : ev_state) (n : nat) (xs : list F)
    : res (list F) :=
    match n with
    | O => Ok []
    | S n' =>
        match xs with
        | t :: x0 :: x1 :: x2 :: e :: rest =>
            match ev_step (fun p => wrapper_gradient flow hl vl ps zero (aolv p)) (fun _ => e) mn mx st
                          (t, [x0; x1; x2]) with
            | Err er => Err er
            | Ok (st', v) =>
                match event_loop flow hl vl ps mn mx st' n' rest with
                | Err er => Err er
                | Ok vs => Ok (v :: vs)
                end
            end
        | _ => Err OtherError
        end
    end.

  Definition run_event (flow hl vl : Z) (np ncalls : nat) (xs : list F) : res (list F) :=
    match xs with
    | s0 :: r =>
        let mn := firstn 3 r in
        let mx := firstn 3 (skipn 3 r) in
        let ps := firstn np (skipn 6 r) in
        event_loop flow hl vl ps mn mx (ev_init s0) ncalls (skipn (6 + np) r)
    | _ => Err OtherError
    end.

  (* mode 0: regular_steps None; mode 1: Some n.   input: path.t *)
  Definition run_timestamps (mode : Z) (n : nat) (ts : list F) : res (list F) :=
    Ok (timestamps ts (if Z.eqb mode 0 then None else Some n)).
End Entry.
