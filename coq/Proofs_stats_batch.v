(* Proofs_stats_batch.v -- C15, second part: (a) which variates can draw a zero-volume grain
   (exactly u = 0, and then always when the snapshot has one), (b) the stack call is the
   map of the one-snapshot call: snapshot i of a stack sees only its own data and the i-th
   draw -- nothing else is carried from one snapshot (or one call) to the next. *)
From Coq Require Import Reals ZArith List Bool Arith Lia Lra Permutation.
From PV Require Import Num NumR Model_stats Proofs_stats.
Import ListNotations.
Open Scope R_scope.

(* u = 0 is below no cumulative edge of non-negative volumes: position 0 is selected *)
Lemma search_left_u0 (fa c : list R) :
  Forall (fun x => 0 <= x) fa -> @pin_last NumR (@cumsum NumR fa) = Ok c ->
  @searchsorted NumR false c 0 = 0%nat.
Proof.
  intros Hpos Hp. destruct fa as [|a fa]; [discriminate Hp|].
  unfold pin_last in Hp. cbn [cumsum] in Hp.
  apply (f_equal (fun r => match r with Ok x => x | Err _ => [] end)) in Hp. subst c.
  inversion Hpos as [|? ? Ha Hr]; subst.
  unfold searchsorted. destruct fa as [|b fa]; cbn [cumsum_from removelast app count_while].
  - replace (@ltb NumR (@one NumR) 0) with false; [reflexivity|].
    symmetry. numR. apply Rltb_false. lra.
  - replace (@ltb NumR a 0) with false; [reflexivity|].
    symmetry. numR. apply Rltb_false. exact Ha.
Qed.

Section One.
  Context {O : Type}.

  (* a drawn volume that is not positive comes from a variate that is exactly 0 *)
  Lemma resample_one_zero_only_u0 (orient : list O) (f : list R) pi us os' fs' :
    @resample_one NumR O faithful orient f pi us = Ok (os', fs') ->
    is_perm (length f) pi -> Forall (fun x => 0 <= x) f -> lsum f = 1 ->
    Forall (fun u => 0 <= u < 1) us -> Forall2 (fun u x => x <= 0 -> u = 0) us fs'.
  Proof.
    intros H Hp Hpos Hs Hu. apply resample_one_inv in H.
    destruct H as (fa & oa & c & Hfa & _ & Hc & _ & H2).
    pose proof (gather_perm f pi fa Hp Hfa) as Pf.
    assert (Hpos' : Forall (fun x => 0 <= x) fa).
    { apply Forall_forall. intros x Hx. rewrite Forall_forall in Hpos. apply Hpos.
      eapply Permutation_in; [exact Pf | exact Hx]. }
    assert (Hs' : lsum fa = 1) by (rewrite (lsum_perm _ _ Pf); exact Hs).
    clear -H2 Hu Hpos' Hs' Hc. induction H2 as [|u x us fs' Hx _ IH]; constructor.
    - inversion Hu as [|? ? Hu0 _]; subst. intros Hx0.
      destruct (Rle_lt_or_eq_dec 0 u (proj1 Hu0)) as [Hlt|Heq]; [|symmetry; exact Heq].
      exfalso. pose proof (search_left_positive fa c u Hpos' Hs' Hc (conj Hlt (proj2 Hu0))) as Hk.
      erewrite nth_error_nth in Hk by exact Hx. lra.
    - apply IH. inversion Hu; assumption.
  Qed.

  (* ... and a variate that is exactly 0 returns the first entry of the sorted volumes *)
  Lemma resample_one_u0_first (orient : list O) (f : list R) pi us os' fs' fa s :
    @resample_one NumR O faithful orient f pi us = Ok (os', fs') ->
    is_perm (length f) pi -> Forall (fun x => 0 <= x) f ->
    gather f pi = Ok fa -> nth_error us s = Some 0 -> nth_error fs' s = Some (nth 0 fa 0).
  Proof.
    intros H Hp Hpos Hfa Hs. apply resample_one_inv in H.
    destruct H as (fa' & oa & c & Hfa' & _ & Hc & _ & H2).
    rewrite Hfa in Hfa'. injection Hfa' as <-.
    pose proof (gather_perm f pi fa Hp Hfa) as Pf.
    assert (Hpos' : Forall (fun x => 0 <= x) fa).
    { apply Forall_forall. intros x Hx. rewrite Forall_forall in Hpos. apply Hpos.
      eapply Permutation_in; [exact Pf | exact Hx]. }
    destruct (Forall2_nth_error_l _ _ _ _ _ H2 Hs) as (x & Hx & Kx).
    rewrite (search_left_u0 fa c Hpos' Hc) in Kx. change (T NumR) with R in *.
    rewrite Hx. f_equal. symmetry. apply nth_error_nth. exact Kx.
  Qed.

  (* the sort is ascending (first entry = minimum) and the snapshot has an empty grain:
     the variate 0 draws a grain of volume 0.  General form of C15_zero_volume_u0_witness. *)
  Lemma resample_one_u0_draws_empty (orient : list O) (f : list R) pi us os' fs' fa s :
    @resample_one NumR O faithful orient f pi us = Ok (os', fs') ->
    is_perm (length f) pi -> Forall (fun x => 0 <= x) f ->
    gather f pi = Ok fa -> Forall (fun y => nth 0 fa 0 <= y) fa -> In 0 f ->
    nth_error us s = Some 0 -> nth_error fs' s = Some 0.
  Proof.
    intros H Hp Hpos Hfa Hmin Hin Hs.
    rewrite (resample_one_u0_first orient f pi us os' fs' fa s H Hp Hpos Hfa Hs). f_equal.
    pose proof (gather_perm f pi fa Hp Hfa) as Pf.
    assert (Hin' : In 0 fa) by (eapply Permutation_in; [apply Permutation_sym; exact Pf | exact Hin]).
    rewrite Forall_forall in Hmin. specialize (Hmin 0 Hin').
    assert (H0 : 0 <= nth 0 fa 0).
    { apply nth_nonneg. apply Forall_forall. intros x Hx. rewrite Forall_forall in Hpos. apply Hpos.
      eapply Permutation_in; [exact Pf | exact Hx]. }
    lra.
  Qed.
End One.

Section Whole.
  Context {O : Type}.
  Variable argsort : nat -> list R -> list nat.
  Variable draw : nat -> nat -> list R.

  Notation resampleR := (@resample NumR O argsort draw).

  (* whole function: a non-positive volume in the output of snapshot i at sample s means that
     the s-th variate of the i-th draw is exactly 0 (no hypothesis that variates are > 0) *)
  Theorem zero_volume_only_at_u0 so sf os fs ns oo ff :
    resampleR faithful so sf os fs ns = Ok (oo, ff) ->
    argsort_perm argsort -> draw_ok draw ->
    Forall (fun f => Forall (fun x => 0 <= x) f /\ lsum f = 1) fs ->
    forall i s frow x, nth_error ff i = Some frow -> nth_error frow s = Some x -> x <= 0 ->
      nth_error (draw i (n_of sf ns)) s = Some 0.
  Proof.
    intros H Ha Hd Hf i s frow x Hi Hsx Hx0.
    apply resample_inv in H. destruct H as (_ & _ & rs & Hl & _ & ->).
    apply nth_error_map_inv in Hi. destruct Hi as ([a b] & Hr & <-). cbn [snd] in Hsx.
    destruct (loop_inv argsort draw _ _ _ _ _ _ Hl i (a, b) Hr) as (o & f & _ & H2 & H3).
    rewrite Forall_forall in Hf. destruct (Hf f (nth_error_In _ _ H2)) as [F1 F2].
    cbn [plus] in H3.
    destruct (Hd i (n_of sf ns)) as [_ D1].
    pose proof (resample_one_zero_only_u0 o f _ _ a b H3 (Ha i f) F1 F2 D1) as HH.
    destruct (Forall2_nth_error_r _ _ _ _ _ HH Hsx) as (u & Hu & Ku).
    rewrite Hu. f_equal. apply Ku. exact Hx0.
  Qed.

  (* row i of the stack result is the one-snapshot computation on snapshot i with the i-th
     sort permutation and the i-th draw: no other data enters *)
  Theorem batch_rowwise v so sf os fs ns oo ff :
    resampleR v so sf os fs ns = Ok (oo, ff) ->
    forall i orow frow, nth_error oo i = Some orow -> nth_error ff i = Some frow ->
    exists o f, nth_error os i = Some o /\ nth_error fs i = Some f /\
      @resample_one NumR O v o f (argsort i f) (draw i (n_of sf ns)) = Ok (orow, frow).
  Proof.
    intros H i orow frow Ho Hf.
    apply resample_inv in H. destruct H as (_ & _ & rs & Hl & -> & ->).
    apply nth_error_map_inv in Ho. destruct Ho as ([a b] & Hr & <-).
    apply nth_error_map_inv in Hf. destruct Hf as ([a' b'] & Hr' & <-).
    rewrite Hr in Hr'. injection Hr' as <- <-. cbn [fst snd].
    destruct (loop_inv argsort draw _ _ _ _ _ _ Hl i (a, b) Hr) as (o & f & H1 & H2 & H3).
    exists o, f. repeat split; assumption.
  Qed.

  (* batch call = map of the single call: calling the function on the one-snapshot stack
     [snapshot i], with the generator advanced to its i-th draw, returns exactly row i of the
     call on the whole stack *)
  Theorem batch_is_map_of_single v N M os fs ns oo ff :
    resampleR v [N; M; 3; 3]%nat [N; M] os fs ns = Ok (oo, ff) ->
    forall i o f, nth_error os i = Some o -> nth_error fs i = Some f ->
    exists orow frow, nth_error oo i = Some orow /\ nth_error ff i = Some frow /\
      @resample NumR O (fun j => argsort (i + j)%nat) (fun j => draw (i + j)%nat) v
                [1; M; 3; 3]%nat [1; M]%nat [o] [f] ns = Ok ([orow], [frow]).
  Proof.
    intros H i o f Hio Hif.
    pose proof H as H0. apply resample_inv in H0. destruct H0 as (_ & Hns & rs & Hl & -> & ->).
    pose proof (loop_length argsort draw _ _ _ _ _ _ Hl) as Ll.
    destruct (nth_error rs i) as [[a b]|] eqn:Hr.
    2:{ apply nth_error_None in Hr. assert (i < length os)%nat by (apply nth_error_Some; congruence). lia. }
    destruct (loop_inv argsort draw _ _ _ _ _ _ Hl i (a, b) Hr) as (o' & f' & H1 & H2 & H3).
    rewrite Hio in H1. injection H1 as <-. rewrite Hif in H2. injection H2 as <-.
    exists a, b. split; [rewrite nth_error_map, Hr; reflexivity|].
    split; [rewrite nth_error_map, Hr; reflexivity|].
    unfold resample.
    rewrite (proj2 (validation_spec _ _)) by (exists 1%nat, M; split; reflexivity).
    assert (En : (match ns with None => Ok (nth 1 [1; M]%nat 0%nat)
                  | Some z => if (z <? 0)%Z then Err ValueError else Ok (Z.to_nat z) end)
                 = @Ok nat (n_of [N; M] ns)).
    { destruct ns as [z|]; [|reflexivity]. specialize (Hns z eq_refl).
      destruct (Z.ltb_spec z 0); [lia | reflexivity]. }
    rewrite En. cbn [bind loop]. rewrite Nat.add_0_r. cbn [plus] in H3.
    change (T NumR) with R in *. rewrite H3. reflexivity.
  Qed.
End Whole.

(* non-vacuity of the u = 0 statement: ascending sort, an empty grain, variates 0 and 1/2 *)
Lemma u0_hypotheses_satisfiable :
  @resample_one NumR nat faithful [7; 8; 9]%nat [1/2; 0; 1/2] [1; 0; 2]%nat [0; 1/2]
    = Ok ([8; 7]%nat, [0; 1/2]) /\
  is_perm 3 [1; 0; 2]%nat /\ Forall (fun x => 0 <= x) [1/2; 0; 1/2] /\ lsum [1/2; 0; 1/2] = 1 /\
  gather [1/2; 0; 1/2] [1; 0; 2]%nat = Ok [0; 1/2; 1/2] /\
  Forall (fun y => nth 0 [0; 1/2; 1/2] 0 <= y) [0; 1/2; 1/2] /\ In 0 [1/2; 0; 1/2].
Proof.
  split; [|split; [|split; [|split; [|split; [|split]]]]].
  - run_one. reflexivity.
  - unfold is_perm. cbn. apply perm_swap.
  - repeat constructor; lra.
  - unfold lsum. cbn. lra.
  - reflexivity.
  - cbn [nth]. repeat constructor; lra.
  - cbn. right. left. reflexivity.
Qed.
