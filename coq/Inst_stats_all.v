(* Inst_stats_all.v -- the generated definitions of gen/Gen_stats.v as ONE family, and the C15
   theorems about every member of it (Proofs_stats_gen.v instantiated by the instance lemmas). *)
From Coq Require Import Reals ZArith List Bool Lra Lia Permutation.
From PV Require Import Num NumR Model_stats Proofs_stats Proofs_stats_batch Inst_stats Inst_stats_M3 Inst_stats_M3d
                       Inst_stats_N2 Inst_stats_N2d Proofs_stats_gen.
From PV.gen Require Import Gen_stats.
Import ListNotations.
Open Scope R_scope.

Notation p0 pis := (perm_code (nth 0 pis [])).
Notation p1 pis := (perm_code (nth 1 pis [])).

(* `generated N M ns n g`: g is the definition regenerated from resample_orientations for N snapshots
   of M grains, called with n_samples = ns (None = argument omitted, as is the seed), n variates per
   snapshot; arguments: the sort permutations (one per snapshot), flat orientations (N*M*9), flat
   volumes (N*M), flat variates (N*n) *)
Inductive generated : nat -> nat -> option Z -> nat ->
    (list (list nat) -> RL -> RL -> RL -> res (arr R * arr R)) -> Prop :=
| gen_N1_M1_n1 : generated 1 1 (Some 1%Z) 1
    (fun pis o f u => @k_resample_N1_M1_n1 NumR (A o) (A f) (A u) (p0 pis))
| gen_N1_M1_n2 : generated 1 1 (Some 2%Z) 2
    (fun pis o f u => @k_resample_N1_M1_n2 NumR (A o) (A f) (A u) (p0 pis))
| gen_N1_M1_n3 : generated 1 1 (Some 3%Z) 3
    (fun pis o f u => @k_resample_N1_M1_n3 NumR (A o) (A f) (A u) (p0 pis))
| gen_N1_M1_default : generated 1 1 None 1
    (fun pis o f u => @k_resample_N1_M1_default NumR (A o) (A f) (A u) (p0 pis))
| gen_N1_M2_n1 : generated 1 2 (Some 1%Z) 1
    (fun pis o f u => @k_resample_N1_M2_n1 NumR (A o) (A f) (A u) (p0 pis))
| gen_N1_M2_n2 : generated 1 2 (Some 2%Z) 2
    (fun pis o f u => @k_resample_N1_M2_n2 NumR (A o) (A f) (A u) (p0 pis))
| gen_N1_M2_n3 : generated 1 2 (Some 3%Z) 3
    (fun pis o f u => @k_resample_N1_M2_n3 NumR (A o) (A f) (A u) (p0 pis))
| gen_N1_M2_default : generated 1 2 None 2
    (fun pis o f u => @k_resample_N1_M2_default NumR (A o) (A f) (A u) (p0 pis))
| gen_N1_M3_n1 : generated 1 3 (Some 1%Z) 1
    (fun pis o f u => @k_resample_N1_M3_n1 NumR (A o) (A f) (A u) (p0 pis))
| gen_N1_M3_n2 : generated 1 3 (Some 2%Z) 2
    (fun pis o f u => @k_resample_N1_M3_n2 NumR (A o) (A f) (A u) (p0 pis))
| gen_N1_M3_n3 : generated 1 3 (Some 3%Z) 3
    (fun pis o f u => @k_resample_N1_M3_n3 NumR (A o) (A f) (A u) (p0 pis))
| gen_N1_M3_default : generated 1 3 None 3
    (fun pis o f u => @k_resample_N1_M3_default NumR (A o) (A f) (A u) (p0 pis))
| gen_N2_M2_n1 : generated 2 2 (Some 1%Z) 1
    (fun pis o f u => @k_resample_N2_M2_n1 NumR (A o) (A f) (A u) (p0 pis) (p1 pis))
| gen_N2_M2_n2 : generated 2 2 (Some 2%Z) 2
    (fun pis o f u => @k_resample_N2_M2_n2 NumR (A o) (A f) (A u) (p0 pis) (p1 pis))
| gen_N2_M2_default : generated 2 2 None 2
    (fun pis o f u => @k_resample_N2_M2_default NumR (A o) (A f) (A u) (p0 pis) (p1 pis)).

Lemma generated_inst N M ns n g : generated N M ns n g -> inst_stmt N M ns n g.
Proof.
  destruct 1.
  - exact resample_inst_N1_M1_n1.
  - exact resample_inst_N1_M1_n2.
  - exact resample_inst_N1_M1_n3.
  - exact resample_inst_N1_M1_default.
  - exact resample_inst_N1_M2_n1.
  - exact resample_inst_N1_M2_n2.
  - exact resample_inst_N1_M2_n3.
  - exact resample_inst_N1_M2_default.
  - exact resample_inst_N1_M3_n1.
  - exact resample_inst_N1_M3_n2.
  - exact resample_inst_N1_M3_n3.
  - exact resample_inst_N1_M3_default.
  - exact resample_inst_N2_M2_n1.
  - exact resample_inst_N2_M2_n2.
  - exact resample_inst_N2_M2_default.
Qed.

Lemma generated_n N M ns n g : generated N M ns n g -> n_of [N; M] ns = n.
Proof. destruct 1; reflexivity. Qed.

(* the well-formedness of the flat arguments *)
Definition flat_ok (N M n : nat) (pis : list (list nat)) (o f u : RL) : Prop :=
  length pis = N /\ Forall (is_perm M) pis /\ length o = (N * M * 9)%nat /\ length f = (N * M)%nat /\ length u = (N * n)%nat.

(* generated = model, whole family *)
Theorem generated_is_model N M ns n g : generated N M ns n g ->
  forall pis o f u, flat_ok N M n pis o f u -> g pis o f u = pack (model N M ns n pis o f u).
Proof.
  intros G pis o f u (H1 & H2 & H3 & H4 & H5). exact (generated_inst _ _ _ _ _ G pis o f u H1 H2 H3 H4 H5).
Qed.

Theorem generated_membership N M ns n g : generated N M ns n g ->
  forall pis o f u ao af, flat_ok N M n pis o f u -> g pis o f u = Ok (ao, af) ->
  exists oo ff, ao = A (concat (concat oo)) /\ af = A (concat ff) /\
  forall i s orow frow ori x,
    nth_error oo i = Some orow -> nth_error ff i = Some frow ->
    nth_error orow s = Some ori -> nth_error frow s = Some x ->
    exists osnap fsnap j, nth_error (grains N M o) i = Some osnap /\ nth_error (rows N M f) i = Some fsnap /\
      nth_error osnap j = Some ori /\ nth_error fsnap j = Some x.
Proof.
  intros G pis o f u ao af (H1 & H2 & H3 & H4 & H5).
  exact (gen_membership N M ns n g (generated_inst _ _ _ _ _ G) pis o f u H1 H2 H3 H4 H5 ao af).
Qed.

Theorem generated_zero_volume_never N M ns n g : generated N M ns n g ->
  forall pis o f u ao af, flat_ok N M n pis o f u -> g pis o f u = Ok (ao, af) ->
  Forall (fun x => 0 < x < 1) u ->
  Forall (fun r => Forall (fun x => 0 <= x) r /\ lsum r = 1) (rows N M f) ->
  forall k, (k < N * n)%nat -> 0 < af k.
Proof.
  intros G pis o f u ao af (H1 & H2 & H3 & H4 & H5).
  exact (gen_zero_volume_never N M ns n g (generated_inst _ _ _ _ _ G) pis o f u H1 H2 H3 H4 H5
           (generated_n _ _ _ _ _ G) ao af).
Qed.

Theorem generated_zero_volume_only_at_u0 N M ns n g : generated N M ns n g ->
  forall pis o f u ao af, flat_ok N M n pis o f u -> g pis o f u = Ok (ao, af) ->
  Forall (fun x => 0 <= x < 1) u ->
  Forall (fun r => Forall (fun x => 0 <= x) r /\ lsum r = 1) (rows N M f) ->
  exists oo ff, ao = A (concat (concat oo)) /\ af = A (concat ff) /\
  forall i s frow x, nth_error ff i = Some frow -> nth_error frow s = Some x -> x <= 0 ->
    exists urow, nth_error (rows N n u) i = Some urow /\ nth_error urow s = Some 0.
Proof.
  intros G pis o f u ao af (H1 & H2 & H3 & H4 & H5).
  exact (gen_zero_volume_only_at_u0 N M ns n g (generated_inst _ _ _ _ _ G) pis o f u H1 H2 H3 H4 H5
           (generated_n _ _ _ _ _ G) ao af).
Qed.

Theorem generated_draw_interval N M ns n g : generated N M ns n g ->
  forall pis o f u ao af, flat_ok N M n pis o f u -> g pis o f u = Ok (ao, af) ->
  Forall (fun r => Forall (fun x => 0 <= x) r /\ lsum r = 1) (rows N M f) ->
  exists oo ff, ao = A (concat (concat oo)) /\ af = A (concat ff) /\
  forall i orow frow, nth_error oo i = Some orow -> nth_error ff i = Some frow ->
  exists osnap fsnap pi urow fa oa,
    nth_error (grains N M o) i = Some osnap /\ nth_error (rows N M f) i = Some fsnap /\
    nth_error pis i = Some pi /\ nth_error (rows N n u) i = Some urow /\
    gather fsnap pi = Ok fa /\ gather osnap pi = Ok oa /\ Permutation fa fsnap /\
    forall s us k, nth_error urow s = Some us -> 0 < us -> (k < length fa)%nat ->
      psum fa k < us <= psum fa (S k) ->
      nth_error frow s = Some (nth k fa 0) /\ nth_error orow s = nth_error oa k /\
      psum fa (S k) - psum fa k = nth k fa 0.
Proof.
  intros G pis o f u ao af (H1 & H2 & H3 & H4 & H5).
  exact (gen_draw_interval N M ns n g (generated_inst _ _ _ _ _ G) pis o f u H1 H2 H3 H4 H5
           (generated_n _ _ _ _ _ G) ao af).
Qed.

(* ---- the shape test: the 24 generated definitions as one family ---- *)
Notation d0 l k := (Z.of_nat (nth k l 0%nat)).

Inductive validated : nat -> nat -> (list nat -> list nat -> res R) -> Prop :=
| val_o0_f0 : validated 0 0 (fun so sf => @k_validate_o0_f0 NumR )
| val_o0_f1 : validated 0 1 (fun so sf => @k_validate_o0_f1 NumR (d0 sf 0))
| val_o0_f2 : validated 0 2 (fun so sf => @k_validate_o0_f2 NumR (d0 sf 0) (d0 sf 1))
| val_o0_f3 : validated 0 3 (fun so sf => @k_validate_o0_f3 NumR (d0 sf 0) (d0 sf 1) (d0 sf 2))
| val_o1_f0 : validated 1 0 (fun so sf => @k_validate_o1_f0 NumR (d0 so 0))
| val_o1_f1 : validated 1 1 (fun so sf => @k_validate_o1_f1 NumR (d0 so 0) (d0 sf 0))
| val_o1_f2 : validated 1 2 (fun so sf => @k_validate_o1_f2 NumR (d0 so 0) (d0 sf 0) (d0 sf 1))
| val_o1_f3 : validated 1 3 (fun so sf => @k_validate_o1_f3 NumR (d0 so 0) (d0 sf 0) (d0 sf 1) (d0 sf 2))
| val_o2_f0 : validated 2 0 (fun so sf => @k_validate_o2_f0 NumR (d0 so 0) (d0 so 1))
| val_o2_f1 : validated 2 1 (fun so sf => @k_validate_o2_f1 NumR (d0 so 0) (d0 so 1) (d0 sf 0))
| val_o2_f2 : validated 2 2 (fun so sf => @k_validate_o2_f2 NumR (d0 so 0) (d0 so 1) (d0 sf 0) (d0 sf 1))
| val_o2_f3 : validated 2 3 (fun so sf => @k_validate_o2_f3 NumR (d0 so 0) (d0 so 1) (d0 sf 0) (d0 sf 1) (d0 sf 2))
| val_o3_f0 : validated 3 0 (fun so sf => @k_validate_o3_f0 NumR (d0 so 0) (d0 so 1) (d0 so 2))
| val_o3_f1 : validated 3 1 (fun so sf => @k_validate_o3_f1 NumR (d0 so 0) (d0 so 1) (d0 so 2) (d0 sf 0))
| val_o3_f2 : validated 3 2 (fun so sf => @k_validate_o3_f2 NumR (d0 so 0) (d0 so 1) (d0 so 2) (d0 sf 0) (d0 sf 1))
| val_o3_f3 : validated 3 3 (fun so sf => @k_validate_o3_f3 NumR (d0 so 0) (d0 so 1) (d0 so 2) (d0 sf 0) (d0 sf 1) (d0 sf 2))
| val_o4_f0 : validated 4 0 (fun so sf => @k_validate_o4_f0 NumR (d0 so 0) (d0 so 1) (d0 so 2) (d0 so 3))
| val_o4_f1 : validated 4 1 (fun so sf => @k_validate_o4_f1 NumR (d0 so 0) (d0 so 1) (d0 so 2) (d0 so 3) (d0 sf 0))
| val_o4_f2 : validated 4 2 (fun so sf => @k_validate_o4_f2 NumR (d0 so 0) (d0 so 1) (d0 so 2) (d0 so 3) (d0 sf 0) (d0 sf 1))
| val_o4_f3 : validated 4 3 (fun so sf => @k_validate_o4_f3 NumR (d0 so 0) (d0 so 1) (d0 so 2) (d0 so 3) (d0 sf 0) (d0 sf 1) (d0 sf 2))
| val_o5_f0 : validated 5 0 (fun so sf => @k_validate_o5_f0 NumR (d0 so 0) (d0 so 1) (d0 so 2) (d0 so 3) (d0 so 4))
| val_o5_f1 : validated 5 1 (fun so sf => @k_validate_o5_f1 NumR (d0 so 0) (d0 so 1) (d0 so 2) (d0 so 3) (d0 so 4) (d0 sf 0))
| val_o5_f2 : validated 5 2 (fun so sf => @k_validate_o5_f2 NumR (d0 so 0) (d0 so 1) (d0 so 2) (d0 so 3) (d0 so 4) (d0 sf 0) (d0 sf 1))
| val_o5_f3 : validated 5 3 (fun so sf => @k_validate_o5_f3 NumR (d0 so 0) (d0 so 1) (d0 so 2) (d0 so 3) (d0 so 4) (d0 sf 0) (d0 sf 1) (d0 sf 2)).

Theorem validated_is_model ro rf k : validated ro rf k ->
  forall so sf, length so = ro -> length sf = rf -> k so sf = validate_model so sf.
Proof.
  destruct 1; intros so sf Ho Hf.
  - exact (validate_inst_o0_f0 so sf Ho Hf).
  - exact (validate_inst_o0_f1 so sf Ho Hf).
  - exact (validate_inst_o0_f2 so sf Ho Hf).
  - exact (validate_inst_o0_f3 so sf Ho Hf).
  - exact (validate_inst_o1_f0 so sf Ho Hf).
  - exact (validate_inst_o1_f1 so sf Ho Hf).
  - exact (validate_inst_o1_f2 so sf Ho Hf).
  - exact (validate_inst_o1_f3 so sf Ho Hf).
  - exact (validate_inst_o2_f0 so sf Ho Hf).
  - exact (validate_inst_o2_f1 so sf Ho Hf).
  - exact (validate_inst_o2_f2 so sf Ho Hf).
  - exact (validate_inst_o2_f3 so sf Ho Hf).
  - exact (validate_inst_o3_f0 so sf Ho Hf).
  - exact (validate_inst_o3_f1 so sf Ho Hf).
  - exact (validate_inst_o3_f2 so sf Ho Hf).
  - exact (validate_inst_o3_f3 so sf Ho Hf).
  - exact (validate_inst_o4_f0 so sf Ho Hf).
  - exact (validate_inst_o4_f1 so sf Ho Hf).
  - exact (validate_inst_o4_f2 so sf Ho Hf).
  - exact (validate_inst_o4_f3 so sf Ho Hf).
  - exact (validate_inst_o5_f0 so sf Ho Hf).
  - exact (validate_inst_o5_f1 so sf Ho Hf).
  - exact (validate_inst_o5_f2 so sf Ho Hf).
  - exact (validate_inst_o5_f3 so sf Ho Hf).
Qed.

(* the generated test lets exactly the shapes (N, M, 3, 3) / (N, M) through; everything else is
   ValueError, raised before the generator is created *)
Theorem validated_spec ro rf k : validated ro rf k ->
  forall so sf, length so = ro -> length sf = rf ->
  (k so sf = Ok 0 <-> exists N M, so = [N; M; 3; 3]%nat /\ sf = [N; M]) /\
  (k so sf = Ok 0 \/ k so sf = Err ValueError).
Proof.
  intros V so sf Ho Hf. rewrite (validated_is_model _ _ _ V so sf Ho Hf). unfold validate_model.
  pose proof (validation_spec so sf) as S. unfold well_shaped in S.
  destruct (shape_bad so sf); split; try (right; reflexivity); try (left; reflexivity).
  - split; [discriminate|]. intros E. apply S in E. discriminate.
  - split; [intros _; apply S; reflexivity | reflexivity].
Qed.

(* n_samples < 0 on generated code *)
Theorem generated_negative_samples (o f : RL) : length o = 18%nat -> length f = 2%nat ->
  @k_resample_N1_M2_neg NumR (A o) (A f) = Err ValueError.
Proof. intros Ho Hf. rewrite (resample_inst_N1_M2_neg o f Ho Hf). explode o Ho. explode f Hf. reflexivity. Qed.

(* ---- non-vacuity: a concrete call of generated code under all hypotheses used above ---- *)
Definition ex_o : RL := map IZR [1;2;3;4;5;6;7;8;9; 11;12;13;14;15;16;17;18;19]%Z.

Ltac rcmp_gen :=
  repeat match goal with
  | |- context [Rltb ?a ?b] =>
      first [ rewrite (proj2 (Rltb_true a b)) by lra | rewrite (proj2 (Rltb_false a b)) by lra ]
  end.

Lemma generated_nonvacuous :
  let pis := [[1; 0]%nat] in let f := [3/4; 1/4] in let u := [1/2; 1/8] in
  generated 1 2 (Some 2%Z) 2 (fun pis o f u => @k_resample_N1_M2_n2 NumR (A o) (A f) (A u) (p0 pis)) /\
  flat_ok 1 2 2 pis ex_o f u /\
  Forall (fun x => 0 < x < 1) u /\
  Forall (fun r => Forall (fun x => 0 <= x) r /\ lsum r = 1) (rows 1 2 f) /\
  @k_resample_N1_M2_n2 NumR (A ex_o) (A f) (A u) (p0 pis)
    = Ok (A (map IZR [1;2;3;4;5;6;7;8;9; 11;12;13;14;15;16;17;18;19]%Z), A [3/4; 1/4]).
Proof.
  cbv zeta. split; [constructor|]. split; [|split; [|split]].
  - unfold flat_ok. repeat split; try reflexivity. constructor; [|constructor].
    unfold is_perm. cbn. apply perm_swap.
  - repeat constructor; lra.
  - cbn. constructor; [|constructor]. split; [repeat constructor; lra | unfold lsum; cbn; lra].
  - unfold k_resample_N1_M2_n2, ex_o. cbv -[Rltb Rleb Reqb Rplus Rminus Rmult Rdiv Ropp IZR Rinv].
    rcmp_gen. reflexivity.
Qed.
