(* Proofs_decomp2.v -- towards the frame clause of C12: how the two contractions rotate, a
   column-orthonormal 3x3 matrix is row-orthonormal, uniqueness (up to sign) of unit
   eigenvectors for distinct eigenvalues, and the analysis of the SCCS pairing of
   Model_decomp for eigenbases that are signed permutations of the columns of one frame. *)
From Coq Require Import Reals ZArith List Lra Lia Bool Nsatz.
From PV Require Import Num NumR Model_voigt Model_decomp Proofs_tensors_alg Proofs_tensors_rot
  Proofs_tensors_maps Proofs_tensors_proj Inst_tensors Proofs_decomp.
From PV.gen Require Import Gen_tensors.
Import ListNotations.
Open Scope R_scope.

(* ---------------------------------------------------------------------- *)
(* Q^T Q = I  ->  Q Q^T = I   (3x3, via the adjugate)                       *)
(* ---------------------------------------------------------------------- *)
Lemma orth_tr (Q : M3) : orth Q -> orth (tr3 Q).
Proof.
  intros H.
  pose proof (H 0 0 ltac:(lia) ltac:(lia))%nat as H00. pose proof (H 0 1 ltac:(lia) ltac:(lia))%nat as H01.
  pose proof (H 0 2 ltac:(lia) ltac:(lia))%nat as H02. pose proof (H 1 1 ltac:(lia) ltac:(lia))%nat as H11.
  pose proof (H 1 2 ltac:(lia) ltac:(lia))%nat as H12. pose proof (H 2 2 ltac:(lia) ltac:(lia))%nat as H22.
  cbn [Nat.eqb] in *. unfold sum3 in *.
  (* || Q Q^T - I ||_F^2 = || Q^T Q ||_F^2 - 2 tr(Q^T Q) + 3 = 3 - 6 + 3 = 0 *)
  assert (S: ((Q 0%nat 0%nat * Q 0%nat 0%nat + Q 0%nat 1%nat * Q 0%nat 1%nat + Q 0%nat 2%nat * Q 0%nat 2%nat) - 1) * ((Q 0%nat 0%nat * Q 0%nat 0%nat + Q 0%nat 1%nat * Q 0%nat 1%nat + Q 0%nat 2%nat * Q 0%nat 2%nat) - 1) + (Q 0%nat 0%nat * Q 1%nat 0%nat + Q 0%nat 1%nat * Q 1%nat 1%nat + Q 0%nat 2%nat * Q 1%nat 2%nat) * (Q 0%nat 0%nat * Q 1%nat 0%nat + Q 0%nat 1%nat * Q 1%nat 1%nat + Q 0%nat 2%nat * Q 1%nat 2%nat) + (Q 0%nat 0%nat * Q 2%nat 0%nat + Q 0%nat 1%nat * Q 2%nat 1%nat + Q 0%nat 2%nat * Q 2%nat 2%nat) * (Q 0%nat 0%nat * Q 2%nat 0%nat + Q 0%nat 1%nat * Q 2%nat 1%nat + Q 0%nat 2%nat * Q 2%nat 2%nat) + (Q 1%nat 0%nat * Q 0%nat 0%nat + Q 1%nat 1%nat * Q 0%nat 1%nat + Q 1%nat 2%nat * Q 0%nat 2%nat) * (Q 1%nat 0%nat * Q 0%nat 0%nat + Q 1%nat 1%nat * Q 0%nat 1%nat + Q 1%nat 2%nat * Q 0%nat 2%nat) + ((Q 1%nat 0%nat * Q 1%nat 0%nat + Q 1%nat 1%nat * Q 1%nat 1%nat + Q 1%nat 2%nat * Q 1%nat 2%nat) - 1) * ((Q 1%nat 0%nat * Q 1%nat 0%nat + Q 1%nat 1%nat * Q 1%nat 1%nat + Q 1%nat 2%nat * Q 1%nat 2%nat) - 1) + (Q 1%nat 0%nat * Q 2%nat 0%nat + Q 1%nat 1%nat * Q 2%nat 1%nat + Q 1%nat 2%nat * Q 2%nat 2%nat) * (Q 1%nat 0%nat * Q 2%nat 0%nat + Q 1%nat 1%nat * Q 2%nat 1%nat + Q 1%nat 2%nat * Q 2%nat 2%nat) + (Q 2%nat 0%nat * Q 0%nat 0%nat + Q 2%nat 1%nat * Q 0%nat 1%nat + Q 2%nat 2%nat * Q 0%nat 2%nat) * (Q 2%nat 0%nat * Q 0%nat 0%nat + Q 2%nat 1%nat * Q 0%nat 1%nat + Q 2%nat 2%nat * Q 0%nat 2%nat) + (Q 2%nat 0%nat * Q 1%nat 0%nat + Q 2%nat 1%nat * Q 1%nat 1%nat + Q 2%nat 2%nat * Q 1%nat 2%nat) * (Q 2%nat 0%nat * Q 1%nat 0%nat + Q 2%nat 1%nat * Q 1%nat 1%nat + Q 2%nat 2%nat * Q 1%nat 2%nat) + ((Q 2%nat 0%nat * Q 2%nat 0%nat + Q 2%nat 1%nat * Q 2%nat 1%nat + Q 2%nat 2%nat * Q 2%nat 2%nat) - 1) * ((Q 2%nat 0%nat * Q 2%nat 0%nat + Q 2%nat 1%nat * Q 2%nat 1%nat + Q 2%nat 2%nat * Q 2%nat 2%nat) - 1) = 0).
  { transitivity ((Q 0%nat 0%nat * Q 0%nat 0%nat + Q 1%nat 0%nat * Q 1%nat 0%nat + Q 2%nat 0%nat * Q 2%nat 0%nat) * (Q 0%nat 0%nat * Q 0%nat 0%nat + Q 1%nat 0%nat * Q 1%nat 0%nat + Q 2%nat 0%nat * Q 2%nat 0%nat) + (Q 0%nat 1%nat * Q 0%nat 1%nat + Q 1%nat 1%nat * Q 1%nat 1%nat + Q 2%nat 1%nat * Q 2%nat 1%nat) * (Q 0%nat 1%nat * Q 0%nat 1%nat + Q 1%nat 1%nat * Q 1%nat 1%nat + Q 2%nat 1%nat * Q 2%nat 1%nat) + (Q 0%nat 2%nat * Q 0%nat 2%nat + Q 1%nat 2%nat * Q 1%nat 2%nat + Q 2%nat 2%nat * Q 2%nat 2%nat) * (Q 0%nat 2%nat * Q 0%nat 2%nat + Q 1%nat 2%nat * Q 1%nat 2%nat + Q 2%nat 2%nat * Q 2%nat 2%nat) + 2 * ((Q 0%nat 0%nat * Q 0%nat 1%nat + Q 1%nat 0%nat * Q 1%nat 1%nat + Q 2%nat 0%nat * Q 2%nat 1%nat) * (Q 0%nat 0%nat * Q 0%nat 1%nat + Q 1%nat 0%nat * Q 1%nat 1%nat + Q 2%nat 0%nat * Q 2%nat 1%nat)) + 2 * ((Q 0%nat 0%nat * Q 0%nat 2%nat + Q 1%nat 0%nat * Q 1%nat 2%nat + Q 2%nat 0%nat * Q 2%nat 2%nat) * (Q 0%nat 0%nat * Q 0%nat 2%nat + Q 1%nat 0%nat * Q 1%nat 2%nat + Q 2%nat 0%nat * Q 2%nat 2%nat)) + 2 * ((Q 0%nat 1%nat * Q 0%nat 2%nat + Q 1%nat 1%nat * Q 1%nat 2%nat + Q 2%nat 1%nat * Q 2%nat 2%nat) * (Q 0%nat 1%nat * Q 0%nat 2%nat + Q 1%nat 1%nat * Q 1%nat 2%nat + Q 2%nat 1%nat * Q 2%nat 2%nat)) - 2 * ((Q 0%nat 0%nat * Q 0%nat 0%nat + Q 1%nat 0%nat * Q 1%nat 0%nat + Q 2%nat 0%nat * Q 2%nat 0%nat) + (Q 0%nat 1%nat * Q 0%nat 1%nat + Q 1%nat 1%nat * Q 1%nat 1%nat + Q 2%nat 1%nat * Q 2%nat 1%nat) + (Q 0%nat 2%nat * Q 0%nat 2%nat + Q 1%nat 2%nat * Q 1%nat 2%nat + Q 2%nat 2%nat * Q 2%nat 2%nat)) + 3); [ring|].
    rewrite H00, H01, H02, H11, H12, H22. ring. }
  pose proof (Rle_0_sqr ((Q 0%nat 0%nat * Q 0%nat 0%nat + Q 0%nat 1%nat * Q 0%nat 1%nat + Q 0%nat 2%nat * Q 0%nat 2%nat) - 1)) as N00.
  pose proof (Rle_0_sqr (Q 0%nat 0%nat * Q 1%nat 0%nat + Q 0%nat 1%nat * Q 1%nat 1%nat + Q 0%nat 2%nat * Q 1%nat 2%nat)) as N01.
  pose proof (Rle_0_sqr (Q 0%nat 0%nat * Q 2%nat 0%nat + Q 0%nat 1%nat * Q 2%nat 1%nat + Q 0%nat 2%nat * Q 2%nat 2%nat)) as N02.
  pose proof (Rle_0_sqr (Q 1%nat 0%nat * Q 0%nat 0%nat + Q 1%nat 1%nat * Q 0%nat 1%nat + Q 1%nat 2%nat * Q 0%nat 2%nat)) as N10.
  pose proof (Rle_0_sqr ((Q 1%nat 0%nat * Q 1%nat 0%nat + Q 1%nat 1%nat * Q 1%nat 1%nat + Q 1%nat 2%nat * Q 1%nat 2%nat) - 1)) as N11.
  pose proof (Rle_0_sqr (Q 1%nat 0%nat * Q 2%nat 0%nat + Q 1%nat 1%nat * Q 2%nat 1%nat + Q 1%nat 2%nat * Q 2%nat 2%nat)) as N12.
  pose proof (Rle_0_sqr (Q 2%nat 0%nat * Q 0%nat 0%nat + Q 2%nat 1%nat * Q 0%nat 1%nat + Q 2%nat 2%nat * Q 0%nat 2%nat)) as N20.
  pose proof (Rle_0_sqr (Q 2%nat 0%nat * Q 1%nat 0%nat + Q 2%nat 1%nat * Q 1%nat 1%nat + Q 2%nat 2%nat * Q 1%nat 2%nat)) as N21.
  pose proof (Rle_0_sqr ((Q 2%nat 0%nat * Q 2%nat 0%nat + Q 2%nat 1%nat * Q 2%nat 1%nat + Q 2%nat 2%nat * Q 2%nat 2%nat) - 1)) as N22.
  unfold Rsqr in *.
  assert (Z: forall x : R, x * x = 0 -> x = 0) by (intros x Hx; apply Rsqr_0_uniq; exact Hx).
  intros a e Ha He. unfold tr3, sum3.
  destruct a as [|[|[|a]]]; [ | | | exfalso; lia ];
  (destruct e as [|[|[|e]]]; [ | | | exfalso; lia ]); cbn [Nat.eqb];
  first [ apply Z; lra | apply Rminus_diag_uniq, Z; lra ].
Qed.

(* ---------------------------------------------------------------------- *)
(* contractions_rotate:  dilat (rotate T R) = R . dilat T . R^T, same for   *)
(* deviat  (R^T R = I)                                                     *)
(* ---------------------------------------------------------------------- *)
Theorem dil4_rot4 (f : T4) (Q : M3) : orth Q ->
  forall i j, dil4 (rot4 f Q) i j = mm (mm Q (dil4 f)) (tr3 Q) i j.
Proof.
  intros H i j. unfold dil4, rot4. set (g := mp2 (mp1 f Q) Q).
  transitivity (sum3 (fun c => g i j c c)).
  { rewrite <- (orth_rows_pair Q (fun c d => g i j c d) H). unfold mp4, mp3, sum3; ring. }
  unfold g, mp2, mp1, mm, tr3, dil4, sum3; ring.
Qed.

Theorem dev4_rot4 (f : T4) (Q : M3) : orth Q ->
  forall i k, dev4 (rot4 f Q) i k = mm (mm Q (dev4 f)) (tr3 Q) i k.
Proof.
  intros H i k. unfold dev4, rot4. set (g := mp3 (mp1 f Q) Q).
  transitivity (sum3 (fun j => mp4 (mp2 g Q) Q i j k j)).
  { unfold g, mp1, mp2, mp3, mp4, sum3; ring. }
  transitivity (sum3 (fun b => g i b k b)).
  { rewrite <- (orth_rows_pair Q (fun b d => g i b k d) H). unfold mp4, mp2, sum3; ring. }
  unfold g, mp3, mp1, mm, tr3, dev4, sum3; ring.
Qed.

Lemma dil4_extb f g : eq4b f g -> eq2b (dil4 f) (dil4 g).
Proof. intros H a b Ha Hb. unfold dil4. apply sum3_ext; intros k Hk. apply H; assumption. Qed.
Lemma dev4_extb f g : eq4b f g -> eq2b (dev4 f) (dev4 g).
Proof. intros H a b Ha Hb. unfold dev4. apply sum3_ext; intros k Hk. apply H; assumption. Qed.

Lemma mm_extb_mid (A B B' C : M3) : eq2b B B' -> eq2b (mm (mm A B) C) (mm (mm A B') C).
Proof.
  intros H a b Ha Hb. unfold mm. apply sum3_ext; intros k Hk. f_equal.
  apply sum3_ext; intros l Hl. rewrite (H l k Hl Hk). reflexivity.
Qed.

(* on the generated voigt_decompose, for the Voigt matrix of the rotated tensor *)
Theorem contractions_rotate (M Q : arr NumR) : sym6 M -> orth (mat3 Q) ->
  eq2b (mat3 (fst (k_voigt_decompose (rotM M Q))))
       (mm (mm (mat3 Q) (mat3 (fst (k_voigt_decompose M)))) (tr3 (mat3 Q))) /\
  eq2b (mat3 (snd (k_voigt_decompose (rotM M Q))))
       (mm (mm (mat3 Q) (mat3 (snd (k_voigt_decompose M)))) (tr3 (mat3 Q))).
Proof.
  intros Hs HQ.
  assert (Hs' : sym6 (rotM M Q)) by apply etv_symmetric.
  destruct (contractions M Hs) as (D0 & V0). destruct (contractions _ Hs') as (D1 & V1).
  pose proof (rotM_tensor M Q Hs) as ET.
  split; intros a b Ha Hb.
  - rewrite (D1 a b Ha Hb), (dil4_extb _ _ ET a b Ha Hb), (dil4_rot4 _ _ HQ).
    symmetry. apply (mm_extb_mid _ _ _ _ D0 a b Ha Hb).
  - rewrite (V1 a b Ha Hb), (dev4_extb _ _ ET a b Ha Hb), (dev4_rot4 _ _ HQ).
    symmetry. apply (mm_extb_mid _ _ _ _ V0 a b Ha Hb).
Qed.

(* ---------------------------------------------------------------------- *)
(* eigvec_unique                                                           *)
(* ---------------------------------------------------------------------- *)
Definition V3 := nat -> R.
Definition mv (S : M3) (v : V3) : V3 := fun i => sum3 (fun j => S i j * v j).
Definition colv (E : M3) (j : nat) : V3 := fun i => E i j.
Definition dotv (u v : V3) : R := sum3 (fun i => u i * v i).
Definition sym3 (S : M3) : Prop := forall i j, (i < 3)%nat -> (j < 3)%nat -> S i j = S j i.
(* column j of E is an eigenvector of S for lam j *)
Definition eigcols (S E : M3) (lam : nat -> R) : Prop :=
  forall j i, (j < 3)%nat -> (i < 3)%nat -> mv S (colv E j) i = lam j * E i j.
Definition distinct3 (lam : nat -> R) : Prop :=
  lam 0%nat <> lam 1%nat /\ lam 0%nat <> lam 2%nat /\ lam 1%nat <> lam 2%nat.

Section Eigvec.
  Variables (S E : M3) (lam : nat -> R) (v : V3) (mu : R).
  Hypothesis HS : sym3 S.
  Hypothesis HE : orth E.
  Hypothesis Hlam : eigcols S E lam.
  Hypothesis Hv : forall i, (i < 3)%nat -> mv S v i = mu * v i.

  Let c (j : nat) : R := dotv (colv E j) v.

  Lemma coef_eigen j : (j < 3)%nat -> lam j * c j = mu * c j.
  Proof using HS Hlam Hv.
    intros Hj.
    pose proof (Hlam j 0%nat Hj ltac:(lia)) as E0. pose proof (Hlam j 1%nat Hj ltac:(lia)) as E1.
    pose proof (Hlam j 2%nat Hj ltac:(lia)) as E2.
    pose proof (Hv 0%nat ltac:(lia)) as V0. pose proof (Hv 1%nat ltac:(lia)) as V1.
    pose proof (Hv 2%nat ltac:(lia)) as V2.
    pose proof (HS 0 1 ltac:(lia) ltac:(lia))%nat as S01. pose proof (HS 0 2 ltac:(lia) ltac:(lia))%nat as S02.
    pose proof (HS 1 2 ltac:(lia) ltac:(lia))%nat as S12.
    unfold c, dotv, colv, mv, sum3 in *.
    transitivity ((lam j * E 0%nat j) * v 0%nat + (lam j * E 1%nat j) * v 1%nat + (lam j * E 2%nat j) * v 2%nat); [ring|].
    rewrite <- E0, <- E1, <- E2.
    transitivity (E 0%nat j * (mu * v 0%nat) + E 1%nat j * (mu * v 1%nat) + E 2%nat j * (mu * v 2%nat)); [|ring].
    rewrite <- V0, <- V1, <- V2. rewrite <- S01, <- S02, <- S12. ring.
  Qed.

  Lemma expand_in_basis i : (i < 3)%nat -> v i = sum3 (fun j => c j * E i j).
  Proof using HE.
    intros Hi. pose proof (orth_tr E HE) as HT.
    pose proof (HT i 0%nat Hi ltac:(lia)) as T0. pose proof (HT i 1%nat Hi ltac:(lia)) as T1.
    pose proof (HT i 2%nat Hi ltac:(lia)) as T2.
    unfold tr3, sum3 in T0, T1, T2. unfold c, dotv, colv, sum3.
    transitivity (v 0%nat * (E i 0%nat * E 0%nat 0%nat + E i 1%nat * E 0%nat 1%nat + E i 2%nat * E 0%nat 2%nat)
                + v 1%nat * (E i 0%nat * E 1%nat 0%nat + E i 1%nat * E 1%nat 1%nat + E i 2%nat * E 1%nat 2%nat)
                + v 2%nat * (E i 0%nat * E 2%nat 0%nat + E i 1%nat * E 2%nat 1%nat + E i 2%nat * E 2%nat 2%nat)); [|ring].
    rewrite T0, T1, T2.
    destruct i as [|[|[|i]]]; [ | | | exfalso; lia ]; cbn [Nat.eqb]; ring.
  Qed.

  Lemma parseval : sum3 (fun j => c j * c j) = dotv v v.
  Proof using HE.
    pose proof (orth_vec (tr3 E) v (orth_tr E HE)) as P. unfold tr3 in P.
    unfold c, dotv, colv. rewrite <- P. unfold sum3; ring.
  Qed.

  (* a unit eigenvector of a symmetric matrix with three distinct eigenvalues is +- a column
     of ANY orthonormal eigenbasis (and its eigenvalue is that column's) *)
  Theorem eigvec_unique : distinct3 lam -> dotv v v = 1 ->
    exists j s, (j < 3)%nat /\ (s = 1 \/ s = -1) /\ mu = lam j /\
                forall i, (i < 3)%nat -> v i = s * E i j.
  Proof using HS HE Hlam Hv.
    intros (D01 & D02 & D12) Hu.
    pose proof (coef_eigen 0%nat ltac:(lia)) as C0. pose proof (coef_eigen 1%nat ltac:(lia)) as C1.
    pose proof (coef_eigen 2%nat ltac:(lia)) as C2.
    pose proof parseval as P. rewrite Hu in P. unfold sum3 in P.
    assert (Z: forall x y : R, x * y = 0 -> x <> 0 -> y = 0).
    { intros x y Hxy Hx. destruct (Rmult_integral _ _ Hxy); [contradiction | assumption]. }
    assert (Sg: forall x : R, x * x = 1 -> x = 1 \/ x = -1).
    { intros x Hx. assert ((x - 1) * (x + 1) = 0) as Hp by (ring_simplify; lra).
      destruct (Rmult_integral _ _ Hp); [left | right]; lra. }
    destruct (Req_dec (c 0%nat) 0) as [Z0|N0].
    - destruct (Req_dec (c 1%nat) 0) as [Z1|N1].
      + (* only c 2 *)
        exists 2%nat, (c 2%nat). rewrite Z0, Z1 in P.
        assert (Hm: mu = lam 2%nat).
        { assert (c 2%nat <> 0) by (intro Hc; rewrite Hc in P; lra).
          assert ((lam 2%nat - mu) * c 2%nat = 0) as Hx by lra.
          destruct (Rmult_integral _ _ Hx); [lra | contradiction]. }
        split; [lia|]. split; [apply Sg; lra|]. split; [exact Hm|].
        intros i Hi. rewrite (expand_in_basis i Hi). unfold sum3. rewrite Z0, Z1. ring.
      + exists 1%nat, (c 1%nat).
        assert (Hm: mu = lam 1%nat).
        { assert ((lam 1%nat - mu) * c 1%nat = 0) as Hx by lra.
          destruct (Rmult_integral _ _ Hx); [lra | contradiction]. }
        assert (Z2: c 2%nat = 0).
        { apply (Z (lam 2%nat - mu)); [lra|]. rewrite Hm. lra. }
        rewrite Z0, Z2 in P.
        split; [lia|]. split; [apply Sg; lra|]. split; [exact Hm|].
        intros i Hi. rewrite (expand_in_basis i Hi). unfold sum3. rewrite Z0, Z2. ring.
    - exists 0%nat, (c 0%nat).
      assert (Hm: mu = lam 0%nat).
      { assert ((lam 0%nat - mu) * c 0%nat = 0) as Hx by lra.
        destruct (Rmult_integral _ _ Hx); [lra | contradiction]. }
      assert (Z1: c 1%nat = 0).
      { apply (Z (lam 1%nat - mu)); [lra|]. rewrite Hm. lra. }
      assert (Z2: c 2%nat = 0).
      { apply (Z (lam 2%nat - mu)); [lra|]. rewrite Hm. lra. }
      rewrite Z1, Z2 in P.
      split; [lia|]. split; [apply Sg; lra|]. split; [exact Hm|].
      intros i Hi. rewrite (expand_in_basis i Hi). unfold sum3. rewrite Z1, Z2. ring.
  Qed.
End Eigvec.

(* ---------------------------------------------------------------------- *)
(* the SCCS pairing of Model_decomp on eigenbases that are signed           *)
(* permutations of the columns of one orthonormal frame                    *)
(* ---------------------------------------------------------------------- *)
Lemma ltb_R (a b : R) : @nltb NumR a b = Rltb a b. Proof. reflexivity. Qed.
Lemma eqb_R (a b : R) : @neqb NumR a b = Reqb a b. Proof. reflexivity. Qed.

Lemma col_entry (E : arr NumR) j r : (r < 3)%nat -> @col NumR E j r = mat3 E r j.
Proof. intros Hr. destruct r as [|[|[|r]]]; [ | | | exfalso; lia ]; reflexivity. Qed.

Lemma dot3_R (a b : arr NumR) : (@dot3 NumR a b : R) = a 0%nat * b 0%nat + a 1%nat * b 1%nat + a 2%nat * b 2%nat.
Proof. reflexivity. Qed.
Lemma norm3_R (a : arr NumR) : (@norm3 NumR a : R) = sqrt (@dot3 NumR a a).
Proof. reflexivity. Qed.

(* smallest_angle (degrees) of unit vectors that are parallel / antiparallel / orthogonal *)
Lemma sa_values (u w : arr NumR) : @norm3 NumR u = 1 -> @norm3 NumR w = 1 ->
  (@dot3 NumR u w = 1 \/ @dot3 NumR u w = - (1) -> @smallest_angle NumR u w = 0) /\
  (@dot3 NumR u w = 0 -> @smallest_angle NumR u w = 90).
Proof.
  intros Hu Hw. unfold smallest_angle, clip1. rewrite Hu, Hw. rewrite !ltb_R.
  set (d := @dot3 NumR u w). numR.
  assert (Ed: d / (1 * 1) = d) by (field). rewrite Ed.
  pose proof PI_RGT_0 as Hpi.
  split.
  - intros [H|H]; rewrite H.
    + rewrite (proj2 (Rltb_false 1 (-(1)))) by lra. rewrite (proj2 (Rltb_false 1 1)) by lra.
      rewrite acos_1, Rmult_0_l. rewrite (proj2 (Rltb_false 90 0)) by lra. reflexivity.
    + rewrite (proj2 (Rltb_false (-(1)) (-(1)))) by lra. rewrite (proj2 (Rltb_false 1 (-(1)))) by lra.
      rewrite acos_opp, acos_1.
      assert (E180: (PI - 0) * (180 / PI) = 180) by (field; lra). rewrite E180.
      rewrite (proj2 (Rltb_true 90 180)) by lra. lra.
  - intros H; rewrite H.
    rewrite (proj2 (Rltb_false 0 (-(1)))) by lra. rewrite (proj2 (Rltb_false 1 0)) by lra.
    rewrite acos_0.
    assert (E90: PI / 2 * (180 / PI) = 90) by (field; lra). rewrite E90.
    rewrite (proj2 (Rltb_false 90 90)) by lra. reflexivity.
Qed.

Definition sgnR (x : R) : R := if Rltb 0 x then 1 else - (1).
Notation st3 a j w := (@pair (prod (T NumR) nat) (T NumR) (@pair (T NumR) nat a j) w).

Lemma pair_step_miss (Ed Ev : arr NumR) i j (angle : R) jc (w : R) :
  @smallest_angle NumR (col Ed i) (col Ev j) = 90 -> angle <= 90 ->
  @pair_step NumR Ed Ev i (st3 angle jc w) j = st3 angle jc w.
Proof.
  intros Hs Ha. unfold pair_step. rewrite Hs, ltb_R.
  rewrite (proj2 (Rltb_false 90 angle)) by lra. reflexivity.
Qed.

Lemma pair_step_hit (Ed Ev : arr NumR) i j (angle : R) jc (w : R) :
  @smallest_angle NumR (col Ed i) (col Ev j) = 0 -> 0 < angle ->
  @dot3 NumR (col Ed i) (col Ev j) <> 0 ->
  @pair_step NumR Ed Ev i (st3 angle jc w) j
  = st3 0 j (sgnR (@dot3 NumR (col Ed i) (col Ev j)) * IZR (Z.of_nat j)).
Proof.
  intros Hs Ha Hd. unfold pair_step. rewrite Hs, ltb_R.
  rewrite (proj2 (Rltb_true 0 angle)) by lra. rewrite eqb_R, ltb_R.
  rewrite (proj2 (Reqb_false _ 0)) by exact Hd. reflexivity.
Qed.

(* exactly one column js of Ev is (anti)parallel to column i of Ed, the others orthogonal:
   the loop ends with that column and the signed index sgn(dot)*js *)
Lemma pair_fold (Ed Ev : arr NumR) i js : (js < 3)%nat ->
  (forall j, (j < 3)%nat -> j <> js -> @smallest_angle NumR (col Ed i) (col Ev j) = 90) ->
  @smallest_angle NumR (col Ed i) (col Ev js) = 0 ->
  @dot3 NumR (col Ed i) (col Ev js) <> 0 ->
  fold_left (@pair_step NumR Ed Ev i) [0; 1; 2]%nat (st3 10 0%nat 0)
  = st3 0 js (sgnR (@dot3 NumR (col Ed i) (col Ev js)) * IZR (Z.of_nat js)).
Proof.
  intros Hjs Hm Hh Hd. cbn [fold_left].
  destruct js as [|[|[|js]]]; [ | | | exfalso; lia ].
  - rewrite (pair_step_hit Ed Ev i 0 10 0 0 Hh ltac:(lra) Hd).
    rewrite (pair_step_miss Ed Ev i 1) by (try apply Hm; try lia; lra).
    rewrite (pair_step_miss Ed Ev i 2) by (try apply Hm; try lia; lra). reflexivity.
  - rewrite (pair_step_miss Ed Ev i 0) by (try apply Hm; try lia; lra).
    rewrite (pair_step_hit Ed Ev i 1 10 0 0 Hh ltac:(lra) Hd).
    rewrite (pair_step_miss Ed Ev i 2) by (try apply Hm; try lia; lra). reflexivity.
  - rewrite (pair_step_miss Ed Ev i 0) by (try apply Hm; try lia; lra).
    rewrite (pair_step_miss Ed Ev i 1) by (try apply Hm; try lia; lra).
    rewrite (pair_step_hit Ed Ev i 2 10 0 0 Hh ltac:(lra) Hd). reflexivity.
Qed.

(* the last lines of the column loop: normalise (d + w v) / 2 *)
Definition sccs_fin (d v : arr NumR) (w : R) : arr NumR :=
  let u := mk_arr 0 [(d 0%nat + w * v 0%nat) / 2; (d 1%nat + w * v 1%nat) / 2; (d 2%nat + w * v 2%nat) / 2] in
  let n := sqrt (u 0%nat * u 0%nat + u 1%nat * u 1%nat + u 2%nat * u 2%nat) in
  mk_arr 0 [u 0%nat / n; u 1%nat / n; u 2%nat / n].

Lemma sccs_col_fin (Ed Ev : arr NumR) i a jc w :
  fold_left (@pair_step NumR Ed Ev i) [0; 1; 2]%nat (st3 10 0%nat 0) = st3 a jc w ->
  @sccs_col NumR Ed Ev i = sccs_fin (col Ed i) (col Ev jc) w.
Proof. intros H. unfold sccs_col. change (@ofZ NumR 10) with 10. change (@zero NumR) with 0. rewrite H. reflexivity. Qed.

(* v = e d with e = +-1, weight e*kk with kk >= 0: the normalised mean is d itself *)
Lemma sccs_fin_aligned (d v : arr NumR) (e kk : R) :
  d 0%nat * d 0%nat + d 1%nat * d 1%nat + d 2%nat * d 2%nat = 1 ->
  (forall r, (r < 3)%nat -> v r = e * d r) -> e * e = 1 -> 0 <= kk ->
  forall r, (r < 3)%nat -> sccs_fin d v (e * kk) r = d r.
Proof.
  intros Hd Hv He Hk.
  pose proof (Hv 0%nat ltac:(lia)) as V0. pose proof (Hv 1%nat ltac:(lia)) as V1.
  pose proof (Hv 2%nat ltac:(lia)) as V2.
  set (h := (1 + kk) / 2). assert (Hh: 0 < h) by (unfold h; lra).
  assert (U: forall r, (r < 3)%nat -> (d r + e * kk * v r) / 2 = h * d r).
  { intros r Hr. rewrite (Hv r Hr). unfold h.
    transitivity ((d r + (e * e) * kk * d r) / 2); [field|]. rewrite He. field. }
  unfold sccs_fin. cbv zeta. cbn [mk_arr List.nth]. change (T NumR) with R in *.
  rewrite (U 0%nat), (U 1%nat), (U 2%nat) by lia.
  assert (N: sqrt (h * d 0%nat * (h * d 0%nat) + h * d 1%nat * (h * d 1%nat) + h * d 2%nat * (h * d 2%nat)) = h).
  { transitivity (sqrt (h * h * (d 0%nat * d 0%nat + d 1%nat * d 1%nat + d 2%nat * d 2%nat))); [f_equal; ring|].
    rewrite Hd, Rmult_1_r. apply sqrt_square. lra. }
  rewrite N. intros r Hr.
  destruct r as [|[|[|r]]]; [ | | | exfalso; lia ]; cbn [List.nth]; field; lra.
Qed.

(* the columns of E are, up to sign and order, the columns of the frame Rm *)
Definition pm1 (s : R) : Prop := s = 1 \/ s = - (1).
Definition signed_cols (E Rm : arr NumR) (pi : nat -> nat) (s : nat -> R) : Prop :=
  (forall i, (i < 3)%nat -> (pi i < 3)%nat /\ pm1 (s i)) /\
  (forall i i', (i < 3)%nat -> (i' < 3)%nat -> pi i = pi i' -> i = i') /\
  (forall i r, (i < 3)%nat -> (r < 3)%nat -> mat3 E r i = s i * mat3 Rm r (pi i)).

Lemma pm1_sq s : pm1 s -> s * s = 1.
Proof. intros [-> | ->]; ring. Qed.

(* an injective map of {0,1,2} into itself is onto *)
Lemma inj3_onto (pi : nat -> nat) : (forall i, (i < 3)%nat -> (pi i < 3)%nat) ->
  (forall i i', (i < 3)%nat -> (i' < 3)%nat -> pi i = pi i' -> i = i') ->
  forall k, (k < 3)%nat -> exists j, (j < 3)%nat /\ pi j = k.
Proof.
  intros Hr Hi k Hk.
  pose proof (Hr 0%nat ltac:(lia)) as R0. pose proof (Hr 1%nat ltac:(lia)) as R1. pose proof (Hr 2%nat ltac:(lia)) as R2.
  pose proof (Hi 0 1 ltac:(lia) ltac:(lia))%nat as I01. pose proof (Hi 0 2 ltac:(lia) ltac:(lia))%nat as I02.
  pose proof (Hi 1 2 ltac:(lia) ltac:(lia))%nat as I12.
  destruct (Nat.eq_dec (pi 0%nat) k); [exists 0%nat; split; [lia|assumption]|].
  destruct (Nat.eq_dec (pi 1%nat) k); [exists 1%nat; split; [lia|assumption]|].
  destruct (Nat.eq_dec (pi 2%nat) k); [exists 2%nat; split; [lia|assumption]|].
  exfalso. lia.
Qed.

Section Pairing.
  Variables (Ed Ev Rm : arr NumR) (pi sg : nat -> nat) (s t : nat -> R).
  Hypothesis HR : orth (mat3 Rm).
  Hypothesis HD : signed_cols Ed Rm pi s.
  Hypothesis HV : signed_cols Ev Rm sg t.

  Lemma dot_cols i j : (i < 3)%nat -> (j < 3)%nat ->
    @dot3 NumR (col Ed i) (col Ev j) = if Nat.eqb (pi i) (sg j) then s i * t j else 0.
  Proof using HR HD HV.
    intros Hi Hj. destruct HD as (D1 & _ & D3). destruct HV as (V1 & _ & V3).
    rewrite dot3_R. rewrite !col_entry by lia.
    rewrite !D3, !V3 by lia. change (T NumR) with R.
    pose proof (HR (pi i) (sg j) (proj1 (D1 i Hi)) (proj1 (V1 j Hj))) as O. unfold sum3 in O.
    transitivity (s i * t j * (mat3 Rm 0%nat (pi i) * mat3 Rm 0%nat (sg j) + mat3 Rm 1%nat (pi i) * mat3 Rm 1%nat (sg j)
                               + mat3 Rm 2%nat (pi i) * mat3 Rm 2%nat (sg j))); [ring|].
    rewrite O. destruct (Nat.eqb (pi i) (sg j)); ring.
  Qed.

  Lemma dot_self_d i : (i < 3)%nat ->
    col Ed i 0%nat * col Ed i 0%nat + col Ed i 1%nat * col Ed i 1%nat + col Ed i 2%nat * col Ed i 2%nat = 1.
  Proof using HR HD.
    intros Hi. destruct HD as (D1 & _ & D3). rewrite !col_entry by lia. rewrite !D3 by lia.
    pose proof (HR (pi i) (pi i) (proj1 (D1 i Hi)) (proj1 (D1 i Hi))) as O. unfold sum3 in O.
    rewrite Nat.eqb_refl in O. pose proof (pm1_sq _ (proj2 (D1 i Hi))) as S2.
    transitivity (s i * s i * (mat3 Rm 0%nat (pi i) * mat3 Rm 0%nat (pi i) + mat3 Rm 1%nat (pi i) * mat3 Rm 1%nat (pi i)
                               + mat3 Rm 2%nat (pi i) * mat3 Rm 2%nat (pi i))); [ring|].
    rewrite O, S2. ring.
  Qed.

  Lemma norm_d i : (i < 3)%nat -> @norm3 NumR (col Ed i) = 1.
  Proof using HR HD. intros Hi. rewrite norm3_R, dot3_R, (dot_self_d i Hi). apply sqrt_1. Qed.

  Lemma norm_v j : (j < 3)%nat -> @norm3 NumR (col Ev j) = 1.
  Proof using HR HV.
    intros Hj. destruct HV as (V1 & _ & V3). rewrite norm3_R, dot3_R. rewrite !col_entry by lia. rewrite !V3 by lia.
    pose proof (HR (sg j) (sg j) (proj1 (V1 j Hj)) (proj1 (V1 j Hj))) as O. unfold sum3 in O.
    rewrite Nat.eqb_refl in O. pose proof (pm1_sq _ (proj2 (V1 j Hj))) as S2.
    replace (_ + _ + _) with (t j * t j * (mat3 Rm 0%nat (sg j) * mat3 Rm 0%nat (sg j) + mat3 Rm 1%nat (sg j) * mat3 Rm 1%nat (sg j)
                               + mat3 Rm 2%nat (sg j) * mat3 Rm 2%nat (sg j))) by ring.
    rewrite O, S2, Rmult_1_r. apply sqrt_1.
  Qed.

  (* sccs_is_R, column form: the SCCS column built for i IS column i of Ed (exactly, over R) *)
  Theorem sccs_col_is_Ed i : (i < 3)%nat ->
    forall r, (r < 3)%nat -> @sccs_col NumR Ed Ev i r = col Ed i r.
  Proof using HR HD HV.
    intros Hi.
    destruct HD as (D1 & D2 & D3). destruct HV as (V1 & V2 & V3).
    destruct (inj3_onto sg (fun j Hj => proj1 (V1 j Hj)) V2 (pi i) (proj1 (D1 i Hi))) as [js (Hjs & Ejs)].
    assert (Hdot: @dot3 NumR (col Ed i) (col Ev js) = s i * t js).
    { rewrite (dot_cols i js Hi Hjs), Ejs, Nat.eqb_refl. reflexivity. }
    assert (Hpm: pm1 (s i * t js)).
    { destruct (proj2 (D1 i Hi)) as [-> | ->]; destruct (proj2 (V1 js Hjs)) as [-> | ->]; unfold pm1; lra. }
    assert (Hmiss: forall j, (j < 3)%nat -> j <> js -> @smallest_angle NumR (col Ed i) (col Ev j) = 90).
    { intros j Hj Hne. apply (proj2 (sa_values _ _ (norm_d i Hi) (norm_v j Hj))).
      rewrite (dot_cols i j Hi Hj). destruct (Nat.eqb (pi i) (sg j)) eqn:E; [|reflexivity].
      apply Nat.eqb_eq in E. exfalso. apply Hne. apply V2; [assumption | assumption | lia]. }
    assert (Hhit: @smallest_angle NumR (col Ed i) (col Ev js) = 0).
    { apply (proj1 (sa_values _ _ (norm_d i Hi) (norm_v js Hjs))). rewrite Hdot. exact Hpm. }
    assert (Hnz: @dot3 NumR (col Ed i) (col Ev js) <> 0).
    { rewrite Hdot. destruct Hpm as [-> | ->]; lra. }
    rewrite (sccs_col_fin Ed Ev i _ _ _ (pair_fold Ed Ev i js Hjs Hmiss Hhit Hnz)).
    assert (Hsg: sgnR (@dot3 NumR (col Ed i) (col Ev js)) = s i * t js).
    { rewrite Hdot. unfold sgnR. destruct Hpm as [-> | ->].
      - rewrite (proj2 (Rltb_true 0 1)) by lra. reflexivity.
      - rewrite (proj2 (Rltb_false 0 (-(1)))) by lra. reflexivity. }
    rewrite Hsg.
    apply sccs_fin_aligned.
    - apply dot_self_d, Hi.
    - intros r Hr. rewrite !col_entry by lia. rewrite (V3 js r Hjs Hr), (D3 i r Hi Hr), Ejs.
      pose proof (pm1_sq _ (proj2 (D1 i Hi))) as S2.
      change (T NumR) with R. transitivity (t js * (s i * s i) * mat3 Rm r (pi i)); [rewrite S2; ring | ring].
    - apply pm1_sq, Hpm.
    - apply IZR_le. lia.
  Qed.

  (* sccs_is_R: row r of the rotation handed to `rotate` for candidate i is column
     (i + r) mod 3 of Ed, i.e. +- a column of Rm: the matrix is (signed permutation) . Rm^T *)
  Theorem sccs_rotation_rows i r a : (r < 3)%nat -> (a < 3)%nat ->
    mat3 (@sccs_rotation NumR Ed Ev i) r a
    = s ((i + r) mod 3) * mat3 Rm a (pi ((i + r) mod 3)).
  Proof using HR HD HV.
    intros Hr Ha.
    assert (Hm: ((i + r) mod 3 < 3)%nat) by (apply Nat.mod_upper_bound; lia).
    transitivity (col Ed ((i + r) mod 3) a).
    - rewrite <- (sccs_col_is_Ed _ Hm a Ha). unfold sccs_rotation, mat3.
      destruct r as [|[|[|r]]]; [ | | | exfalso; lia ];
      (destruct a as [|[|[|a]]]; [ | | | exfalso; lia ]);
      cbn [mk_arr List.nth Nat.mul Nat.add]; rewrite ?Nat.add_0_r; reflexivity.
    - destruct HD as (_ & _ & D3). rewrite col_entry by lia. apply D3; assumption.
  Qed.
End Pairing.

(* ---------------------------------------------------------------------- *)
(* an orthonormal eigenbasis of S = R diag(lam) R^T (lam distinct) is a    *)
(* signed permutation of the columns of R                                  *)
(* ---------------------------------------------------------------------- *)
Theorem eigenbasis_signed_cols (S : M3) (E Rm : arr NumR) (lam mu : nat -> R) :
  sym3 S -> orth (mat3 Rm) -> eigcols S (mat3 Rm) lam -> distinct3 lam ->
  orth (mat3 E) -> eigcols S (mat3 E) mu ->
  exists pi s, signed_cols E Rm pi s.
Proof.
  intros HS HR HlR Hd HE HlE.
  assert (U: forall i, (i < 3)%nat -> exists j sg, (j < 3)%nat /\ pm1 sg /\
               forall r, (r < 3)%nat -> mat3 E r i = sg * mat3 Rm r j).
  { intros i Hi.
    destruct (eigvec_unique S (mat3 Rm) lam (colv (mat3 E) i) (mu i) HS HR HlR
                (fun r Hr => HlE i r Hi Hr) Hd) as (j & sg & Hj & Hsg & _ & Hv).
    - pose proof (HE i i Hi Hi) as O. rewrite Nat.eqb_refl in O. exact O.
    - exists j, sg. split; [exact Hj|]. split; [destruct Hsg as [-> | ->]; [left | right]; lra|]. exact Hv. }
  destruct (U 0%nat ltac:(lia)) as (j0 & s0 & J0 & S0 & F0).
  destruct (U 1%nat ltac:(lia)) as (j1 & s1 & J1 & S1 & F1).
  destruct (U 2%nat ltac:(lia)) as (j2 & s2 & J2 & S2 & F2).
  set (pi := fun i : nat => match i with 0 => j0 | 1 => j1 | _ => j2 end%nat).
  set (s := fun i : nat => match i with 0 => s0 | 1 => s1 | _ => s2 end%nat).
  assert (P1: forall i, (i < 3)%nat -> (pi i < 3)%nat /\ pm1 (s i)).
  { intros i Hi. destruct i as [|[|[|i]]]; [ | | | exfalso; lia ]; cbn; split; assumption. }
  assert (P3: forall i r, (i < 3)%nat -> (r < 3)%nat -> mat3 E r i = s i * mat3 Rm r (pi i)).
  { intros i r Hi Hr. destruct i as [|[|[|i]]]; [ | | | exfalso; lia ]; cbn; [apply F0 | apply F1 | apply F2]; exact Hr. }
  exists pi, s. split; [exact P1|]. split; [|exact P3].
  intros i i' Hi Hi' Hp. destruct (Nat.eq_dec i i') as [|Hne]; [assumption|]. exfalso.
  pose proof (HE i i' Hi Hi') as O. rewrite (proj2 (Nat.eqb_neq i i') Hne) in O. unfold sum3 in O.
  rewrite !P3 in O by lia. rewrite <- Hp in O.
  pose proof (HR (pi i) (pi i) (proj1 (P1 i Hi)) (proj1 (P1 i Hi))) as N. rewrite Nat.eqb_refl in N. unfold sum3 in N.
  assert (Hz: s i * s i' * (mat3 Rm 0%nat (pi i) * mat3 Rm 0%nat (pi i) + mat3 Rm 1%nat (pi i) * mat3 Rm 1%nat (pi i)
                            + mat3 Rm 2%nat (pi i) * mat3 Rm 2%nat (pi i)) = 0) by (rewrite <- O; ring).
  rewrite N in Hz.
  destruct (proj2 (P1 i Hi)) as [A | A]; destruct (proj2 (P1 i' Hi')) as [B | B]; rewrite A, B in Hz; lra.
Qed.

(* S = R diag(lam) R^T  has the columns of R as eigenvectors *)
Lemma conj_diag_eigcols (Rm D : M3) : orth Rm ->
  (forall a b, (a < 3)%nat -> (b < 3)%nat -> a <> b -> D a b = 0) ->
  eigcols (mm (mm Rm D) (tr3 Rm)) Rm (fun k => D k k) /\ sym3 (mm (mm Rm D) (tr3 Rm)).
Proof.
  intros HR HD.
  pose proof (HD 0 1 ltac:(lia) ltac:(lia) ltac:(lia))%nat as D01. pose proof (HD 0 2 ltac:(lia) ltac:(lia) ltac:(lia))%nat as D02.
  pose proof (HD 1 0 ltac:(lia) ltac:(lia) ltac:(lia))%nat as D10. pose proof (HD 1 2 ltac:(lia) ltac:(lia) ltac:(lia))%nat as D12.
  pose proof (HD 2 0 ltac:(lia) ltac:(lia) ltac:(lia))%nat as D20. pose proof (HD 2 1 ltac:(lia) ltac:(lia) ltac:(lia))%nat as D21.
  split.
  - intros j i Hj Hi.
    pose proof (HR 0%nat j ltac:(lia) Hj) as O0. pose proof (HR 1%nat j ltac:(lia) Hj) as O1.
    pose proof (HR 2%nat j ltac:(lia) Hj) as O2. unfold sum3 in O0, O1, O2.
    unfold mv, colv, mm, tr3, sum3. rewrite D01, D02, D10, D12, D20, D21.
    transitivity (Rm i 0%nat * D 0%nat 0%nat * (Rm 0%nat 0%nat * Rm 0%nat j + Rm 1%nat 0%nat * Rm 1%nat j + Rm 2%nat 0%nat * Rm 2%nat j)
                + Rm i 1%nat * D 1%nat 1%nat * (Rm 0%nat 1%nat * Rm 0%nat j + Rm 1%nat 1%nat * Rm 1%nat j + Rm 2%nat 1%nat * Rm 2%nat j)
                + Rm i 2%nat * D 2%nat 2%nat * (Rm 0%nat 2%nat * Rm 0%nat j + Rm 1%nat 2%nat * Rm 1%nat j + Rm 2%nat 2%nat * Rm 2%nat j)); [ring|].
    rewrite O0, O1, O2.
    destruct j as [|[|[|j]]]; [ | | | exfalso; lia ]; cbn [Nat.eqb]; ring.
  - intros i j Hi Hj. unfold mm, tr3, sum3. rewrite D01, D02, D10, D12, D20, D21. ring.
Qed.

(* ---------------------------------------------------------------------- *)
(* orthorhombic tensors and signed permutations of the axes                *)
(* ---------------------------------------------------------------------- *)
Definition paired (p q r s : nat) : bool :=
  (Nat.eqb p q && Nat.eqb r s) || (Nat.eqb p r && Nat.eqb q s) || (Nat.eqb p s && Nat.eqb q r).
(* only C_iijj, C_ijij, C_ijji may be non-zero: the nine orthorhombic constants *)
Definition ortho4 (f : T4) : Prop :=
  forall p q r s, (p < 3)%nat -> (q < 3)%nat -> (r < 3)%nat -> (s < 3)%nat ->
    paired p q r s = false -> f p q r s = 0.

Lemma ortho4_extb f g : eq4b f g -> ortho4 g -> ortho4 f.
Proof. intros H Hg p q r s Hp Hq Hr Hs Hn. rewrite (H p q r s) by assumption. apply Hg; assumption. Qed.

(* the contractions of an orthorhombic tensor are diagonal *)
Lemma ortho_contractions_diagonal f : ortho4 f ->
  forall a b, (a < 3)%nat -> (b < 3)%nat -> a <> b -> dil4 f a b = 0 /\ dev4 f a b = 0.
Proof.
  intros H a b Ha Hb Hne. unfold dil4, dev4, sum3.
  destruct a as [|[|[|a]]]; [ | | | exfalso; lia ];
  (destruct b as [|[|[|b]]]; [ | | | exfalso; lia ]); try (exfalso; apply Hne; reflexivity);
  rewrite !H by (try lia; reflexivity); split; ring.
Qed.

Lemma sum3_pick p x (g : nat -> R) : (p < 3)%nat ->
  sum3 (fun a => (if Nat.eqb a p then x else 0) * g a) = x * g p.
Proof. intros Hp. destruct p as [|[|[|p]]]; [ | | | exfalso; lia ]; unfold sum3; cbn [Nat.eqb]; ring. Qed.

Definition sperm (P : M3) (pi : nat -> nat) (s : nat -> R) : Prop :=
  (forall i, (i < 3)%nat -> (pi i < 3)%nat) /\
  (forall i i', (i < 3)%nat -> (i' < 3)%nat -> pi i = pi i' -> i = i') /\
  (forall i a, (i < 3)%nat -> (a < 3)%nat -> P i a = if Nat.eqb a (pi i) then s i else 0).

Section SignedPerm.
  Variables (P : M3) (pi : nat -> nat) (s : nat -> R).
  Hypothesis HP : sperm P pi s.

  Lemma row_pick i (g : nat -> R) : (i < 3)%nat -> sum3 (fun a => P i a * g a) = s i * g (pi i).
  Proof using HP.
    intros Hi. destruct HP as (P1 & _ & P3).
    rewrite <- (sum3_pick (pi i) (s i) g (P1 i Hi)). apply sum3_ext. intros a Ha. rewrite (P3 i a Hi Ha). reflexivity.
  Qed.

  Lemma rot4_sperm (f : T4) i j k l : (i < 3)%nat -> (j < 3)%nat -> (k < 3)%nat -> (l < 3)%nat ->
    rot4 f P i j k l = s i * s j * s k * s l * f (pi i) (pi j) (pi k) (pi l).
  Proof using HP.
    intros Hi Hj Hk Hl. unfold rot4.
    unfold mp4 at 1. rewrite (row_pick l _ Hl).
    unfold mp3 at 1. rewrite (row_pick k _ Hk).
    unfold mp2 at 1. rewrite (row_pick j _ Hj).
    unfold mp1 at 1. rewrite (row_pick i _ Hi). ring.
  Qed.

  Lemma paired_perm p q r t : (p < 3)%nat -> (q < 3)%nat -> (r < 3)%nat -> (t < 3)%nat ->
    paired (pi p) (pi q) (pi r) (pi t) = paired p q r t.
  Proof using HP.
    intros Hp Hq Hr Ht. destruct HP as (_ & P2 & _).
    assert (E: forall a b, (a < 3)%nat -> (b < 3)%nat -> Nat.eqb (pi a) (pi b) = Nat.eqb a b).
    { intros a b Ha Hb. destruct (Nat.eqb a b) eqn:Eab.
      - apply Nat.eqb_eq in Eab; subst. apply Nat.eqb_refl.
      - apply Nat.eqb_neq. intros Hc. apply Nat.eqb_neq in Eab. apply Eab. apply P2; assumption. }
    unfold paired. rewrite !E by assumption. reflexivity.
  Qed.

  Theorem ortho4_sperm (f : T4) : ortho4 f -> ortho4 (rot4 f P).
  Proof using HP.
    intros H p q r t Hp Hq Hr Ht Hn. rewrite rot4_sperm by assumption.
    destruct HP as (P1 & _ & _).
    rewrite H; [ring | apply P1 | apply P1 | apply P1 | apply P1 | ]; try assumption.
    rewrite paired_perm by assumption. exact Hn.
  Qed.
End SignedPerm.

(* ---------------------------------------------------------------------- *)
(* an orthorhombic tensor has a 21-vector with components 9..20 zero, so   *)
(* its monoclinic and triclinic parts vanish                               *)
(* ---------------------------------------------------------------------- *)
Definition offb (i j : nat) : bool :=
  (Nat.ltb i 3 && Nat.leb 3 j) || (Nat.leb 3 i && Nat.ltb j 3) || (Nat.leb 3 i && Nat.leb 3 j && negb (Nat.eqb i j)).

Lemma pre_mean_ortho (f : T4) i j : ortho4 f -> (i < 6)%nat -> (j < 6)%nat -> offb i j = true ->
  pre_mean f i j = 0.
Proof.
  intros H Hi Hj Hoff. six_cases i; six_cases j; try discriminate Hoff;
  cbv [pre_mean pre flat_map map app lsum fold_right length fst snd INR];
  rewrite !H by (try lia; reflexivity); field.
Qed.

Lemma etv_ortho (T : arr NumR) i j : ortho4 (t4 T) -> (i < 6)%nat -> (j < 6)%nat -> offb i j = true ->
  mat6 (k_elastic_tensor_to_voigt T) i j = 0.
Proof.
  intros H Hi Hj Hoff. rewrite etv_index_exhaustive by assumption.
  assert (Hoff': offb j i = true) by (six_cases i; six_cases j; try discriminate Hoff; reflexivity).
  rewrite (pre_mean_ortho _ i j H Hi Hj Hoff), (pre_mean_ortho _ j i H Hj Hi Hoff'). field.
Qed.

Lemma ortho_vector (T : arr NumR) : ortho4 (t4 T) ->
  forall k, (9 <= k < 21)%nat -> k_voigt_matrix_to_vector (k_elastic_tensor_to_voigt T) k = 0.
Proof.
  intros H. set (M := k_elastic_tensor_to_voigt T).
  pose proof (etv_ortho T 0 3 H ltac:(lia) ltac:(lia) eq_refl)%nat as E03.
  pose proof (etv_ortho T 1 4 H ltac:(lia) ltac:(lia) eq_refl)%nat as E14.
  pose proof (etv_ortho T 2 5 H ltac:(lia) ltac:(lia) eq_refl)%nat as E25.
  pose proof (etv_ortho T 2 3 H ltac:(lia) ltac:(lia) eq_refl)%nat as E23.
  pose proof (etv_ortho T 0 4 H ltac:(lia) ltac:(lia) eq_refl)%nat as E04.
  pose proof (etv_ortho T 1 5 H ltac:(lia) ltac:(lia) eq_refl)%nat as E15.
  pose proof (etv_ortho T 1 3 H ltac:(lia) ltac:(lia) eq_refl)%nat as E13.
  pose proof (etv_ortho T 2 4 H ltac:(lia) ltac:(lia) eq_refl)%nat as E24.
  pose proof (etv_ortho T 0 5 H ltac:(lia) ltac:(lia) eq_refl)%nat as E05.
  pose proof (etv_ortho T 4 5 H ltac:(lia) ltac:(lia) eq_refl)%nat as E45.
  pose proof (etv_ortho T 5 3 H ltac:(lia) ltac:(lia) eq_refl)%nat as E53.
  pose proof (etv_ortho T 3 4 H ltac:(lia) ltac:(lia) eq_refl)%nat as E34.
  fold M in E03, E14, E25, E23, E04, E15, E13, E24, E05, E45, E53, E34.
  cbv [mat6 Nat.add Nat.mul] in E03, E14, E25, E23, E04, E15, E13, E24, E05, E45, E53, E34.
  intros k Hk.
  do 9 (destruct k as [|k]; [exfalso; lia|]).
  do 12 (destruct k as [|k]; [lazy [k_voigt_matrix_to_vector mk_arr List.nth]; numR;
    rewrite ?E03, ?E14, ?E25, ?E23, ?E04, ?E15, ?E13, ?E24, ?E05, ?E45, ?E53, ?E34; ring|]).
  exfalso; lia.
Qed.

Lemma ortho_range (x : arr NumR) : (forall k, (9 <= k < 21)%nat -> x k = 0) -> veq (k_ortho_project x) x.
Proof.
  intros H k Hk.
  do 9 (destruct k as [|k]; [lazy [k_ortho_project mk_arr List.nth]; reflexivity|]).
  do 12 (destruct k as [|k]; [lazy [k_ortho_project mk_arr List.nth]; numR; symmetry; apply H; lia|]).
  exfalso; lia.
Qed.

Lemma norm21_vsub_eq (a b : arr NumR) : (forall k, (k < 21)%nat -> a k = b k) ->
  @norm21 NumR (@vsub21 NumR a b) = 0.
Proof.
  intros H. unfold norm21, vsub21, tab21.
  cbv [seq map mk_arr List.nth fold_left].
  rewrite !H by lia. numR.
  match goal with |- sqrt ?e = 0 => replace e with 0 by ring end. apply sqrt_0.
Qed.

(* tric = mono = 0 for a vector in the orthorhombic range *)
Lemma ortho_vec_parts (rv : arr NumR) : (forall k, (9 <= k < 21)%nat -> rv k = 0) ->
  @norm21 NumR (@vsub21 NumR rv (k_mono_project rv)) = 0 /\
  @norm21 NumR (@vsub21 NumR (k_mono_project rv) (k_ortho_project (k_mono_project rv))) = 0.
Proof.
  intros H. pose proof (ortho_range rv H) as Ho. pose proof (ortho_range_in_mono rv Ho) as Hm.
  split; apply norm21_vsub_eq; intros k Hk.
  - symmetry. apply Hm, Hk.
  - rewrite (ortho_mono rv k Hk), (Ho k Hk). apply Hm, Hk.
Qed.

(* the candidate frame Rt with Rt . R = signed permutation, applied to T = rotate T0 R with T0
   orthorhombic: the monoclinic and triclinic norms computed by frame_parts are zero *)
Theorem frame_ortho_parts (vm Rt : arr NumR) (T0 : T4) (Rm P : M3) pi s iso :
  ortho4 T0 -> eq4b (t4 (k_voigt_to_elastic_tensor vm)) (rot4 T0 Rm) ->
  sperm P pi s -> eq2b (mm (mat3 Rt) Rm) P ->
  forall delta tric mono ortho tetr hex,
    @frame_parts NumR vm iso Rt = Ok (delta, (tric, mono, ortho, tetr, hex)) -> tric = 0 /\ mono = 0.
Proof.
  intros HT0 HT HP HRt delta tric mono ortho tetr hex H.
  unfold frame_parts in H.
  set (T := @rotate4 NumR (k_voigt_to_elastic_tensor vm) Rt) in *.
  assert (HO: ortho4 (t4 T)).
  { apply (ortho4_extb _ (rot4 T0 P)); [|apply (ortho4_sperm P pi s HP), HT0].
    unfold T. eapply eq4b_trans; [apply rotate4_is_k_rotate|].
    eapply eq4b_trans; [apply rotate_is_mode_products|].
    eapply eq4b_trans; [apply rot4_extb, HT|].
    eapply eq4b_trans; [apply eq4_eq4b, rot4_compose|]. apply rot4_extR, HRt. }
  pose proof (ortho_vec_parts _ (ortho_vector T HO)) as (E1 & E2).
  destruct (k_hex_project _) as [hx|e]; [|discriminate].
  inversion H; subst. split; assumption.
Qed.

(* ---------------------------------------------------------------------- *)
(* sccs_is_R and its consequences for a rotated orthorhombic tensor         *)
(* ---------------------------------------------------------------------- *)
Lemma eigcols_extb (S S' E : M3) lam : eq2b S S' -> eigcols S E lam -> eigcols S' E lam.
Proof.
  intros H HE j i Hj Hi. rewrite <- (HE j i Hj Hi). unfold mv. apply sum3_ext. intros k Hk.
  rewrite (H i k Hi Hk). reflexivity.
Qed.

Lemma cyc_inj i r r' : (r < 3)%nat -> (r' < 3)%nat -> ((i + r) mod 3 = (i + r') mod 3)%nat -> r = r'.
Proof.
  intros Hr Hr' H.
  pose proof (Nat.div_mod_eq (i + r) 3) as E1. pose proof (Nat.div_mod_eq (i + r') 3) as E2.
  pose proof (Nat.mod_upper_bound (i + r) 3 ltac:(lia)). pose proof (Nat.mod_upper_bound (i + r') 3 ltac:(lia)).
  lia.
Qed.

Section Frame.
  (* vm: the symmetric Voigt matrix handed to the decomposition; it is T0 (orthorhombic, both
     contractions with three distinct principal values) seen in the frame Rq *)
  Variables (vm Ed Ev Rq : arr NumR) (T0 : T4) (mud muv : nat -> R).
  Hypothesis Hsym : sym6 vm.
  Hypothesis HT0 : ortho4 T0.
  Hypothesis HR : orth (mat3 Rq).
  Hypothesis HT : eq4b (t4 (k_voigt_to_elastic_tensor vm)) (rot4 T0 (mat3 Rq)).
  Hypothesis Hdd : distinct3 (fun k => dil4 T0 k k).
  Hypothesis Hdv : distinct3 (fun k => dev4 T0 k k).
  (* the two eigh oracles: orthonormal columns, each an eigenvector *)
  Hypothesis HEd : orth (mat3 Ed).
  Hypothesis HEdv : eigcols (mat3 (fst (k_voigt_decompose vm))) (mat3 Ed) mud.
  Hypothesis HEv : orth (mat3 Ev).
  Hypothesis HEvv : eigcols (mat3 (snd (k_voigt_decompose vm))) (mat3 Ev) muv.

  Lemma oracle_bases_signed :
    (exists pi s, signed_cols Ed Rq pi s) /\ (exists sg t, signed_cols Ev Rq sg t).
  Proof using Hsym HT0 HR HT Hdd Hdv HEd HEdv HEv HEvv.
    destruct (contractions vm Hsym) as (CD & CV).
    split.
    - destruct (conj_diag_eigcols (mat3 Rq) (dil4 T0) HR
                  (fun a b Ha Hb Hne => proj1 (ortho_contractions_diagonal T0 HT0 a b Ha Hb Hne))) as (EC & SC).
      apply (eigenbasis_signed_cols _ Ed Rq _ mud SC HR EC Hdd HEd).
      eapply eigcols_extb; [|exact HEdv]. intros a b Ha Hb.
      rewrite (CD a b Ha Hb), (dil4_extb _ _ HT a b Ha Hb). apply dil4_rot4, HR.
    - destruct (conj_diag_eigcols (mat3 Rq) (dev4 T0) HR
                  (fun a b Ha Hb Hne => proj2 (ortho_contractions_diagonal T0 HT0 a b Ha Hb Hne))) as (EC & SC).
      apply (eigenbasis_signed_cols _ Ev Rq _ muv SC HR EC Hdv HEv).
      eapply eigcols_extb; [|exact HEvv]. intros a b Ha Hb.
      rewrite (CV a b Ha Hb), (dev4_extb _ _ HT a b Ha Hb). apply dev4_rot4, HR.
  Qed.

  (* sccs_is_R: every row of every candidate rotation is +- a column of Rq, and the three
     rows of one candidate use three different columns *)
  Theorem sccs_is_R :
    exists pi s, signed_cols Ed Rq pi s /\
      forall i r a, (r < 3)%nat -> (a < 3)%nat ->
        mat3 (@sccs_rotation NumR Ed Ev i) r a = s ((i + r) mod 3) * mat3 Rq a (pi ((i + r) mod 3)).
  Proof using Hsym HT0 HR HT Hdd Hdv HEd HEdv HEv HEvv.
    destruct oracle_bases_signed as ((pi & s & HD) & (sg & t & HV)).
    exists pi, s. split; [exact HD|]. intros i r a. apply (sccs_rotation_rows Ed Ev Rq pi sg s t HR HD HV).
  Qed.

  (* ortho_mono_tric_vanish + hex_axis: in EVERY candidate frame the monoclinic and triclinic
     norms are zero, and the third row (the reported axis) is +- Rq e_k *)
  Theorem candidate_frame i iso delta tric mono ortho tetr hex :
    @frame_parts NumR vm iso (@sccs_rotation NumR Ed Ev i) = Ok (delta, (tric, mono, ortho, tetr, hex)) ->
    tric = 0 /\ mono = 0 /\
    exists k sgn, (k < 3)%nat /\ pm1 sgn /\
      forall a, (a < 3)%nat -> @sccs_rotation NumR Ed Ev i (6 + a)%nat = sgn * mat3 Rq a k.
  Proof using Hsym HT0 HR HT Hdd Hdv HEd HEdv HEv HEvv.
    intros H. destruct sccs_is_R as (pi & s & (D1 & D2 & D3) & Hrows).
    set (pi' := fun r => pi ((i + r) mod 3)). set (s' := fun r => s ((i + r) mod 3)).
    set (P := fun r c : nat => if Nat.eqb c (pi' r) then s' r else 0).
    assert (Hm: forall r, ((i + r) mod 3 < 3)%nat) by (intros r; apply Nat.mod_upper_bound; lia).
    assert (HP: sperm P pi' s').
    { split; [intros r _; apply D1, Hm|]. split; [|intros r a _ _; reflexivity].
      intros r r' Hr Hr' E. apply (cyc_inj i r r' Hr Hr'). apply D2; [apply Hm | apply Hm | exact E]. }
    assert (HRt: eq2b (mm (mat3 (@sccs_rotation NumR Ed Ev i)) (mat3 Rq)) P).
    { intros r c Hr Hc. unfold mm, sum3. rewrite !Hrows by lia. fold (pi' r) (s' r).
      pose proof (HR (pi' r) c (proj1 (D1 _ (Hm r))) Hc) as O. unfold sum3 in O.
      transitivity (s' r * (mat3 Rq 0%nat (pi' r) * mat3 Rq 0%nat c + mat3 Rq 1%nat (pi' r) * mat3 Rq 1%nat c
                            + mat3 Rq 2%nat (pi' r) * mat3 Rq 2%nat c)); [ring|].
      rewrite O. unfold P. rewrite (Nat.eqb_sym c (pi' r)). destruct (Nat.eqb (pi' r) c); ring. }
    destruct (frame_ortho_parts vm _ T0 (mat3 Rq) P pi' s' iso HT0 HT HP HRt _ _ _ _ _ _ H) as (E1 & E2).
    split; [exact E1|]. split; [exact E2|].
    exists (pi' 2%nat), (s' 2%nat). split; [apply D1, Hm|]. split; [apply D1, Hm|].
    intros a Ha. unfold pi', s'. rewrite <- (Hrows i 2%nat a ltac:(lia) Ha). reflexivity.
  Qed.
End Frame.

(* ---------------------------------------------------------------------- *)
(* the whole function: whatever candidate frame elasticity_components1      *)
(* selects, the reported monoclinic and triclinic percentages are zero and  *)
(* the reported hexagonal axis is +- a column of Rq                         *)
(* ---------------------------------------------------------------------- *)
Definition good_tail (Rq : arr NumR) (l : list R) : Prop :=
  List.nth 3 l 0 = 0 /\ List.nth 4 l 0 = 0 /\
  exists k sgn, (k < 3)%nat /\ pm1 sgn /\ forall a, (a < 3)%nat -> List.nth (5 + a) l 0 = sgn * mat3 Rq a k.

Definition inv_state (Rq : arr NumR) (st : res (R * option (list R))) : Prop :=
  match st with
  | Ok (_, Some l) => good_tail Rq l
  | _ => True
  end.

Theorem ec1_rotated_orthorhombic (M Ed Ev Rq : arr NumR) (T0 : T4) (mud muv : nat -> R) out :
  let vm := k_upper_tri_to_symmetric_6 M in
  sym6 vm -> ortho4 T0 -> orth (mat3 Rq) ->
  eq4b (t4 (k_voigt_to_elastic_tensor vm)) (rot4 T0 (mat3 Rq)) ->
  distinct3 (fun k => dil4 T0 k k) -> distinct3 (fun k => dev4 T0 k k) ->
  orth (mat3 Ed) -> eigcols (mat3 (fst (k_voigt_decompose vm))) (mat3 Ed) mud ->
  orth (mat3 Ev) -> eigcols (mat3 (snd (k_voigt_decompose vm))) (mat3 Ev) muv ->
  @elasticity_components1 NumR M Ed Ev = Ok out ->
  List.nth 6 out 0 = 0 /\ List.nth 7 out 0 = 0 /\
  exists k sgn, (k < 3)%nat /\ pm1 sgn /\ forall a, (a < 3)%nat -> List.nth (8 + a) out 0 = sgn * mat3 Rq a k.
Proof.
  intros vm Hsym HT0 HR HT Hdd Hdv HEd HEdv HEv HEvv H.
  unfold elasticity_components1 in H. fold vm in H.
  destruct (@bulk_shear NumR vm) as [K G]. cbv zeta in H.
  match type of H with context [fold_left ?f _ _] => set (step := f) in H end.
  assert (Inv: forall st i, inv_state Rq st -> inv_state Rq (step st i)).
  { intros [[d best]|e] i Hinv; [|exact I]. unfold step.
    destruct (@frame_parts NumR vm (@iso_vector NumR K G) (@sccs_rotation NumR Ed Ev i))
      as [[delta [[[[tric mono] ortho] tetr] hex]]|e'] eqn:EF; [|exact I].
    destruct (ltb delta d); [|exact Hinv].
    destruct (candidate_frame vm Ed Ev Rq T0 mud muv Hsym HT0 HR HT Hdd Hdv HEd HEdv HEv HEvv
                _ _ _ _ _ _ _ _ EF) as (E1 & E2 & k & sgn & Hk & Hs & Hax).
    cbn [inv_state]. unfold good_tail. cbn [List.nth]. subst tric mono. numR.
    split; [ring|]. split; [ring|]. exists k, sgn. split; [exact Hk|]. split; [exact Hs|].
    intros a Ha. destruct a as [|[|[|a]]]; [ | | | exfalso; lia ]; cbn [Nat.add List.nth];
      [apply (Hax 0%nat) | apply (Hax 1%nat) | apply (Hax 2%nat)]; lia. }
  assert (Hfin: inv_state Rq (fold_left step [0; 1; 2]%nat (Ok (@norm21 NumR (k_voigt_matrix_to_vector vm), None)))).
  { cbn [fold_left]. apply Inv, Inv, Inv. exact I. }
  destruct (fold_left step [0; 1; 2]%nat _) as [[d [l|]]|e]; try discriminate.
  inversion H; subst out. cbn [inv_state] in Hfin. destruct Hfin as (G1 & G2 & k & sgn & Hk & Hs & Hax).
  split; [exact G1|]. split; [exact G2|]. exists k, sgn. split; [exact Hk|]. split; [exact Hs|].
  intros a Ha. exact (Hax a Ha).
Qed.

(* ---------------------------------------------------------------------- *)
(* the hypotheses of the frame theorems are satisfiable                    *)
(* ---------------------------------------------------------------------- *)
Definition M_ortho_example : arr NumR := fun k =>
  match k with 0%nat => 1 | 7%nat => 2 | 14%nat => 3 | 21%nat => 1 | 28%nat => 1 | 35%nat => 1 | _ => 0 end.

Lemma C12_frame_nonvacuous_proof :
  let vm := M_ortho_example in let T0 := t4 (k_voigt_to_elastic_tensor vm) in
  sym6 vm /\ ortho4 T0 /\ orth (mat3 (@eye3 NumR)) /\
  eq4b (t4 (k_voigt_to_elastic_tensor vm)) (rot4 T0 (mat3 (@eye3 NumR))) /\
  distinct3 (fun k => dil4 T0 k k) /\ distinct3 (fun k => dev4 T0 k k).
Proof.
  intros vm T0.
  assert (Hs: sym6 vm).
  { intros i j Hi Hj. six_cases i; six_cases j; reflexivity. }
  split; [exact Hs|]. split.
  { intros p q r s Hp Hq Hr Hs' Hn. unfold T0. rewrite vte_index_exhaustive by assumption.
    three_c p; three_c q; three_c r; three_c s; try discriminate Hn; reflexivity. }
  split; [apply C12_nonvacuous_proof|]. split.
  { apply eq4b_sym. eapply eq4b_trans; [apply rot4_extR, mat3_eye3|]. apply rot4_id. }
  split; unfold distinct3, dil4, dev4, sum3, T0;
    rewrite !vte_index_exhaustive by lia;
    cbv [mat6 vidx Nat.eqb Nat.sub Nat.add Nat.mul vm M_ortho_example]; repeat split; lra.
Qed.

(* the two clauses of ec1_rotated_orthorhombic separately (for Properties/C12.v) *)
Corollary ec1_mono_tric_vanish (M Ed Ev Rq : arr NumR) (T0 : T4) (mud muv : nat -> R) out :
  let vm := k_upper_tri_to_symmetric_6 M in
  sym6 vm -> ortho4 T0 -> orth (mat3 Rq) ->
  eq4b (t4 (k_voigt_to_elastic_tensor vm)) (rot4 T0 (mat3 Rq)) ->
  distinct3 (fun k => dil4 T0 k k) -> distinct3 (fun k => dev4 T0 k k) ->
  orth (mat3 Ed) -> eigcols (mat3 (fst (k_voigt_decompose vm))) (mat3 Ed) mud ->
  orth (mat3 Ev) -> eigcols (mat3 (snd (k_voigt_decompose vm))) (mat3 Ev) muv ->
  @elasticity_components1 NumR M Ed Ev = Ok out ->
  List.nth 6 out 0 = 0 /\ List.nth 7 out 0 = 0.
Proof.
  intros vm H1 H2 H3 H4 H5 H6 H7 H8 H9 H10 H.
  destruct (ec1_rotated_orthorhombic M Ed Ev Rq T0 mud muv out H1 H2 H3 H4 H5 H6 H7 H8 H9 H10 H) as (A & B & _).
  split; assumption.
Qed.

Corollary ec1_hex_axis (M Ed Ev Rq : arr NumR) (T0 : T4) (mud muv : nat -> R) out :
  let vm := k_upper_tri_to_symmetric_6 M in
  sym6 vm -> ortho4 T0 -> orth (mat3 Rq) ->
  eq4b (t4 (k_voigt_to_elastic_tensor vm)) (rot4 T0 (mat3 Rq)) ->
  distinct3 (fun k => dil4 T0 k k) -> distinct3 (fun k => dev4 T0 k k) ->
  orth (mat3 Ed) -> eigcols (mat3 (fst (k_voigt_decompose vm))) (mat3 Ed) mud ->
  orth (mat3 Ev) -> eigcols (mat3 (snd (k_voigt_decompose vm))) (mat3 Ev) muv ->
  @elasticity_components1 NumR M Ed Ev = Ok out ->
  exists k sgn, (k < 3)%nat /\ pm1 sgn /\
    forall a, (a < 3)%nat -> List.nth (8 + a) out 0 = sgn * mat3 Rq a k.
Proof.
  intros vm H1 H2 H3 H4 H5 H6 H7 H8 H9 H10 H.
  destruct (ec1_rotated_orthorhombic M Ed Ev Rq T0 mud muv out H1 H2 H3 H4 H5 H6 H7 H8 H9 H10 H) as (_ & _ & C).
  exact C.
Qed.
