(* Proofs_decomp4.v -- C12 for GENERAL (non-orthorhombic) tensors: when both contractions have simple spectra
   and the eigh oracle lists the eigenvectors in the same order in both frames (ascending eigenvalues -- the
   eigenvalues are frame invariant), every number reported by elasticity_components for the tensor presented in
   a frame Rq equals the number reported in the original frame, and the reported axis co-rotates up to sign.
   No tie exclusion is needed: both runs compare the SAME real numbers in the SAME order.

   Chain:  (A) column j of the eigenvector matrix in the new frame is +- Rq . (column j in the old frame);
           (B) the nearest-eigenvector pairing (smallest_angle in degrees, bound 10, sign(dot) * j, (d + w v) / 2,
               normalisation) is equivariant: sccs_col' i = s_i Rq . sccs_col i  -- smallest_angle of unit vectors
               is an even function of their dot product, the weight picks up the product of the two signs;
           (C) hence the candidate frame Rt'_i = diag(s) . Rt_i . Rq^T and the tensor rotated into it is the
               tensor rotated into Rt_i with some axes REVERSED (rot4_compose; Rt_i need not be orthogonal);
           (D) reversing axes multiplies each of the 21 components by +-1 (sg21), the four projectors commute
               with that, the isotropic vector is fixed by it, so all six norms of frame_parts are unchanged;
           (E) K, G, |x|, |x - iso| are frame invariant, the selection loop sees identical numbers. *)
From Coq Require Import Reals ZArith List Lra Lia Bool.
From PV Require Import Num NumR Model_voigt Model_decomp Proofs_tensors_alg Proofs_tensors_rot
  Proofs_tensors_maps Proofs_tensors_proj Inst_tensors Proofs_decomp Proofs_decomp2 Proofs_decomp3.
From PV.gen Require Import Gen_tensors.
Import ListNotations.
Open Scope R_scope.

(* ---------------------------------------------------------------------- *)
(* (D) reversing axes                                                      *)
(* ---------------------------------------------------------------------- *)
Definition dg (e : nat -> R) : M3 := fun i j => if Nat.eqb i j then e i else 0.
Definition flip4 (e : nat -> R) (f : T4) : T4 := fun p q r s => e p * e q * e r * e s * f p q r s.

Lemma rot4_dg f e : eq4b (rot4 f (dg e)) (flip4 e f).
Proof.
  intros p q r s Hp Hq Hr Hs. unfold rot4, mp1, mp2, mp3, mp4, sum3, dg, flip4.
  three_c p; three_c q; three_c r; three_c s; cbn [Nat.eqb]; ring.
Qed.

(* the sign each of the 21 components picks up *)
Definition sg21 (e : nat -> R) (k : nat) : R :=
  let a := e 1%nat * e 2%nat in let b := e 0%nat * e 2%nat in let c := e 0%nat * e 1%nat in
  nth k [1; 1; 1; 1; 1; 1; 1; 1; 1; a; b; c; a; b; c; a; b; c; a; b; c] 1.
Definition flip21 (e : nat -> R) (x : arr NumR) : arr NumR := fun k => sg21 e k * x k.
Definition pm3 (e : nat -> R) : Prop := pm1 (e 0%nat) /\ pm1 (e 1%nat) /\ pm1 (e 2%nat).

Lemma flat81 (a : nat -> R) n : (n < 81)%nat ->
  a n = t4 a (n / 27)%nat ((n / 9) mod 3)%nat ((n / 3) mod 3)%nat (n mod 3)%nat.
Proof.
  intros Hn. unfold t4. f_equal.
  do 81 (destruct n as [|n]; [reflexivity|]). lia.
Qed.

Ltac pm3_cases He :=
  let A := fresh in let B := fresh in let C := fresh in
  destruct He as (A & B & C); destruct A as [A|A]; destruct B as [B|B]; destruct C as [C|C].

Lemma rv_flip (T T0 : arr NumR) (e : nat -> R) : pm3 e -> eq4b (t4 T) (flip4 e (t4 T0)) ->
  veq (k_voigt_matrix_to_vector (k_elastic_tensor_to_voigt T))
      (flip21 e (k_voigt_matrix_to_vector (k_elastic_tensor_to_voigt T0))).
Proof.
  intros He H.
  assert (HF: forall n, (n < 81)%nat ->
            T n = e (n / 27)%nat * e ((n / 9) mod 3)%nat * e ((n / 3) mod 3)%nat * e (n mod 3)%nat * T0 n).
  { intros n Hn. rewrite (flat81 T n Hn), (flat81 T0 n Hn).
    apply H; first [ apply Nat.div_lt_upper_bound; lia | apply Nat.mod_upper_bound; lia ]. }
  intros k Hk. unfold flip21, sg21.
  pm3_cases He;
  each21 k ltac:(
    lazy [k_voigt_matrix_to_vector k_elastic_tensor_to_voigt mk_arr List.nth]; numR;
    rewrite !HF by lia;
    lazy [Nat.div Nat.modulo Nat.divmod fst snd Nat.sub];
    repeat match goal with Hx : e _ = _ |- _ => rewrite Hx end; field).
Qed.

(* the four projectors commute with axis reversals *)
Ltac flip_proj He k :=
  unfold flip21, sg21; pm3_cases He;
  each21 k ltac:(unf; repeat match goal with Hx : _ _ = _ |- _ => rewrite Hx end; try field; try lra).

Lemma flip_mono e x : pm3 e -> veq (k_mono_project (flip21 e x)) (flip21 e (k_mono_project x)).
Proof. intros He k Hk. flip_proj He k. Qed.
Lemma flip_ortho e x : pm3 e -> veq (k_ortho_project (flip21 e x)) (flip21 e (k_ortho_project x)).
Proof. intros He k Hk. flip_proj He k. Qed.
Lemma flip_tetr e x : pm3 e -> veq (k_tetr_project (flip21 e x)) (flip21 e (k_tetr_project x)).
Proof. intros He k Hk. flip_proj He k. Qed.
Lemma flip_hexv e x : pm3 e -> veq (hexv (flip21 e x)) (flip21 e (hexv x)).
Proof. intros He k Hk. pose proof sqrt2_pos. flip_proj He k. Qed.

Lemma sg21_sq e k : pm3 e -> sg21 e k * sg21 e k = 1.
Proof.
  intros He. unfold sg21. pm3_cases He;
  repeat match goal with Hx : e _ = _ |- _ => rewrite Hx end;
  do 21 (destruct k as [|k]; [cbn [nth]; ring|]); destruct k; cbn [nth]; ring.
Qed.

Lemma nrm_flip e a b : pm3 e -> nrm (flip21 e a) (flip21 e b) = nrm a b.
Proof.
  intros He. unfold nrm. f_equal. rewrite !sumsq21_dot. unfold dot21.
  cbv [seq fold_right vsub flip21].
  repeat match goal with |- context [sg21 e ?k * a ?k - sg21 e ?k * b ?k] =>
    replace ((sg21 e k * a k - sg21 e k * b k) * (sg21 e k * a k - sg21 e k * b k))
      with ((sg21 e k * sg21 e k) * ((a k - b k) * (a k - b k))) by ring;
    rewrite (sg21_sq e k He) end.
  ring.
Qed.

Lemma iso_flip e K G : veq (@iso_vector NumR K G) (flip21 e (@iso_vector NumR K G)).
Proof.
  intros k Hk. unfold flip21, sg21.
  each21 k ltac:(cbv [iso_vector mk_arr nth]; numR; ring).
Qed.

Lemma cand_flip e (x x0 : arr NumR) K G : pm3 e -> veq x (flip21 e x0) ->
  cand x (@iso_vector NumR K G) = cand x0 (@iso_vector NumR K G).
Proof.
  intros He Hx.
  rewrite (cand_ext x (flip21 e x0) _ _ Hx (fun k _ => eq_refl)).
  unfold cand.
  set (m0 := k_mono_project x0). set (o0 := k_ortho_project m0). set (t0 := k_tetr_project o0). set (h0 := hexv t0).
  pose proof (flip_mono e x0 He) as Hm. fold m0 in Hm.
  pose proof (ortho_ext _ _ Hm) as Ho1. pose proof (flip_ortho e m0 He) as Ho2. fold o0 in Ho2.
  assert (Ho : veq (k_ortho_project (k_mono_project (flip21 e x0))) (flip21 e o0))
    by (intros k Hk; rewrite Ho1, Ho2 by assumption; reflexivity).
  pose proof (tetr_ext _ _ Ho) as Ht1. pose proof (flip_tetr e o0 He) as Ht2. fold t0 in Ht2.
  assert (Ht : veq (k_tetr_project (k_ortho_project (k_mono_project (flip21 e x0)))) (flip21 e t0))
    by (intros k Hk; rewrite Ht1, Ht2 by assumption; reflexivity).
  pose proof (hexv_ext _ _ Ht) as Hh1. pose proof (flip_hexv e t0 He) as Hh2. fold h0 in Hh2.
  assert (Hh : veq (hexv (k_tetr_project (k_ortho_project (k_mono_project (flip21 e x0))))) (flip21 e h0))
    by (intros k Hk; rewrite Hh1, Hh2 by assumption; reflexivity).
  assert (VR : forall u, veq u u) by (intros u k _; reflexivity).
  rewrite (nrm_ext _ _ _ _ (VR _) Hh), (nrm_ext _ _ _ _ (VR (flip21 e x0)) Hm), (nrm_ext _ _ _ _ Hm Ho),
          (nrm_ext _ _ _ _ Ho Ht), (nrm_ext _ _ _ _ Ht Hh), (nrm_ext _ _ _ _ Hh (iso_flip e K G)).
  rewrite !nrm_flip by assumption. reflexivity.
Qed.
