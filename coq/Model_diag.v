(* Model_diag.v -- hand-written executable model of the eigenvalue-based diagnostics
   (pydrex.stats._scatter_matrix, pydrex.diagnostics.symmetry_pgr / coaxial_index /
   bingham_average / finite_strain, pydrex.utils.angle_fse_simpleshear), any number of
   grains.  LAPACK (scipy.linalg.eigh / eigvalsh) is an ORACLE: the functions below take
   it as an argument; the theorems (Proofs_diag.v) assume `eig_spec` of its outputs and
   the harness checks that hypothesis on every recorded call.  No proofs in this file. *)
From Coq Require Import ZArith List Bool.
From PV Require Import Num.
Import ListNotations.
Local Open Scope num_scope.

Section Model.
  Context {F : Num}.

  Definition vec3 : Type := (F * F * F)%type.
  Definition mat3 : Type := (vec3 * vec3 * vec3)%type.          (* three rows *)
  (* lower triangle of a symmetric matrix, the part LAPACK reads (lower=True):
     s00, s10, s11, s20, s21, s22 *)
  Definition sym3 : Type := (F * F * F * F * F * F)%type.

  Definition vx (v : vec3) : F := fst (fst v).
  Definition vy (v : vec3) : F := snd (fst v).
  Definition vz (v : vec3) : F := snd v.

  (* np.sum *)
  Definition dsum (l : list F) : F :=
    match l with [] => zero | x :: xs => fold_left add xs x end.

  (* orientations[:, row, :] -- the crystal axis `row` of one grain in the sample frame *)
  Definition rowv (r : nat) (o : mat3) : vec3 :=
    let '(a, b, c) := o in match r with 0%nat => a | 1%nat => b | _ => c end.

  (* axis specifier "a" | "b" | "c" (coded 0 1 2); anything else raises ValueError *)
  Definition row_of_axis (a : Z) : res nat :=
    if Z.eqb a 0 then Ok 0%nat else if Z.eqb a 1 then Ok 1%nat
    else if Z.eqb a 2 then Ok 2%nat else Err ValueError.

  (* stats._scatter_matrix: six sums over the grain list *)
  Definition scatter (os : list mat3) (r : nat) : sym3 :=
    let rs := map (rowv r) os in
    (dsum (map (fun v => vx v * vx v) rs),
     dsum (map (fun v => vx v * vy v) rs),
     dsum (map (fun v => vy v * vy v) rs),
     dsum (map (fun v => vx v * vz v) rs),
     dsum (map (fun v => vy v * vz v) rs),
     dsum (map (fun v => vz v * vz v) rs)).

  (* eigvalsh result: ascending eigenvalues; eigh result: the same and the three
     eigenvectors (the columns V[:,0], V[:,1], V[:,2] of SciPy's matrix) *)
  Definition eigvals : Type := vec3.
  Definition eigres : Type := (vec3 * (vec3 * vec3 * vec3))%type.

  (* P, G, R from ascending eigenvalues; the code reverses them ([::-1]) first *)
  Definition pgr_of (lam : eigvals) : vec3 :=
    let '(l1, l2, l3) := lam in
    let d0 := l3 in let d1 := l2 in let d2 := l1 in
    let s := (d0 + d1) + d2 in
    ((d0 - d1) / s, (ofZ 2 * (d1 - d2)) / s, (ofZ 3 * d2) / s).

  (* the mix-up "eigenvalues left ascending" (refuted variant) *)
  Definition pgr_of_ascending (lam : eigvals) : vec3 :=
    let '(l1, l2, l3) := lam in
    let s := (l1 + l2) + l3 in
    ((l1 - l2) / s, (ofZ 2 * (l2 - l3)) / s, (ofZ 3 * l3) / s).

  Definition symmetry_pgr (eigvalsh : sym3 -> eigvals) (os : list mat3) (r : nat) : vec3 :=
    pgr_of (eigvalsh (scatter os r)).

  Definition half : F := ofZ 1 / ofZ 2.

  Definition ba_of (pgr1 pgr2 : vec3) : F :=
    let '(P1, G1, _) := pgr1 in
    let '(P2, G2, _) := pgr2 in
    half * ((ofZ 2 - (P1 / (G1 + P1))) - (G2 / (G2 + P2))).

  Definition coaxial_index (eigvalsh : sym3 -> eigvals) (os : list mat3) (r1 r2 : nat) : F :=
    ba_of (symmetry_pgr eigvalsh os r1) (symmetry_pgr eigvalsh os r2).

  Definition dot3 (u v : vec3) : F := (vx u * vx v + vy u * vy v) + vz u * vz v.
  Definition norm3 (v : vec3) : F := nsqrt (dot3 v v).
  Definition normalize (v : vec3) : vec3 :=
    let n := norm3 v in (vx v / n, vy v / n, vz v / n).

  Definition last_vec (e : eigres) : vec3 := snd (snd e).
  Definition last_val (e : eigres) : F := vz (fst e).

  Definition bingham_average (eigh : sym3 -> eigres) (os : list mat3) (r : nat) : vec3 :=
    normalize (last_vec (eigh (scatter os r))).

  (* lower triangle of F . F^T *)
  Definition left_cauchy_green (Fm : mat3) : sym3 :=
    let '(a, b, c) := Fm in
    (dot3 a a, dot3 b a, dot3 b b, dot3 c a, dot3 c b, dot3 c c).

  (* the seeded mix-up F^T . F (refuted variant) *)
  Definition right_cauchy_green (Fm : mat3) : sym3 :=
    let '(a, b, c) := Fm in
    let c0 := (vx a, vx b, vx c) in let c1 := (vy a, vy b, vy c) in let c2 := (vz a, vz b, vz c) in
    (dot3 c0 c0, dot3 c1 c0, dot3 c1 c1, dot3 c2 c0, dot3 c2 c1, dot3 c2 c2).

  Definition finite_strain (eigh : sym3 -> eigres) (Fm : mat3) : F * vec3 :=
    let e := eigh (left_cauchy_green Fm) in
    (nsqrt (last_val e) - one, last_vec e).

  (* np.rad2deg *)
  Definition rad2deg (x : F) : F := x * (ofZ 180 / npi).

  (* utils.angle_fse_simpleshear *)
  Definition angle_fse_simpleshear (s : F) : F :=
    rad2deg (natan (nsqrt (s * s + one) + s)).

  (* np.clip(x, lo, hi) = minimum(maximum(x, lo), hi) *)
  Definition clip (x lo hi : F) : F :=
    let y := if ltb x lo then lo else x in if ltb hi y then hi else y.

  (* vector - plane * np.dot(vector, plane) *)
  Definition project_out (v p : vec3) : vec3 :=
    let d := dot3 v p in (vx v - vx p * d, vy v - vy p * d, vz v - vz p * d).

  (* diagnostics.smallest_angle (a numba kernel: scalar division by zero raises ZeroDivisionError):
     the angle in degrees, folded into [0, 90], between `vector` -- projected onto the plane with
     unit normal `plane` when one is given -- and the bidirectional `axis` *)
  Definition smallest_angle_core (v a : vec3) : res F :=
    let d := norm3 v * norm3 a in
    if eqb d zero then Err DivZero
    else
      let ang := rad2deg (nacos (clip (dot3 v a / d) (ofZ (-1)) one)) in
      if ltb (ofZ 90) ang then Ok (ofZ 180 - ang) else Ok ang.

  Definition smallest_angle (v a : vec3) (plane : option vec3) : res F :=
    smallest_angle_core (match plane with Some p => project_out v p | None => v end) a.

  (* frame rotation of a set of passive orientation matrices: every row a -> Q a,
     i.e. o -> o . Q^T *)
  Definition mulv (Q : mat3) (v : vec3) : vec3 :=
    let '(q0, q1, q2) := Q in (dot3 q0 v, dot3 q1 v, dot3 q2 v).
  Definition rotate_frame (Q : mat3) (o : mat3) : mat3 :=
    let '(a, b, c) := o in (mulv Q a, mulv Q b, mulv Q c).
  Definition transpose (M : mat3) : mat3 :=
    let '(a, b, c) := M in
    ((vx a, vx b, vx c), (vy a, vy b, vy c), (vz a, vz b, vz c)).
  (* M . N *)
  Definition mmul (M N : mat3) : mat3 :=
    let Nt := transpose N in
    let '(a, b, c) := M in (mulv Nt a, mulv Nt b, mulv Nt c).
End Model.
