(* Proofs_stats_range.v -- the RANGE of the drawn position is the grain count: for every number of grains M >= 1 and every sorted
   position k < M there are normalised volumes and a legal variate u in (0,1) that select k.  Hence whatever holds the drawn positions
   must hold every value up to M - 1, independently of the number of samples (seeded change C15f: an index array sized by n_samples). *)
From Coq Require Import Reals List Lia Lra.
From PV Require Import Num NumR Model_stats Proofs_stats.
Import ListNotations.
Open Scope R_scope.

Lemma lsum_repeat x n : lsum (repeat x n) = INR n * x.
Proof. induction n as [|n IH]; [simpl; unfold lsum; simpl; lra|]. cbn [repeat]. rewrite lsum_cons, IH, S_INR. lra. Qed.

Lemma nth_repeat0 (x : R) n k : (k < n)%nat -> nth k (repeat x n) 0 = x.
Proof. revert k; induction n as [|n IH]; intros k Hk; [lia|]. destruct k; [reflexivity|]. cbn [repeat nth]. apply IH. lia. Qed.

Lemma firstn_repeat (x : R) n k : (k <= n)%nat -> firstn k (repeat x n) = repeat x k.
Proof. revert k; induction n as [|n IH]; intros k Hk; [destruct k; [reflexivity | lia]|]. destruct k; [reflexivity|]. cbn [repeat firstn]. f_equal. apply IH. lia. Qed.

Theorem draw_position_range (M k : nat) : (k < M)%nat ->
  exists (fa c : list R) (u : R),
    length fa = M /\ Forall (fun x => 0 <= x) fa /\ lsum fa = 1 /\ @pin_last NumR (@cumsum NumR fa) = Ok c /\
    0 < u < 1 /\ @searchsorted NumR false c u = k.
Proof.
  intros Hk.
  assert (HM : 0 < INR M) by (apply lt_0_INR; lia).
  set (x := / INR M).
  assert (Hx : 0 < x) by (apply Rinv_0_lt_compat; exact HM).
  set (fa := repeat x M).
  assert (Hlen : length fa = M) by apply repeat_length.
  assert (Hnn : Forall (fun y => 0 <= y) fa).
  { apply Forall_forall. intros y Hy. apply repeat_spec in Hy. subst y. lra. }
  assert (Hs : lsum fa = 1) by (unfold fa; rewrite lsum_repeat; unfold x; field; lra).
  assert (Hne : fa <> []) by (intro E; rewrite E in Hlen; simpl in Hlen; lia).
  pose proof (pin_last_id fa Hne Hs) as Hp.
  assert (Hpk : psum fa k = INR k * x) by (unfold psum, fa; rewrite firstn_repeat by lia; apply lsum_repeat).
  assert (HpS : psum fa (S k) = INR k * x + x).
  { rewrite psum_S by lia. rewrite Hpk. unfold fa. now rewrite nth_repeat0 by lia. }
  set (u := INR k * x + x / 2).
  assert (Hk0 : 0 <= INR k) by apply pos_INR.
  assert (HkM : INR k + 1 <= INR M) by (rewrite <- S_INR; apply le_INR; lia).
  assert (Hu : 0 < u < 1).
  { unfold u. split; [nra|].
    assert (E : INR M * x = 1) by (unfold x; field; lra). nra. }
  exists fa, (@cumsum NumR fa), u. repeat split; try assumption; try (apply Hu).
  apply (proj2 (proj1 (draw_interval fa (@cumsum NumR fa) k u Hnn Hs Hp ltac:(lia) (proj1 Hu)))).
  rewrite Hpk, HpS. unfold u. lra.
Qed.
