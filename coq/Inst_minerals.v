(* Inst_minerals.v -- kernel-checked instance lemmas for the GLUE around the solver kernel (tie T).

   coq/gen/Gen_minerals.v is regenerated from the current source on every run by
   translator/specs_minerals.py (pydrex.utils.extract_vars / apply_gbs; the closure `eval_rhs`
   and the post-processing of Mineral.update_orientations, obtained from the real method with
   pydrex.minerals.LSODA replaced by a capturing stub).  The lemmas below state that each
   generated fixed-size definition coincides with the hand-written list model of
   Model_minerals.v (ev_F / ev_o / ev_f, gbs_orient / gbs_fracs, rhs, update) at
   n_grains = 1, 2, 3, for ALL inputs of the right length.  An edit of the glue source changes
   Gen_minerals.v and one of these proofs stops compiling.

   Arrays of the generated code are `mk_arr 0 l` for the model's list l (`A l` below); results
   are compared as Leibniz-equal tuples of such arrays (extract_vars, apply_gbs, update) or
   through `rhs_match` (eval_rhs: same error, or same length and pointwise equal entries --
   the callee k_derivatives_n{n} is related to Model_core.derivs by Inst_core.derivs_inst_{n},
   which is pointwise). *)
From Coq Require Import Reals ZArith List Bool Lra Lia.
From PV Require Import Num NumR Model_core Model_minerals Inst_core.
From PV.gen Require Import Gen_core Gen_minerals.
Import ListNotations.
Open Scope R_scope.

Notation RL := (list R).
Notation A := (@mk_arr R 0).

Lemma cons_eq {X} (a b : X) l1 l2 : a = b -> l1 = l2 -> a :: l1 = b :: l2.
Proof. intros -> ->; reflexivity. Qed.
Lemma pair_eq {X Y} (a a' : X) (b b' : Y) : a = a' -> b = b' -> (a, b) = (a', b').
Proof. intros -> ->; reflexivity. Qed.
Lemma arr_eq (l l' : RL) : l = l' -> A l = A l'.
Proof. intros ->; reflexivity. Qed.
Lemma div1 (x : R) : x / 1 = x.
Proof. field. Qed.

(* a list of known length is a list literal *)
Ltac explode l H :=
  repeat (destruct l as [|? l]; [ cbn in H; discriminate H | ]);
  destruct l; [ clear H | cbn in H; discriminate H ].

Ltac list_eq tac := repeat (apply cons_eq; [ tac | ]); try reflexivity.
Ltac arrs_eq tac := repeat apply pair_eq; apply arr_eq; list_eq tac.

(* case analysis on real comparisons, innermost first *)
Ltac cases_R :=
  repeat match goal with
  | |- context [Rltb ?a ?b] =>
      lazymatch a with context [Rltb _ _] => fail | _ => idtac end;
      lazymatch b with context [Rltb _ _] => fail | _ => idtac end;
      destruct (Rltb a b) eqn:?; cbv iota
  end;
  bool2prop; try reflexivity; try lra.

(* ================= extract_vars ================= *)
Ltac ev_elem :=
  cbv [mk_arr nth clip0 clip11 m_one nsum fold_left]; numR;
  first [ reflexivity | (f_equal; ring) | cases_R ].

Ltac ev_tac H y :=
  explode y H; cbv zeta;
  cbv [ev_F ev_o ev_f firstn skipn map Nat.mul Nat.add]; cbv zeta; arrs_eq ev_elem.

Lemma extract_vars_inst_1 (y : RL) : length y = 19%nat ->
  @k_extract_vars_n1 NumR (A y) = (A (@ev_F NumR y), A (@ev_o NumR y 1), A (@ev_f NumR y 1)).
Proof. intros H. unfold k_extract_vars_n1. ev_tac H y. Qed.
Lemma extract_vars_inst_2 (y : RL) : length y = 29%nat ->
  @k_extract_vars_n2 NumR (A y) = (A (@ev_F NumR y), A (@ev_o NumR y 2), A (@ev_f NumR y 2)).
Proof. intros H. unfold k_extract_vars_n2. ev_tac H y. Qed.
Lemma extract_vars_inst_3 (y : RL) : length y = 39%nat ->
  @k_extract_vars_n3 NumR (A y) = (A (@ev_F NumR y), A (@ev_o NumR y 3), A (@ev_f NumR y 3)).
Proof. intros H. unfold k_extract_vars_n3. ev_tac H y. Qed.

(* ================= apply_gbs ================= *)
Ltac masks :=
  repeat match goal with |- context [Rltb ?a ?b] => destruct (Rltb a b) eqn:? end; cbv iota.

Ltac gbs_elem := first [ reflexivity | (f_equal; ring) | (f_equal; field) ].

Ltac gbs_tac :=
  cbv zeta; repeat apply pair_eq; apply arr_eq;
  cbv [gbs_orient gbs_fracs gbs_floor gbs_mask gbs_thr chunks9 firstn skipn map nsum fold_left
       Z.of_nat Pos.of_succ_nat Pos.succ mk_arr nth concat]; cbv zeta; numR;
  rewrite ?div1; masks; cbv [app]; list_eq gbs_elem.

Lemma apply_gbs_inst_1 (o f prev : RL) (chi : R) :
  length o = 9%nat -> length f = 1%nat -> length prev = 9%nat ->
  @k_apply_gbs_n1 NumR (A o) (A f) chi (A prev) =
  (A (concat (@gbs_orient NumR chi 1 (@chunks9 NumR o 1) (@chunks9 NumR prev 1) f)), A (@gbs_fracs NumR chi 1 f)).
Proof. intros Ho Hf Hp. explode o Ho. explode f Hf. explode prev Hp. unfold k_apply_gbs_n1. gbs_tac. Qed.
Lemma apply_gbs_inst_2 (o f prev : RL) (chi : R) :
  length o = 18%nat -> length f = 2%nat -> length prev = 18%nat ->
  @k_apply_gbs_n2 NumR (A o) (A f) chi (A prev) =
  (A (concat (@gbs_orient NumR chi 2 (@chunks9 NumR o 2) (@chunks9 NumR prev 2) f)), A (@gbs_fracs NumR chi 2 f)).
Proof. intros Ho Hf Hp. explode o Ho. explode f Hf. explode prev Hp. unfold k_apply_gbs_n2. gbs_tac. Qed.
Lemma apply_gbs_inst_3 (o f prev : RL) (chi : R) :
  length o = 27%nat -> length f = 3%nat -> length prev = 27%nat ->
  @k_apply_gbs_n3 NumR (A o) (A f) chi (A prev) =
  (A (concat (@gbs_orient NumR chi 3 (@chunks9 NumR o 3) (@chunks9 NumR prev 3) f)), A (@gbs_fracs NumR chi 3 f)).
Proof. intros Ho Hf Hp. explode o Ho. explode f Hf. explode prev Hp. unfold k_apply_gbs_n3. gbs_tac. Qed.

(* ================= post-processing of the integrator's last vector ================= *)
Ltac nmasks :=
  repeat match goal with |- context [@nltb NumR ?a ?b] => destruct (@nltb NumR a b) eqn:? end.

Ltac upd_norm :=
  cbv [update ev_F ev_o ev_f gbs_orient gbs_fracs gbs_floor gbs_mask gbs_thr chunks9 firstn skipn map
       concat app mk_arr nth sn_o sn_f Z.of_nat Pos.of_succ_nat Pos.succ Nat.mul Nat.add].

(* the three components of the generated k_update are the returned F, and the snapshot that was
   appended, exactly as Model_minerals.update computes them from (chi, previous snapshot, y);
   the previous volume fractions `pf` do not enter *)
Ltac upd_tac ev_lemma gbs_lemma Hp Hy prev y :=
  rewrite (ev_lemma y Hy); cbv beta iota;
  explode y Hy; explode prev Hp;
  rewrite gbs_lemma by reflexivity; cbv beta iota;
  rewrite ev_lemma by reflexivity;
  unfold update at 1; cbv beta iota zeta;
  repeat apply pair_eq; apply arr_eq;
  upd_norm; nmasks; upd_norm; reflexivity.

Lemma update_inst_1 (chi : R) (pars prev pf y : RL) : length prev = 9%nat -> length y = 19%nat ->
  @k_update_n1 NumR chi (A pars) (A prev) (A y) =
    let '(Fb, s) := @update NumR 1 chi {| sn_o := @chunks9 NumR prev 1; sn_f := pf |} y in
    (A Fb, A (concat (sn_o s)), A (sn_f s)).
Proof. intros Hp Hy. unfold k_update_n1. upd_tac extract_vars_inst_1 apply_gbs_inst_1 Hp Hy prev y. Qed.
Lemma update_inst_2 (chi : R) (pars prev pf y : RL) : length prev = 18%nat -> length y = 29%nat ->
  @k_update_n2 NumR chi (A pars) (A prev) (A y) =
    let '(Fb, s) := @update NumR 2 chi {| sn_o := @chunks9 NumR prev 2; sn_f := pf |} y in
    (A Fb, A (concat (sn_o s)), A (sn_f s)).
Proof. intros Hp Hy. unfold k_update_n2. upd_tac extract_vars_inst_2 apply_gbs_inst_2 Hp Hy prev y. Qed.
Lemma update_inst_3 (chi : R) (pars prev pf y : RL) : length prev = 27%nat -> length y = 39%nat ->
  @k_update_n3 NumR chi (A pars) (A prev) (A y) =
    let '(Fb, s) := @update NumR 3 chi {| sn_o := @chunks9 NumR prev 3; sn_f := pf |} y in
    (A Fb, A (concat (sn_o s)), A (sn_f s)).
Proof. intros Hp Hy. unfold k_update_n3. upd_tac extract_vars_inst_3 apply_gbs_inst_3 Hp Hy prev y. Qed.

(* ================= eval_rhs ================= *)
Definition rhs_match (m : nat) (r1 : res (arr R)) (r2 : res RL) : Prop :=
  match r1, r2 with
  | Ok a, Ok l => length l = m /\ forall k, (k < m)%nat -> a k = nth k l 0
  | Err e1, Err e2 => e1 = e2
  | _, _ => False
  end.

Lemma derivs_congr r p f os os' fs fs' (D D' L L' S S' : arr NumR) (a b c d e e' : R) :
  os = os' -> fs = fs' -> D = D' -> L = L' -> S = S' -> e = e' ->
  @derivs NumR r p f os fs D L S a b c d e = @derivs NumR r p f os' fs' D' L' S' a b c d e'.
Proof. intros -> -> -> -> -> ->; reflexivity. Qed.

(* instantiate the pointwise facts of Inst_core.res_match at every index *)
Ltac spec_k H g k :=
  lazymatch k with
  | O => idtac
  | S ?k' => let E := fresh "E" in
             pose proof (H g k' ltac:(lia) ltac:(lia)) as E; cbv [Nat.mul Nat.add nth] in E; spec_k H g k'
  end.
Ltac spec_gk H g :=
  lazymatch g with O => idtac | S ?g' => spec_k H g' 9%nat; spec_gk H g' end.
Ltac spec_g H g :=
  lazymatch g with
  | O => idtac
  | S ?g' => let E := fresh "E" in pose proof (H g' ltac:(lia)) as E; cbv [nth] in E; spec_g H g'
  end.

Ltac use_E := repeat match goal with E : ?a ?j = _ |- context [?a ?j] => rewrite E end.

Ltac rhs_norm :=
  cbv [rhs_match mat_mul9 sym9 aol' ev_F ev_o ev_f chunks9 firstn skipn map flat_map arr_to_list seq repeat
       app mk_arr nth length Nat.mul Nat.add].

Ltac rhs_fin :=
  rhs_norm; split; [ reflexivity | ];
  let k := fresh "k" in let Hk := fresh "Hk" in
  intros k Hk; small_nat k; use_E; numR; first [ reflexivity | ring ].

Ltac arg_elem := cbv [mk_arr nth]; numR; first [ reflexivity | ring | (f_equal; ring) ].
Ltac arg_arr := apply arr_eq; list_eq arg_elem.
Ltac args_eq :=
  apply derivs_congr;
  cbv [aol' sym9 map chunks9 ev_o ev_f firstn skipn slice9 seq Nat.mul Nat.add]; cbv zeta beta;
  [ list_eq arg_arr | list_eq arg_elem | arg_arr | arg_arr | arg_arr | arg_elem ].

(* one live branch (phase found in the assemblage, fraction looked up):
   kd: the generated derivatives that is called; dinst: Inst_core's lemma about kd; n: number of grains *)
Ltac rhs_live kd dinst n :=
  match goal with
  | |- context [kd ?r ?pp ?f ?O ?fr ?D ?Lm ?S ?a ?b ?c ?d ?e] =>
      let H := fresh "H" in
      pose proof (dinst r pp f O fr D Lm S a b c d e) as H;
      match type of H with res_match _ ?g ?m =>
        match goal with
        | |- context [@derivs NumR ?a1 ?a2 ?a3 ?a4 ?a5 ?a6 ?a7 ?a8 ?a9 ?a10 ?a11 ?a12 ?a13] =>
            replace (@derivs NumR a1 a2 a3 a4 a5 a6 a7 a8 a9 a10 a11 a12 a13) with m by (symmetry; args_eq)
        end;
        let gg := fresh "gg" in let mm := fresh "mm" in
        set (gg := g) in *; set (mm := m) in *;
        destruct gg as [[ga gf]|ge]; destruct mm as [[ma mf]|me]; cbn [res_match] in H;
        [ | contradiction | contradiction | exact H ];
        let Hla := fresh in let Hlf := fresh in let H3 := fresh in let H4 := fresh in
        destruct H as (Hla & Hlf & H3 & H4);
        explode ma Hla; explode mf Hlf;
        spec_gk H3 n; spec_g H4 n;
        rhs_fin
      end
  end.

Ltac rhs_branch kd dinst n :=
  destruct (@neqb NumR _ (@nzero NumR)) eqn:Hs0; [ rhs_fin | rhs_live kd dinst n ].

Ltac rhs_tac ev_lemma kd dinst n Hphi HL HS Hy phis L Sd y :=
  unfold rhs, lookup_fraction; cbv [index_of option_map];
  rewrite ?(Z.eqb_sym 0%Z), ?(Z.eqb_sym 1%Z);
  rewrite ?(ev_lemma y Hy); cbv beta iota zeta;
  explode phis Hphi; explode L HL; explode Sd HS; explode y Hy;
  repeat match goal with |- context [Z.eqb ?ph ?k] => destruct (Z.eqb ph k) eqn:?; cbv iota end;
  cbv [nth_error]; cbv beta iota;
  first [ reflexivity | rhs_branch kd dinst n ].

(* the statement proved for every generated k_eval_rhs_n{n}_a{assemblage}: for all ordinals, all
   parameter values, all oracle values (s, Sd) and all vectors of the right length *)
Definition rhs_stmt
    (k : Z -> Z -> Z -> arr NumR -> arr NumR -> R -> arr NumR -> R -> R -> R -> R -> arr NumR -> res (arr NumR))
    (n : nat) (assemblage : list Z) (nphi : nat) : Prop :=
  forall (regime ph fb : Z) (s p nn lam M : R) (phis L Sd y : RL),
    length phis = nphi -> length L = 9%nat -> length Sd = 9%nat -> length y = (9 + 10 * n)%nat ->
    rhs_match (9 + 10 * n)
      (k regime ph fb (A phis) (A L) s (A Sd) p nn lam M (A y))
      (@rhs NumR regime ph fb n assemblage phis L s Sd p nn lam M y).

Ltac rhs_n ev_lemma kd dinst n :=
  let phis := fresh "phis" in let L := fresh "L" in let Sd := fresh "Sd" in let y := fresh "y" in
  let Hphi := fresh in let HL := fresh in let HS := fresh in let Hy := fresh in
  intros ? ? ? ? ? ? ? ? phis L Sd y Hphi HL HS Hy;
  rhs_tac ev_lemma kd dinst n Hphi HL HS Hy phis L Sd y.
Ltac rhs_1 := rhs_n extract_vars_inst_1 (@k_derivatives_n1 NumR) derivs_inst_1 1%nat.
Ltac rhs_2 := rhs_n extract_vars_inst_2 (@k_derivatives_n2 NumR) derivs_inst_2 2%nat.
Ltac rhs_3 := rhs_n extract_vars_inst_3 (@k_derivatives_n3 NumR) derivs_inst_3 3%nat.
