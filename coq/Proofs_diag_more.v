(* Proofs_diag_more.v -- further consequences for the diagnostics of Model_diag.v:
   when each of P, G, R equals 1 (characterisations by the eigenvalues and by the grains),
   the coaxial index under exchange of its two axes, finite strain of rotations / stretches /
   any F given by a singular value decomposition. *)
From Coq Require Import Reals ZArith List Bool Lra Lia Permutation Psatz.
Require Import Coq.nsatz.Nsatz.
From PV Require Import Num NumR Model_diag Proofs_diag.
Import ListNotations.
Open Scope R_scope.

(* ------------------------------------------------------------------------- *)
(* second invariant of a scatter matrix = sum over grain pairs of |a_g x a_h|^2 *)
(* ------------------------------------------------------------------------- *)
Definition cross3 (u v : V3) : V3 :=
  let '(a, b, c) := u in let '(x, y, z) := v in (b * z - c * y, c * x - a * z, a * y - b * x).
Definition parallel (u v : V3) : Prop := cross3 u v = (0, 0, 0).

Definition S_of (l : list V3) : S3 := fold_right (fun a acc => add6 (outer6 a) acc) zero6 l.

Lemma scatterR_S_of os r : scatterR os r = S_of (map (rowv r) os).
Proof. induction os as [|o os IH]; cbn [scatterR S_of map fold_right]; [reflexivity|]. f_equal. exact IH. Qed.

Fixpoint crossq_with (a : V3) (l : list V3) : R :=
  match l with [] => 0 | b :: t => dot3 (cross3 a b) (cross3 a b) + crossq_with a t end.
Fixpoint pair_crossq (l : list V3) : R :=
  match l with [] => 0 | a :: t => crossq_with a t + pair_crossq t end.

Lemma e2_add_outer (a : V3) (S : S3) :
  e2_6 (add6 (outer6 a) S) = e2_6 S + (tr6 S * dot3 a a - qf S a).
Proof. d3 a. d6 S. cbv [e2_6 add6 outer6 tr6 qf symv]. dunf. ring. Qed.

Lemma tr_qf_crossq (a : V3) (l : list V3) :
  tr6 (S_of l) * dot3 a a - qf (S_of l) a = crossq_with a l.
Proof.
  induction l as [|b t IH]; cbn [S_of fold_right crossq_with].
  - d3 a. cbv [tr6 zero6 qf symv]. dunf. ring.
  - fold (S_of t). rewrite tr6_add6, qf_add6, tr6_outer6, qf_outer6, <- IH.
    d3 a. d3 b. cbv [cross3]. dunf. ring.
Qed.

Lemma e2_S_of (l : list V3) : e2_6 (S_of l) = pair_crossq l.
Proof.
  induction l as [|a t IH]; cbn [S_of fold_right pair_crossq].
  - cbv [e2_6 zero6]. ring.
  - fold (S_of t). rewrite e2_add_outer, tr_qf_crossq, IH. ring.
Qed.

Lemma dot3_self_nonneg (v : V3) : 0 <= dot3 v v.
Proof. d3 v. dunf. nra. Qed.
Lemma dot3_self_zero (v : V3) : dot3 v v = 0 -> v = (0, 0, 0).
Proof. d3 v. dunf. intros H. assert (x = 0) by nra. assert (y = 0) by nra. assert (z = 0) by nra. subst. reflexivity. Qed.

Lemma crossq_with_nonneg a l : 0 <= crossq_with a l.
Proof. induction l as [|b t IH]; cbn [crossq_with]; [lra|]. pose proof (dot3_self_nonneg (cross3 a b)). lra. Qed.
Lemma pair_crossq_nonneg l : 0 <= pair_crossq l.
Proof. induction l as [|a t IH]; cbn [pair_crossq]; [lra|]. pose proof (crossq_with_nonneg a t). lra. Qed.

Lemma crossq_with_zero a l : crossq_with a l = 0 <-> Forall (parallel a) l.
Proof.
  induction l as [|b t IH]; cbn [crossq_with].
  - split; [constructor|reflexivity].
  - pose proof (dot3_self_nonneg (cross3 a b)) as H1. pose proof (crossq_with_nonneg a t) as H2. split.
    + intros H. constructor; [unfold parallel; apply dot3_self_zero; lra|apply IH; lra].
    + intros H. inversion H as [|? ? Hb Ht]; subst. apply IH in Ht. unfold parallel in Hb. rewrite Hb, Ht.
      dunf. ring.
Qed.

Lemma pair_crossq_zero l : pair_crossq l = 0 <-> ForallOrdPairs parallel l.
Proof.
  induction l as [|a t IH]; cbn [pair_crossq].
  - split; [constructor|reflexivity].
  - pose proof (crossq_with_nonneg a t) as H1. pose proof (pair_crossq_nonneg t) as H2. split.
    + intros H. constructor; [apply crossq_with_zero; lra|apply IH; lra].
    + intros H. inversion H as [|? ? Ha Ht]; subst.
      apply crossq_with_zero in Ha. apply IH in Ht. lra.
Qed.

Lemma sumsq3_zero (a b c : R) : a * a + b * b + c * c = 0 -> a = 0 /\ b = 0 /\ c = 0.
Proof. intros H. repeat split; nra. Qed.

(* unit vectors with zero cross product are equal up to sign *)
Lemma parallel_unit (u v : V3) : dot3 u u = 1 -> dot3 v v = 1 -> parallel u v -> u = v \/ u = neg3 v.
Proof.
  d3 u. d3 v. cbv [parallel cross3 neg3 scale3]. dunf. intros Hu Hv H.
  injection H as H1 H2 H3.
  assert (Hd : (x * x0 + y * y0 + z * z0) * (x * x0 + y * y0 + z * z0) = 1) by nra.
  assert (Hc : x * x0 + y * y0 + z * z0 = 1 \/ x * x0 + y * y0 + z * z0 = -1) by nra.
  destruct Hc as [Hc|Hc]; [left|right].
  - assert (Hq : (x - x0) * (x - x0) + (y - y0) * (y - y0) + (z - z0) * (z - z0) = 0) by nra.
    apply sumsq3_zero in Hq as (? & ? & ?).
    assert (x = x0) by lra. assert (y = y0) by lra. assert (z = z0) by lra. subst. reflexivity.
  - assert (Hq : (x + x0) * (x + x0) + (y + y0) * (y + y0) + (z + z0) * (z + z0) = 0) by nra.
    apply sumsq3_zero in Hq as (? & ? & ?).
    assert (x = - x0) by lra. assert (y = - y0) by lra. assert (z = - z0) by lra. subst.
    split_tuple; ring.
Qed.

(* ------------------------------------------------------------------------- *)
(* P = 1, G = 1, R = 1                                                        *)
(* ------------------------------------------------------------------------- *)
Definition iso6 (c : R) : S3 := (c, 0, c, 0, 0, c).

Lemma sumsq6_zero (a b c d e f : R) : a * a + b * b + c * c + 2 * (d * d + e * e + f * f) = 0 ->
  a = 0 /\ b = 0 /\ c = 0 /\ d = 0 /\ e = 0 /\ f = 0.
Proof. intros H. repeat split; nra. Qed.

(* a symmetric matrix whose three eigenvalues coincide is that multiple of the identity *)
Lemma triple_root_iso S l : vals_spec S (l, l, l) -> S = iso6 l.
Proof.
  intros H. destruct (vals_coeffs _ _ _ _ H) as (Ht & He & _). d6 S.
  cbv [tr6 e2_6] in Ht, He. cbv [iso6].
  assert (Hs : (s00 - l) * (s00 - l) + (s11 - l) * (s11 - l) + (s22 - l) * (s22 - l)
               + 2 * (s10 * s10 + s20 * s20 + s21 * s21) = 0) by nra.
  apply sumsq6_zero in Hs as (? & ? & ? & ? & ? & ?).
  assert (s00 = l) by lra. assert (s11 = l) by lra. assert (s22 = l) by lra. subst. reflexivity.
Qed.

Lemma iso6_vals c : vals_spec (iso6 c) (c, c, c).
Proof. split; [cbv [ascending]; lra|]. intros x. cbv [charpoly det6 shift6 iso6]. ring. Qed.

Section PGR.
  Variable eigvalsh : S3 -> V3.
  Variable os : list M3.
  Variable r : nat.
  Hypothesis Hne : os <> [].
  Hypothesis Hu : Forall unit_rows os.
  Hypothesis Hs : vals_spec (scatter os r) (eigvalsh (scatter os r)).

  Let n := INR (length os).

  (* P = 1: eigenvalues (0, 0, n); equivalently all axes of the chosen kind are pairwise parallel,
     i.e. equal up to sign *)
  Theorem pgr_point_iff :
    let '(P, G, Rn) := symmetry_pgr eigvalsh os r in
    (P = 1 <-> eigvalsh (scatter os r) = (0, 0, n)) /\
    (P = 1 <-> ForallOrdPairs parallel (map (rowv r) os)) /\
    (P = 1 -> G = 0 /\ Rn = 0 /\
              forall o o', In o os -> In o' os -> rowv r o = rowv r o' \/ rowv r o = neg3 (rowv r o')).
  Proof.
    unfold symmetry_pgr. destruct (eigvalsh (scatter os r)) as [[l1 l2] l3] eqn:E.
    destruct (scatter_vals_props os r l1 l2 l3 Hne Hu Hs) as (A & B & C & D & Hn). fold n in D, Hn.
    pose proof Hs as Hs'. rewrite scatter_R, scatterR_S_of in Hs'.
    destruct (vals_coeffs _ _ _ _ Hs') as (_ & He2 & _). rewrite e2_S_of in He2.
    cbv [pgr_of]; numR.
    assert (P1 : (l3 - l2) / (l3 + l2 + l1) = 1 <-> (l1 = 0 /\ l2 = 0)).
    { split.
      - intros H. apply (f_equal (fun x => x * (l3 + l2 + l1))) in H.
        unfold Rdiv in H. rewrite Rmult_assoc, Rinv_l in H by lra. lra.
      - intros [-> ->]. field. lra. }
    assert (P2 : (l1 = 0 /\ l2 = 0) <-> pair_crossq (map (rowv r) os) = 0).
    { rewrite He2. split; [intros [-> ->]; ring|]. intros H.
      assert (l2 * l3 = 0) by nra. assert (l2 = 0) by nra. split; nra. }
    split; [ | split ].
    - rewrite P1. split; [intros [-> ->]; f_equal; lra|]. intros H. injection H; auto.
    - rewrite P1, P2. apply pair_crossq_zero.
    - intros H. apply P1 in H as H12. destruct H12 as [-> ->].
      split; [unfold Rdiv; ring|]. split; [unfold Rdiv; ring|].
      assert (Hp : ForallOrdPairs parallel (map (rowv r) os)).
      { apply pair_crossq_zero. apply P2. split; reflexivity. }
      intros o o' Ho Ho'.
      assert (U : forall q, In q os -> dot3 (rowv r q) (rowv r q) = 1).
      { intros q Hq. apply unit_rowv. rewrite Forall_forall in Hu. now apply Hu. }
      destruct (ForallOrdPairs_In Hp (rowv r o) (rowv r o') (in_map _ _ _ Ho) (in_map _ _ _ Ho'))
        as [Heq|[Hp1|Hp1]].
      + left; exact Heq.
      + apply parallel_unit; auto.
      + destruct (parallel_unit _ _ (U _ Ho') (U _ Ho) Hp1) as [->| ->]; [left; reflexivity|right].
        now rewrite neg3_invol.
  Qed.

  (* G = 1: eigenvalues (0, n/2, n/2) -- the axes lie in a plane (zero smallest eigenvalue) and
     scatter isotropically within it *)
  Theorem pgr_girdle_iff :
    let '(P, G, Rn) := symmetry_pgr eigvalsh os r in
    (G = 1 <-> eigvalsh (scatter os r) = (0, n / 2, n / 2)) /\
    (G = 1 -> P = 0 /\ Rn = 0 /\ det6 (scatter os r) = 0).
  Proof.
    unfold symmetry_pgr. destruct (eigvalsh (scatter os r)) as [[l1 l2] l3] eqn:E.
    destruct (scatter_vals_props os r l1 l2 l3 Hne Hu Hs) as (A & B & C & D & Hn). fold n in D, Hn.
    destruct (vals_coeffs _ _ _ _ Hs) as (_ & _ & Hdet).
    cbv [pgr_of]; numR.
    assert (G1 : 2 * (l2 - l1) / (l3 + l2 + l1) = 1 <-> (l1 = 0 /\ l2 = l3)).
    { split.
      - intros H. apply (f_equal (fun x => x * (l3 + l2 + l1))) in H.
        unfold Rdiv in H. rewrite Rmult_assoc, Rinv_l in H by lra. lra.
      - intros [-> ->]. field. lra. }
    split.
    - rewrite G1. split; [intros [-> ->]; f_equal; [f_equal|]; lra|]. intros H. injection H; intros; lra.
    - intros H. apply G1 in H as [-> ->]. split; [unfold Rdiv; ring|]. split; [unfold Rdiv; ring|].
      rewrite Hdet. ring.
  Qed.

  (* R = 1: the three eigenvalues coincide; equivalently the scatter matrix is (n/3) I *)
  Theorem pgr_random_iff :
    let '(P, G, Rn) := symmetry_pgr eigvalsh os r in
    (Rn = 1 <-> eigvalsh (scatter os r) = (n / 3, n / 3, n / 3)) /\
    (Rn = 1 <-> scatter os r = iso6 (n / 3)) /\
    (Rn = 1 -> P = 0 /\ G = 0).
  Proof.
    unfold symmetry_pgr. destruct (eigvalsh (scatter os r)) as [[l1 l2] l3] eqn:E.
    destruct (scatter_vals_props os r l1 l2 l3 Hne Hu Hs) as (A & B & C & D & Hn). fold n in D, Hn.
    cbv [pgr_of]; numR.
    assert (R1 : 3 * l1 / (l3 + l2 + l1) = 1 <-> (l1 = l2 /\ l2 = l3)).
    { split.
      - intros H. apply (f_equal (fun x => x * (l3 + l2 + l1))) in H.
        unfold Rdiv in H. rewrite Rmult_assoc, Rinv_l in H by lra. lra.
      - intros [-> ->]. field. lra. }
    split; [ | split ].
    - rewrite R1. split; [intros [-> ->]; f_equal; [f_equal|]; lra|]. intros H. injection H; intros; lra.
    - rewrite R1. split.
      + intros [-> ->]. assert (l3 = n / 3) by lra. subst l3. now apply triple_root_iso.
      + intros H. rewrite H in Hs. pose proof (vals_unique _ _ _ Hs (iso6_vals (n / 3))) as Hq.
        injection Hq; intros; lra.
    - intros H. apply R1 in H as [-> ->]. split; unfold Rdiv; ring.
  Qed.
End PGR.

(* R = 0 (zero smallest eigenvalue) iff all axes of the chosen kind lie in one plane; the unit normal is
   the first eigenvector of ANY orthonormal eigen-decomposition `e` of the scatter matrix (e.g. LAPACK's) *)
Fixpoint dotsq (l : list V3) (u : V3) : R :=
  match l with [] => 0 | a :: t => dot3 a u * dot3 a u + dotsq t u end.

Lemma qf_S_of (l : list V3) (u : V3) : qf (S_of l) u = dotsq l u.
Proof.
  induction l as [|a t IH]; cbn [S_of fold_right dotsq].
  - d3 u. cbv [qf symv zero6]. dunf. ring.
  - fold (S_of t). rewrite qf_add6, qf_outer6, IH. reflexivity.
Qed.

Lemma dotsq_nonneg (l : list V3) (u : V3) : 0 <= dotsq l u.
Proof. induction l as [|a t IH]; cbn [dotsq]; [lra|]. nra. Qed.

Lemma dotsq_zero (l : list V3) (u : V3) : dotsq l u = 0 <-> Forall (fun a : V3 => dot3 a u = 0) l.
Proof.
  induction l as [|a t IH]; cbn [dotsq].
  - split; [constructor|reflexivity].
  - pose proof (dotsq_nonneg t u). split.
    + intros H0. set (x := dot3 a u) in *. change (T NumR) with R in *.
      assert (Hx : 0 <= x * x) by nra. assert (Hz : x * x = 0) by lra.
      constructor; [apply Rmult_integral in Hz; tauto|apply IH; lra].
    + intros H0. inversion H0 as [|? ? Ha Ht]; subst. apply IH in Ht. rewrite Ha, Ht. ring.
Qed.

Lemma symv_S_of_null (l : list V3) (u : V3) : Forall (fun a : V3 => dot3 a u = 0) l -> symv (S_of l) u = (0, 0, 0).
Proof.
  induction l as [|a t IH]; intros H; cbn [S_of fold_right].
  - d3 u. cbv [symv zero6]. split_tuple; ring.
  - inversion H as [|? ? Ha Ht]; subst. fold (S_of t). specialize (IH Ht).
    destruct (S_of t) as [[[[[s00 s10] s11] s20] s21] s22]. d3 a. d3 u.
    cbv [symv add6 outer6] in *. dunf. injection IH as I1 I2 I3. clear H Ht.
    set (d := x * x0 + y * y0 + z * z0) in *.
    split_tuple.
    + transitivity (x * d + (s00 * x0 + s10 * y0 + s20 * z0)); [subst d; ring|rewrite Ha, I1; ring].
    + transitivity (y * d + (s10 * x0 + s11 * y0 + s21 * z0)); [subst d; ring|rewrite Ha, I2; ring].
    + transitivity (z * d + (s20 * x0 + s21 * y0 + s22 * z0)); [subst d; ring|rewrite Ha, I3; ring].
Qed.

Lemma null_vector_det S (u : V3) : symv S u = (0, 0, 0) -> dot3 u u = 1 -> det6 S = 0.
Proof.
  d6 S. d3 u. cbv [symv det6]. dunf. intros H N. injection H as H1 H2 H3. nsatz.
Qed.

Theorem pgr_coplanar_iff (eigvalsh : S3 -> V3) os r (e : EV) :
  os <> [] -> Forall unit_rows os ->
  vals_spec (scatter os r) (eigvalsh (scatter os r)) -> eig_spec (scatter os r) e ->
  let '(P, G, Rn) := symmetry_pgr eigvalsh os r in
  (Rn = 0 <-> exists u : V3, dot3 u u = 1 /\ Forall (fun o => dot3 (rowv r o) u = 0) os) /\
  (Rn = 0 -> Forall (fun o => dot3 (rowv r o) (fst (fst (snd e))) = 0) os).
Proof.
  intros Hne Hu Hs He. unfold symmetry_pgr.
  destruct (eigvalsh (scatter os r)) as [[l1 l2] l3] eqn:E.
  destruct (scatter_vals_props os r l1 l2 l3 Hne Hu Hs) as (A & B & C & D & Hn).
  destruct (vals_coeffs _ _ _ _ Hs) as (_ & _ & Hdet).
  cbv [pgr_of]; numR.
  assert (R0 : 3 * l1 / (l3 + l2 + l1) = 0 <-> l1 = 0).
  { split.
    - intros H. apply (f_equal (fun x => x * (l3 + l2 + l1))) in H.
      unfold Rdiv in H. rewrite Rmult_assoc, Rinv_l in H by lra. lra.
    - intros ->. unfold Rdiv. ring. }
  destruct e as [[[m1 m2] m3] [[v1 v2] v3]].
  pose proof He as (Hv & [B1 N1] & _).
  pose proof (vals_unique _ _ _ Hs Hv) as Em. injection Em as E1 E2 E3. subst m1 m2 m3.
  assert (Hfwd : l1 = 0 -> Forall (fun o => dot3 (rowv r o) v1 = 0) os).
  { intros Z.
    assert (Q : qf (scatter os r) v1 = 0).
    { unfold qf. rewrite B1, dot3_scale3_r, Z. ring. }
    rewrite scatter_R, scatterR_S_of, qf_S_of in Q. apply dotsq_zero in Q. rewrite Forall_map in Q. exact Q. }
  split; [split|].
  - intros H. apply R0 in H. exists v1. split; [exact N1|]. now apply Hfwd.
  - intros (u & Nu & Hp). apply R0.
    assert (Hnull : symv (scatter os r) u = (0, 0, 0)).
    { rewrite scatter_R, scatterR_S_of. apply symv_S_of_null. rewrite Forall_map. exact Hp. }
    pose proof (null_vector_det _ u Hnull Nu) as Dz. rewrite Hdet in Dz.
    destruct (Req_dec l1 0) as [|Hnz]; [assumption|].
    assert (0 < l1) by lra. assert (0 < l1 * l2 * l3) by (apply Rmult_lt_0_compat; [apply Rmult_lt_0_compat|]; lra). lra.
  - intros H. apply R0 in H. cbn [snd fst]. now apply Hfwd.
Qed.

(* ------------------------------------------------------------------------- *)
(* coaxial index: exchanging the two axes; the same axis twice                *)
(* ------------------------------------------------------------------------- *)
Lemma ba_swap P1 G1 R1 P2 G2 R2 : G1 + P1 <> 0 -> G2 + P2 <> 0 ->
  @ba_of NumR (P2, G2, R2) (P1, G1, R1) = 1 - @ba_of NumR (P1, G1, R1) (P2, G2, R2).
Proof. intros. cbv [ba_of half]; numR. field. split; assumption. Qed.

(* BA(axis2, axis1) = 1 - BA(axis1, axis2): the index is NOT symmetric in its axes; BA(axis, axis) = 1/2 *)
Theorem coaxial_swap (eigvalsh : S3 -> V3) os r1 r2 :
  os <> [] -> Forall unit_rows os ->
  vals_spec (scatter os r1) (eigvalsh (scatter os r1)) ->
  vals_spec (scatter os r2) (eigvalsh (scatter os r2)) ->
  anisotropic (eigvalsh (scatter os r1)) -> anisotropic (eigvalsh (scatter os r2)) ->
  coaxial_index eigvalsh os r2 r1 = 1 - coaxial_index eigvalsh os r1 r2 /\
  coaxial_index eigvalsh os r1 r1 = 1 / 2.
Proof.
  intros Hne Hu H1 H2 N1 N2. unfold coaxial_index, symmetry_pgr.
  destruct (eigvalsh (scatter os r1)) as [[a1 a2] a3].
  destruct (eigvalsh (scatter os r2)) as [[b1 b2] b3]. cbn [anisotropic] in *.
  destruct (scatter_vals_props os r1 _ _ _ Hne Hu H1) as (A & B & C & D & E).
  destruct (scatter_vals_props os r2 _ _ _ Hne Hu H2) as (A' & B' & C' & D' & E').
  pose proof (pgr_PG_pos a1 a2 a3 A B ltac:(lra) N1) as X'.
  pose proof (pgr_PG_pos b1 b2 b3 A' B' ltac:(lra) N2) as Y'.
  change (T NumR) with R in *.
  destruct (@pgr_of NumR (a1, a2, a3)) as [[P1 G1] R1].
  destruct (@pgr_of NumR (b1, b2, b3)) as [[P2 G2] R2].
  cbv beta iota in X', Y'. split.
  - apply ba_swap; lra.
  - cbv [ba_of half]; numR. field. lra.
Qed.

(* ------------------------------------------------------------------------- *)
(* finite strain: rotations, stretches, singular value decompositions         *)
(* ------------------------------------------------------------------------- *)
Definition diag3 (a b c : R) : M3 := ((a, 0, 0), (0, b, 0), (0, 0, c)).

Lemma lcg_orthogonal (Q : M3) : orthogonal Q -> left_cauchy_green Q = id6.
Proof. intros H. dm Q. exact H. Qed.

(* a rigid rotation (any orthogonal F) has zero finite strain *)
Theorem fse_rotation_zero (eigh : S3 -> EV) (Q : M3) : orthogonal Q ->
  vals_spec (left_cauchy_green Q) (fst (eigh (left_cauchy_green Q))) ->
  fst (finite_strain eigh Q) = 0.
Proof.
  intros HQ Hs. unfold finite_strain. cbn [fst]. rewrite (lcg_orthogonal Q HQ) in *.
  pose proof (vals_unique _ _ _ Hs (iso6_vals 1)) as E. change (iso6 1) with id6 in *.
  unfold last_val. rewrite E. cbn [vz snd]. numR. rewrite sqrt_1. ring.
Qed.

Definition sorted3 (a b c : R) : Prop := a <= b /\ b <= c.

Lemma lcg_diag a b c : left_cauchy_green (diag3 a b c) = (a * a, 0, b * b, 0, 0, c * c).
Proof. cbv [left_cauchy_green diag3]. dunf. split_tuple; ring. Qed.

Lemma diag_sq_vals a b c : 0 <= a -> a <= b -> b <= c ->
  vals_spec (a * a, 0, b * b, 0, 0, c * c) (a * a, b * b, c * c).
Proof.
  intros. split; [cbv [ascending]; split; nra|]. intros x. cbv [charpoly det6 shift6]. ring.
Qed.

(* F = Q1 . diag(s1, s2, s3) . Q2 with 0 <= s1 <= s2 <= s3 and Q1, Q2 orthogonal (every F has such a
   decomposition): the value is s3 - 1, the largest singular value (principal stretch) minus one *)
Theorem fse_svd_value (eigh : S3 -> EV) (Q1 Q2 : M3) s1 s2 s3 :
  orthogonal Q1 -> orthogonal Q2 -> 0 <= s1 -> s1 <= s2 -> s2 <= s3 ->
  let Fm := mmul (mmul Q1 (diag3 s1 s2 s3)) Q2 in
  vals_spec (left_cauchy_green Fm) (fst (eigh (left_cauchy_green Fm))) ->
  fst (eigh (left_cauchy_green Fm)) = (s1 * s1, s2 * s2, s3 * s3) /\
  fst (finite_strain eigh Fm) = s3 - 1.
Proof.
  intros H1 H2 A B C Fm Hs. subst Fm.
  rewrite lcg_right_rotation in * by assumption. rewrite lcg_left_rotation in *.
  assert (Hv : vals_spec (congr Q1 (left_cauchy_green (diag3 s1 s2 s3))) (s1 * s1, s2 * s2, s3 * s3)).
  { apply vals_spec_congr; [assumption|]. rewrite lcg_diag. now apply diag_sq_vals. }
  pose proof (vals_unique _ _ _ Hs Hv) as E. split; [exact E|].
  unfold finite_strain. cbn [fst]. unfold last_val.
  rewrite lcg_right_rotation by assumption. rewrite lcg_left_rotation. rewrite E. cbn [vz snd]. numR.
  rewrite sqrt_square by lra. ring.
Qed.

(* a pure stretch along the coordinate axes *)
Corollary fse_diag_value (eigh : S3 -> EV) a b c : 0 <= a -> a <= b -> b <= c ->
  vals_spec (left_cauchy_green (diag3 a b c)) (fst (eigh (left_cauchy_green (diag3 a b c)))) ->
  fst (finite_strain eigh (diag3 a b c)) = c - 1.
Proof.
  intros A B C Hs. unfold finite_strain. cbn [fst]. unfold last_val.
  rewrite lcg_diag in *. pose proof (vals_unique _ _ _ Hs (diag_sq_vals a b c A B C)) as E.
  rewrite E. cbn [vz snd]. numR. rewrite sqrt_square by lra. ring.
Qed.

Lemma nonvacuous_more :
  orthogonal I3 /\ (0 <= 1 /\ 1 <= 2 /\ 2 <= 3) /\
  vals_spec (left_cauchy_green (diag3 1 2 3)) (1 * 1, 2 * 2, 3 * 3) /\
  vals_spec (left_cauchy_green I3) (1, 1, 1) /\
  parallel (1, 0, 0) (-1, 0, 0) /\ ForallOrdPairs parallel (map (rowv 0) [I3; I3]).
Proof.
  split; [apply orthogonal_id|]. split; [lra|].
  split; [rewrite lcg_diag; apply diag_sq_vals; lra|].
  split; [rewrite (lcg_orthogonal I3 orthogonal_id); exact (iso6_vals 1)|].
  split; [cbv [parallel cross3]; split_tuple; ring|].
  repeat constructor. cbv [parallel cross3 rowv I3]. split_tuple; ring.
Qed.
