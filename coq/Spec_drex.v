(* Spec_drex.v -- the D-Rex model "as published", written in vector / tensor form
   (bilinear forms, outer products, Frobenius least squares, cross products), NOT as the
   loops of the implementation.  Sources: Kaminski & Ribe 2001 eqs 5-9; Kaminski, Ribe &
   Browaeys 2004 eq 11 (with the correction noted in the source: no division by the strain
   rate scale); Fraters & Billen 2021 eqs 3, 4, 14-16 and S1.

   slip systems s = 0..3 : (plane normal n_s)[direction l_s] = (010)[100], (001)[100],
   (010)[001], (100)[001];  crystal axes a, b, c are rows 0, 1, 2 of the orientation A.
   CRSS  tau : fabric -> s -> {1,2,3,oo}:
        A: 1 2 3 oo    B: 3 2 1 oo    C: 3 2 oo 1    D: 1 1 3 oo    E: 3 1 2 oo   enstatite: oo oo oo 1

   I_s   = l^_s . D n^_s                     (l^ = A^T l, n^ = A^T n: rows of A)
   q_s   = |I_s / tau_s|   (0 for tau = oo)      activity
   olivine: order the q_s; least active: beta = 0; most active: beta = 1; the two in
            between:  beta_s = r_s |r_s|^(n-1),  r_s = (I_s / tau_s) (tau_max / I_max)
   enstatite: beta_3 = 1 if |I_3| > 1e-15 else 0, the others 0
   G     = 2 sum_s beta_s  l^_s (x) n^_s
   g0    = argmin_g || D - g sym G ||_F  = (sym G : D)/(sym G : sym G)   (0 if |2 symG:symG| < 1e-15)
   w     = axial( skew L - g0 skew G )          rows of dA/dt:  w x a_i
   rho_s = (1/tau_s)^(n-p) |beta_s g0|^(p/n)   E = sum over the three systems other than the
                                                   least active one of rho_s exp(-lam rho_s^2)
   df_i/dt = phi M f_i (Ebar - E_i),  Ebar = sum_j f_j E_j ;  frictional yielding: both rates x 0.3 *)
From Coq Require Import ZArith List Bool.
From PV Require Import Num.
Import ListNotations.
Local Open Scope num_scope.

Section Spec.
  Context {F : Num}.

  (* CRSS table, None = infinite *)
  Definition tau_table (ph fb : Z) : option (list (option Z)) :=
    match ph, fb with
    | 0, 0 => Some [Some 1; Some 2; Some 3; None]
    | 0, 1 => Some [Some 3; Some 2; Some 1; None]
    | 0, 2 => Some [Some 3; Some 2; None; Some 1]
    | 0, 3 => Some [Some 1; Some 1; Some 3; None]
    | 0, 4 => Some [Some 3; Some 1; Some 2; None]
    | 1, 5 => Some [None; None; None; Some 1]
    | _, _ => None
    end%Z.

  Definition tau_at (tau : list (option Z)) (s : nat) : option Z := nth s tau None.
  Definition over_tau (x : F) (t : option Z) : F :=
    match t with Some 1%Z => x | Some z => x / ofZ z | None => zero end.
  (* activity |x / tau|, 0 for an infinite CRSS *)
  Definition act (x : F) (t : option Z) : F :=
    match t with None => zero | _ => nabs (over_tau x t) end.
  Definition tau_val (t : option Z) : F := match t with Some z => ofZ z | None => zero end.

  (* vectors as triples *)
  Definition vec := (F * F * F)%type.
  Definition row (A : arr F) (i : nat) : vec := (A (3 * i)%nat, A (3 * i + 1)%nat, A (3 * i + 2)%nat).
  Definition dot (u v : vec) : F :=
    let '(u0, u1, u2) := u in let '(v0, v1, v2) := v in u0 * v0 + u1 * v1 + u2 * v2.
  Definition mvec (M : arr F) (v : vec) : vec := (dot (row M 0) v, dot (row M 1) v, dot (row M 2) v).
  Definition cross (u v : vec) : vec :=
    let '(u0, u1, u2) := u in let '(v0, v1, v2) := v in
    (u1 * v2 - u2 * v1, u2 * v0 - u0 * v2, u0 * v1 - u1 * v0).
  Definition vnth (v : vec) (i : nat) : F :=
    let '(v0, v1, v2) := v in match i with 0%nat => v0 | 1%nat => v1 | _ => v2 end.

  (* slip system s: (direction row, plane-normal row) *)
  Definition sys_l (s : nat) : nat := match s with 0%nat | 1%nat => 0%nat | _ => 2%nat end.
  Definition sys_n (s : nat) : nat :=
    match s with 0%nat => 1%nat | 1%nat => 2%nat | 2%nat => 1%nat | _ => 0%nat end.

  Definition spec_invariant (D A : arr F) (s : nat) : F :=
    dot (row A (sys_l s)) (mvec D (row A (sys_n s))).
  Definition spec_invariants (D A : arr F) : arr F :=
    mk_arr zero [spec_invariant D A 0; spec_invariant D A 1; spec_invariant D A 2; spec_invariant D A 3].

  Definition spec_activities (tau : list (option Z)) (inv : arr F) : arr F :=
    mk_arr zero [act (inv 0%nat) (tau_at tau 0); act (inv 1%nat) (tau_at tau 1);
                 act (inv 2%nat) (tau_at tau 2); act (inv 3%nat) (tau_at tau 3)].

  (* relative slip rates for olivine, given the activity order P *)
  Definition spec_beta (tau : list (option Z)) (inv : arr F) (P : perm4) (n : F) (s : nat) : F :=
    let imax := pidx P 3 in
    if Nat.eqb s imax then one
    else if Nat.eqb s (pidx P 0) then zero
    else let r := over_tau (inv s) (tau_at tau s) * (tau_val (tau_at tau imax) / inv imax) in
         r * npow (nabs r) (n - one).

  Definition spec_beta_arr tau inv P n : arr F :=
    mk_arr zero [spec_beta tau inv P n 0; spec_beta tau inv P n 1; spec_beta tau inv P n 2;
                 spec_beta tau inv P n 3]%nat.

  (* Schmid tensor G = 2 sum_s beta_s l^_s (x) n^_s, flat 3x3 *)
  Definition spec_schmid (A : arr F) (beta : nat -> F) : arr F :=
    let g (i j : nat) : F :=
      ofZ 2 * (beta 0%nat * vnth (row A (sys_l 0)) i * vnth (row A (sys_n 0)) j
             + beta 1%nat * vnth (row A (sys_l 1)) i * vnth (row A (sys_n 1)) j
             + beta 2%nat * vnth (row A (sys_l 2)) i * vnth (row A (sys_n 2)) j
             + beta 3%nat * vnth (row A (sys_l 3)) i * vnth (row A (sys_n 3)) j) in
    mk_arr zero [g 0 0; g 0 1; g 0 2; g 1 0; g 1 1; g 1 2; g 2 0; g 2 1; g 2 2]%nat.

  Definition e2 (M : arr F) (i j : nat) : F := M (3 * i + j)%nat.
  Definition sym2 (M : arr F) (i j : nat) : F := (e2 M i j + e2 M j i) / ofZ 2.
  Definition skw2 (M : arr F) (i j : nat) : F := (e2 M i j - e2 M j i) / ofZ 2.
  (* Frobenius contraction of two index functions *)
  Definition frob (X Y : nat -> nat -> F) : F :=
    X 0 0 * Y 0 0 + X 0 1 * Y 0 1 + X 0 2 * Y 0 2 + X 1 0 * Y 1 0 + X 1 1 * Y 1 1
    + X 1 2 * Y 1 2 + X 2 0 * Y 2 0 + X 2 1 * Y 2 1 + X 2 2 * Y 2 2.

  Definition eps15 : F := (ofZ 2535301200456459 / ofZ 2535301200456458802993406410752).  (* 1e-15 *)

  (* least-squares slip rate on the softest system; D is taken as sym L *)
  Definition spec_gamma0 (G L : arr F) : F :=
    let num := frob (sym2 G) (sym2 L) in
    let den := frob (sym2 G) (sym2 G) in
    if andb (ltb (opp eps15) (ofZ 2 * den)) (ltb (ofZ 2 * den) eps15) then zero else num / den.

  Definition spec_spin (G L : arr F) (g : F) : vec :=
    let W i j := skw2 L i j - g * skw2 G i j in (W 2 1, W 0 2, W 1 0)%nat.

  Definition spec_rate (A G L : arr F) (g : F) : arr F :=
    let w := spec_spin G L g in
    let r i := cross w (row A i) in
    mk_arr zero [vnth (r 0) 0; vnth (r 0) 1; vnth (r 0) 2; vnth (r 1) 0; vnth (r 1) 1; vnth (r 1) 2;
                 vnth (r 2) 0; vnth (r 2) 1; vnth (r 2) 2]%nat.

  Definition spec_rho (tau : list (option Z)) (beta : nat -> F) (g p n : F) (s : nat) : F :=
    npow (over_tau one (tau_at tau s)) (n - p) * npow (nabs (beta s * g)) (p / n).
  Definition spec_energy1 tau beta g p n lam (s : nat) : F :=
    let rho := spec_rho tau beta g p n s in rho * nexp (opp lam * (rho * rho)).
  Definition spec_energy tau beta (P : perm4) g p n lam : F :=
    spec_energy1 tau beta g p n lam (pidx P 1) + spec_energy1 tau beta g p n lam (pidx P 2)
    + spec_energy1 tau beta g p n lam (pidx P 3).

  Definition all_zero4 (v : arr F) : bool :=
    andb (eqb (v 0%nat) zero) (andb (eqb (v 1%nat) zero) (andb (eqb (v 2%nat) zero) (eqb (v 3%nat) zero))).

  Definition zeros9s : arr F := mk_arr zero [zero; zero; zero; zero; zero; zero; zero; zero; zero].

  Definition spec_grain (ph fb : Z) (A D L : arr F) (p n lam : F) : res (arr F * F) :=
    match tau_table ph fb with
    | None => Err ValueError
    | Some tau =>
        let inv := spec_invariants D A in
        if all_zero4 inv then Ok (zeros9s, zero)           (* no resolved shear at all *)
        else if Z.eqb ph 0 then
          let q := spec_activities tau inv in
          if all_zero4 q then Ok (zeros9s, zero)           (* no activatable system *)
          else
            let P := argsort4 q in
            let beta := spec_beta_arr tau inv P n in
            let G := spec_schmid A beta in
            let g := spec_gamma0 G L in
            Ok (spec_rate A G L g, spec_energy tau beta P g p n lam)
        else
          let beta := mk_arr zero [zero; zero; zero;
                                   if ltb eps15 (nabs (inv 3%nat)) then one else zero] in
          let G := spec_schmid A beta in
          let g := spec_gamma0 G L in
          Ok (spec_rate A G L g, spec_energy tau beta P0123 g p n lam)
    end.

  (* ---- aggregate: boundary-migration law, any number of grains ------------- *)
  Fixpoint spec_grains (ph fb : Z) (os : list (arr F)) (D L : arr F) (p n lam : F)
    : res (list (arr F * F)) :=
    match os with
    | [] => Ok []
    | o :: os' =>
        match spec_grain ph fb o D L p n lam with
        | Err e => Err e
        | Ok r => match spec_grains ph fb os' D L p n lam with
                  | Err e => Err e
                  | Ok rs => Ok (r :: rs)
                  end
        end
    end.

  Fixpoint smap2 {A B C} (f : A -> B -> C) (l1 : list A) (l2 : list B) : list C :=
    match l1, l2 with a :: l1', b :: l2' => f a b :: smap2 f l1' l2' | _, _ => [] end.

  (* Ebar = sum_j f_j E_j ;  df_i/dt = damp * phi * M * f_i * (Ebar - E_i) *)
  Definition spec_mean_energy (fs es : list F) : F := fold_right add zero (smap2 mul fs es).
  Definition spec_migration (damp phi M : F) (fs es : list F) : list F :=
    smap2 (fun f e => damp * (phi * M * f * (spec_mean_energy fs es - e))) fs es.

  Definition damp_yielding : F := (ofZ 5404319552844595 / ofZ 18014398509481984).  (* 0.3 *)
  Definition scale9s (c : F) (a : arr F) : arr F :=
    mk_arr zero [c * a 0%nat; c * a 1%nat; c * a 2%nat; c * a 3%nat; c * a 4%nat;
                 c * a 5%nat; c * a 6%nat; c * a 7%nat; c * a 8%nat].

  (* the two dislocation-type regimes: 4 = matrix_dislocation, 6 = frictional_yielding *)
  Definition spec_derivs (regime ph fb : Z) (os : list (arr F)) (fs : list F)
             (D L : arr F) (p n lam M phi : F) : res (list (arr F) * list F) :=
    match spec_grains ph fb os D L p n lam with
    | Err e => Err e
    | Ok rs =>
        if Z.eqb regime 4 then Ok (map fst rs, spec_migration one phi M fs (map snd rs))
        else if Z.eqb regime 6 then
          Ok (map (fun r => scale9s damp_yielding (fst r)) rs,
              spec_migration damp_yielding phi M fs (map snd rs))
        else Err ValueError
    end.
End Spec.
