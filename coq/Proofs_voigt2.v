(* Proofs_voigt2.v -- per-grain consequences for the Voigt average: the bulk and shear
   moduli of every rotated grain tensor equal the single crystal's (texture independence),
   K and G are explicit linear functionals, and a rotated grain tensor co-rotates with the
   reference frame. *)
From Coq Require Import Reals ZArith List Lra Lia.
From PV Require Import Num NumR Model_voigt Model_decomp Proofs_tensors_alg Proofs_tensors_rot
  Proofs_tensors_maps Proofs_tensors_proj Inst_tensors Proofs_voigt Proofs_decomp.
From PV.gen Require Import Gen_tensors.
Import ListNotations.
Open Scope R_scope.

(* K and G are linear functionals of the Voigt matrix *)
Theorem KG_formula (M : arr NumR) :
  Kof M = (M 0%nat + M 6%nat + M 12%nat + (M 1%nat + M 7%nat + M 13%nat) + (M 2%nat + M 8%nat + M 14%nat)) / 9 /\
  Gof M = ((M 0%nat + M 28%nat + M 35%nat) + (M 7%nat + M 21%nat + M 35%nat) + (M 14%nat + M 21%nat + M 28%nat) - 3 * Kof M) / 10.
Proof.
  unfold Kof, Gof, bulk_shear.
  split; lazy [k_voigt_decompose trace3 fst snd mk_arr nth]; numR; clean_ite; field.
Qed.

(* every grain contributes a tensor with the single-crystal moduli *)
Theorem grain_moduli tensors (m : @mineral NumR) i n :
  sym6 (m_C tensors m) -> orth (mat3 (transpose3 (g_orient m i n))) ->
  Kof (grain_voigt tensors m i n) = Kof (m_C tensors m) /\
  Gof (grain_voigt tensors m i n) = Gof (m_C tensors m).
Proof. intros Hs Ho. apply (KG_frame_invariant _ _ Hs Ho). Qed.

Lemma transpose_product (o Q : arr NumR) :
  eq2b (mat3 (transpose3 (matmul3 o (transpose3 Q)))) (mat3 (matmul3 Q (transpose3 o))).
Proof.
  intros a b Ha Hb.
  destruct a as [|[|[|a]]]; try lia; destruct b as [|[|[|b]]]; try lia;
  cbv [mat3 transpose3 matmul3 mk_arr nth Nat.add Nat.mul]; numR; ring.
Qed.

(* replacing a grain orientation A by A.Q^T rotates its contribution by Q *)
Theorem grain_corotates (C o Q : arr NumR) : sym6 C ->
  let C4 := k_voigt_to_elastic_tensor C in
  eq4b (t4 (k_voigt_to_elastic_tensor (k_elastic_tensor_to_voigt
              (k_rotate C4 (transpose3 (matmul3 o (transpose3 Q)))))))
       (t4 (k_rotate (k_voigt_to_elastic_tensor (k_elastic_tensor_to_voigt
              (k_rotate C4 (transpose3 o)))) Q)).
Proof.
  intros Hs C4. subst C4.
  pose proof (vte_symmetries C Hs) as Hsym.
  eapply eq4b_trans; [apply vte_etv, rotate_symmetries, Hsym|].
  eapply eq4b_trans; [apply rotate_extQ, transpose_product|].
  eapply eq4b_trans; [apply eq4b_sym, rotate_compose|].
  apply rotate_extT, eq4b_sym, vte_etv, rotate_symmetries, Hsym.
Qed.

(* the order of the mineral list does not matter *)
Theorem weighted_sum_perm tensors assemblage phis (ms ms' : list (@mineral NumR)) ng i k :
  Permutation.Permutation ms ms' ->
  weighted_sum tensors assemblage phis ms ng i k = weighted_sum tensors assemblage phis ms' ng i k.
Proof. intros H. unfold weighted_sum. apply rsum_perm, Permutation.Permutation_map, H. Qed.

Definition m_example : @mineral NumR := @mkMineral NumR 0%Z 1%nat [[eye3]] [[1]].
Lemma C10_nonvacuous_proof :
  consistent [m_example] /\ is_identity (g_orient m_example 0 0) /\ g_frac m_example 0 0 = 1 /\
  m_phi [0%Z] [1] m_example = 1 /\ orth (mat3 (transpose3 (g_orient m_example 0 0))).
Proof.
  repeat split.
  - cbn. constructor.
  - cbn. constructor.
  - cbn. repeat constructor.
  - intros a b Ha Hb. apply (mat3_eye3 a b Ha Hb).
  - intros a e Ha He. destruct a as [|[|[|a]]]; try lia; destruct e as [|[|[|e]]]; try lia;
    cbv [sum3 mat3 transpose3 g_orient m_example m_orients nth eye3 mk_arr Nat.eqb Nat.add Nat.mul]; numR; ring.
Qed.
