(* Model_stats_session.v -- resample_orientations inside a process: a history of calls on live
   array / list objects that the caller modifies IN PLACE between the calls (group `resample`, C15).

   Model_stats.resample models ONE call on one value.  Post-processing code resamples the same
   texture stack many times: `Mineral.orientations` / `Mineral.fractions` are lists that are
   extended and whose arrays are overwritten, a preallocated buffer is refilled
   (`fractions[...] = next`), grains are reordered, one grain is emptied, volumes are rescaled,
   and the same seed is used again for reproducible figures.  Whether a result can depend on
   what was called earlier, or on WHICH object holds the values, is not expressible in the
   one-call model; it is expressed here:

   * `store`    the live objects: orientation stacks and volume stacks, each with its shape; the
                position in the list is the identity of the object (`id(x)`), the entry its
                current contents;
   * `sop`      one step of a history: an in-place modification of an object, or a call
                `resample_orientations(O_a, f_b, n_samples, seed)` on two objects;
   * `sstate`   everything that persists in the process: the store, the number of calls made so
                far (the generator of call k is the oracle `draw k`), and a one-entry memo;
   * `step memo`  the transition.  `memo = false` is the source as it is: every call computes
                Model_stats.resample from the CURRENT contents; the memo is never read or
                written.  `memo = true` is an implementation that remembers the last seeded
                result together with the identities of the two objects and the key
                (fractions shape, n_samples, seed) and hands it back when the same objects come
                with the same key, whatever they contain now (the session theorems are refuted
                for it: Proofs_stats_session.memo_refuted);
   * `pure_run` the reading of the property over histories: every call is the one-call function
                of the contents its arguments have at the time of the call, n_samples and the
                generator of that call -- nothing else.

   ORACLES: `argsort k i f` (np.argsort of snapshot i in call k) and `draw k i n` (the i-th call
   rng.random(n) of the generator created by call k).  No proofs in this file. *)
From Coq Require Import ZArith List Bool Arith.
From PV Require Import Num Model_stats.
Import ListNotations.
Local Open Scope num_scope.

Section Session.
  Context {F : Num} {O : Type}.

  Definition oobj : Type := (list nat * list (list O))%type.     (* shape, contents *)
  Definition fobj : Type := (list nat * list (list F))%type.
  Definition store : Type := (list oobj * list fobj)%type.

  Definition oget (st : store) (a : nat) : oobj := nth a (fst st) ([], []).
  Definition fget (st : store) (b : nat) : fobj := nth b (snd st) ([], []).

  (* writing through an object that does not exist is not generated; it leaves the store alone *)
  Fixpoint set_nth {A} (l : list A) (k : nat) (x : A) : list A :=
    match l, k with
    | [], _ => []
    | _ :: t, 0%nat => x :: t
    | y :: t, S k' => y :: set_nth t k' x
    end.

  Definition oset (st : store) (a : nat) (os : list (list O)) : store :=
    (set_nth (fst st) a (fst (oget st a), os), snd st).
  Definition fset (st : store) (b : nat) (fs : list (list F)) : store :=
    (fst st, set_nth (snd st) b (fst (fget st b), fs)).

  Definition permute {A} (p : list nat) (row : list A) : list A :=
    flat_map (fun j => match nth_error row j with Some x => [x] | None => [] end) p.

  Inductive sop :=
  | SFillO (a : nat) (os : list (list O))      (* O_a[...] = os   (same shape) *)
  | SFillF (b : nat) (fs : list (list F))      (* f_b[...] = fs   (same shape) *)
  | SSetF (b i j : nat) (x : F)                (* f_b[i, j] = x *)
  | SScaleF (b : nat) (c : F)                  (* f_b *= c *)
  | SPermute (a b : nat) (p : list nat)        (* O_a[...] = O_a[:, p]; f_b[...] = f_b[:, p] *)
  | SCall (a b : nat) (ns : option Z) (seed : option Z).   (* resample_orientations(O_a, f_b, ns, seed) *)

  Definition mutate (st : store) (o : sop) : store :=
    match o with
    | SFillO a os => oset st a os
    | SFillF b fs => fset st b fs
    | SSetF b i j x =>
        let fs := snd (fget st b) in
        fset st b (set_nth fs i (set_nth (nth i fs []) j x))
    | SScaleF b c => fset st b (map (map (fun x => x * c)) (snd (fget st b)))
    | SPermute a b p =>
        fset (oset st a (map (permute p) (snd (oget st a)))) b (map (permute p) (snd (fget st b)))
    | SCall _ _ _ _ => st
    end.

  Definition store_after (st : store) (h : list sop) : store := fold_left mutate h st.

  Definition result : Type := res (list (list O) * list (list F)).

  (* the memo of the refuted variant: objects, key, result *)
  Definition memo_entry : Type := (nat * nat * list nat * nat * Z * result)%type.
  Definition sstate : Type := (store * nat * option memo_entry)%type.

  Variable argsort : nat -> nat -> list F -> list nat.
  Variable draw : nat -> nat -> nat -> list F.

  (* what the source computes in call number k on the current contents *)
  Definition call_now (st : store) (k : nat) (a b : nat) (ns : option Z) : result :=
    resample (argsort k) (draw k) faithful (fst (oget st a)) (fst (fget st b))
             (snd (oget st a)) (snd (fget st b)) ns.

  Definition n_eff (sf : list nat) (ns : option Z) : nat :=
    match ns with None => nth 1 sf 0%nat | Some z => Z.to_nat z end.

  Definition list_eqb (l l' : list nat) : bool :=
    (length l =? length l')%nat && forallb (fun p => (fst p =? snd p)%nat) (combine l l').

  Definition hit (m : option memo_entry) (a b : nat) (sf : list nat) (n : nat) (seed : option Z) : option result :=
    match m, seed with
    | Some (a', b', sf', n', z', r), Some z =>
        if (a =? a')%nat && (b =? b')%nat && list_eqb sf sf' && (n =? n')%nat && (z =? z')%Z then Some r else None
    | _, _ => None
    end.

  Definition step (memo : bool) (s : sstate) (o : sop) : sstate * list result :=
    let '(st, k, m) := s in
    match o with
    | SCall a b ns seed =>
        let sf := fst (fget st b) in
        let fresh := call_now st k a b ns in
        if memo && negb (shape_bad (fst (oget st a)) sf) then
          match hit m a b sf (n_eff sf ns) seed with
          | Some r => ((st, S k, m), [r])
          | None =>
              let m' := match seed, fresh with
                        | Some z, Ok _ => Some (a, b, sf, n_eff sf ns, z, fresh)
                        | _, _ => m
                        end in
              ((st, S k, m'), [fresh])
          end
        else ((st, S k, m), [fresh])
    | _ => ((mutate st o, k, m), [])
    end.

  Fixpoint run (memo : bool) (s : sstate) (h : list sop) : list result :=
    match h with
    | [] => []
    | o :: t => let '(s', out) := step memo s o in out ++ run memo s' t
    end.

  (* the reading of the property: each call is the one-call function of the current contents *)
  Fixpoint pure_run (st : store) (k : nat) (h : list sop) : list result :=
    match h with
    | [] => []
    | SCall a b ns seed :: t => call_now st k a b ns :: pure_run st (S k) t
    | o :: t => pure_run (mutate st o) k t
    end.

  (* the contexts of the calls of a history: (call number, contents at the time of the call, arguments) *)
  Definition call_ctx : Type := (nat * oobj * fobj * option Z * option Z)%type.
  Fixpoint contexts (st : store) (k : nat) (h : list sop) : list call_ctx :=
    match h with
    | [] => []
    | SCall a b ns seed :: t => (k, oget st a, fget st b, ns, seed) :: contexts st (S k) t
    | o :: t => contexts (mutate st o) k t
    end.

  Definition out_of_ctx (c : call_ctx) : result :=
    let '(k, (so, os), (sf, fs), ns, _) := c in
    resample (argsort k) (draw k) faithful so sf os fs ns.
End Session.
