(* Model_core.v -- hand-written, list-recursive model of pydrex.core.derivatives for an
   arbitrary number of grains.  The per-grain kernel is the *generated*
   Gen_core.k_get_rotation_and_strain; only the loop over grains and the combination of
   the per-grain results (mean energy, residuals, damping factor, regime dispatch) are
   hand-written here.  Tied to the source by (a) the kernel-checked instance lemmas of
   Inst_core.v against the generated k_derivatives_n{1,2,3} and (b) differential runs of
   the extracted code against pydrex.core.derivatives. *)
From Coq Require Import ZArith List Bool.
From PV Require Import Num.
From PV.gen Require Import Gen_core.
Import ListNotations.
Local Open Scope num_scope.

Section Model.
  Context {F : Num}.

  (* np.sum: left-to-right accumulation starting from the first entry *)
  Definition sumf (l : list F) : F :=
    match l with [] => zero | x :: xs => fold_left add xs x end.

  Fixpoint map2 {A B C} (f : A -> B -> C) (l1 : list A) (l2 : list B) : list C :=
    match l1, l2 with
    | a :: l1', b :: l2' => f a b :: map2 f l1' l2'
    | _, _ => []
    end.

  Definition zeros9 : arr F := mk_arr zero [zero; zero; zero; zero; zero; zero; zero; zero; zero].
  Definition scale9 (c : F) (a : arr F) : arr F :=
    mk_arr zero [c * a 0%nat; c * a 1%nat; c * a 2%nat; c * a 3%nat; c * a 4%nat;
                 c * a 5%nat; c * a 6%nat; c * a 7%nat; c * a 8%nat].
  (* matrix_diffusion: np.repeat(S.transpose(), n).reshape(3,3,n).transpose()[g] = S *)
  Definition copy9 (a : arr F) : arr F :=
    mk_arr zero [a 0%nat; a 1%nat; a 2%nat; a 3%nat; a 4%nat; a 5%nat; a 6%nat; a 7%nat; a 8%nat].

  (* the grain loop: stops at the first grain whose kernel raises *)
  Fixpoint grains (phase fabric : Z) (os : list (arr F)) (D L : arr F) (p n lam : F)
    : res (list (arr F * F)) :=
    match os with
    | [] => Ok []
    | o :: os' =>
        match k_get_rotation_and_strain phase fabric o D L p n lam with
        | Err e => Err e
        | Ok r =>
            match grains phase fabric os' D L p n lam with
            | Err e => Err e
            | Ok rs => Ok (r :: rs)
            end
        end
    end.

  Definition three_tenths : F := (ofZ 5404319552844595 / ofZ 18014398509481984).  (* 0.3 *)

  (* volume-fraction rates from energies: phi * M * f_i * (c * (Emean - E_i)) *)
  Definition frac_rates (c : option F) (phi M : F) (fs es : list F) : list F :=
    let emean := sumf (map2 mul fs es) in
    map2 (fun f e => match c with
                     | None => phi * M * f * (emean - e)
                     | Some c => phi * M * f * (c * (emean - e))
                     end) fs es.

  Definition derivs (regime phase fabric : Z) (os : list (arr F)) (fs : list F)
             (D L S : arr F) (p n lam M phi : F) : res (list (arr F) * list F) :=
    if Z.eqb regime 0 then Ok (map (fun _ => zeros9) os, map (fun _ => zero) os)
    else if Z.eqb regime 1 then Ok (map (fun _ => copy9 S) os, map (fun _ => zero) os)
    else if Z.eqb regime 2 then Err ValueError
    else if Z.eqb regime 3 then Err ValueError
    else if Z.eqb regime 4 then
      match grains phase fabric os D L p n lam with
      | Err e => Err e
      | Ok rs => Ok (map fst rs, frac_rates None phi M fs (map snd rs))
      end
    else if Z.eqb regime 5 then Err ValueError
    else if Z.eqb regime 6 then
      match grains phase fabric os D L p n lam with
      | Err e => Err e
      | Ok rs => Ok (map (fun r => scale9 three_tenths (fst r)) rs,
                     frac_rates (Some three_tenths) phi M fs (map snd rs))
      end
    else if Z.eqb regime 7 then Ok (map (fun _ => zeros9) os, map (fun _ => zero) os)
    else Err ValueError.

  (* grain g of a flat (n,3,3) array *)
  Definition slice9 (O : arr F) (g : nat) : arr F :=
    mk_arr zero (map (fun k => O (9 * g + k)%nat) (seq 0 9)).
End Model.
