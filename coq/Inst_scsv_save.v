(* Inst_scsv_save.v -- save_scsv as a whole (tie T): the hand-written model `Model_scsv.save` equals the generated
   statement blocks of save_scsv (coq/gen/Gen_scsv.v) put together by a thin skeleton, for every schema dictionary
   that stands for a typed schema and every data set (columns as lists or tuples, cells of the five kinds). *)
From Coq Require Import String Ascii List ZArith Bool NArith Lia.
From PV Require Import Model_scsv Proofs_scsv Model_scsv_frame Model_scsv_py Gen_scsv Inst_scsv.
Import ListNotations.
Open Scope string_scope.

Section S.
Variable O : oracles.

(* str(v) as csv.writer applies it to what save_scsv puts into a row *)
Definition text_of (v : pyval) : string := match abs_cell v with Some c => pystr O c | None => "" end.

(* save_scsv put together from the generated blocks, in the order of the source.  Hand-written here: this
   skeleton only -- the order of the blocks, `if not _validate_scsv_schema(schema): raise SCSVError` of
   write_scsv_header, the acceptance of the delimiter by csv.writer (oracle), writer.writerow(names), the loop
   `for col in zip( *data): <row block>; writer.writerow(row)`, and the outer `except ValueError: raise SCSVError` *)
Definition save_assembled (schema data : pyval) : res (list (list pyval)) :=
  _ <- gen_save_scsv_lengths O data ;;
  value_to_scsv (
    ok <- gen__validate_scsv_schema O schema ;;
    t <- py_truth ok ;;
    if negb t then Err SCSV
    else
      cols <- gen_save_scsv_columns schema ;;
      let '(fills, types, names) := cols in
      d <- py_getitem schema (PStr "delimiter") ;;
      match d with
      | PStr ds =>
          match o_delim_err O ds with
          | Some e => Err e
          | None =>
              hdr <- seq_items names ;;
              it <- py_zip_star data ;;
              rows <- comp_items (fun col => r <- gen_save_scsv_row O schema names types fills col ;;
                                             l <- seq_items r ;; Ok (PList l)) (fst it) (snd it) ;;
              rows' <- map_res seq_items rows ;;
              Ok (hdr :: rows')
          end
      | _ => Err EUnmodelled
      end).

Lemma vts_bind : forall {A B} (a : res A) (f : A -> res B),
  value_to_scsv (x <- a ;; f x) = (x <- value_to_scsv a ;; value_to_scsv (f x)).
Proof. intros A B [x|e] f; [reflexivity|destruct e; reflexivity]. Qed.

Lemma validate_fields_no_evalue : forall fs, validate_fields O fs <> Err EValue.
Proof.
  induction fs as [|f r IH]; [discriminate|]. cbn [validate_fields].
  destruct (fname f) as [[]|]; try discriminate. destruct (negb (o_is_ident O s)); [discriminate|].
  destruct (typemap (type_of f)); [|discriminate]. destruct (_ && _); [discriminate|exact IH].
Qed.

Lemma zipn_map : forall {A B} (f : A -> B) n (xss : list (list A)),
  zipn n (map (map f) xss) = map (map f) (zipn n xss).
Proof.
  intros A B f. assert (H : forall xss, heads (map (map f) xss) = option_map (map f) (heads xss)).
  { induction xss as [|[|x r] xss IH]; [reflexivity|reflexivity|]. cbn [map heads]. rewrite IH. destruct (heads xss); reflexivity. }
  induction n as [|n IH]; intros xss; [reflexivity|]. cbn [zipn]. rewrite H. destruct (heads xss); [|reflexivity].
  cbn [option_map map]. f_equal. rewrite <- IH. f_equal. rewrite !map_map. apply map_ext. intros [|a l']; reflexivity.
Qed.

Lemma abs_schema_inv : forall p s d m fs, abs_schema p = Some s ->
  sdelim s = Some d -> smissing s = Some m -> sfields s = Some fs ->
  exists kv l, p = PDict kv /\ dget kv "delimiter" = Some (PStr d) /\ dget kv "missing" = Some (PStr m) /\
               dget kv "fields" = Some (PList l) /\ abs_fields l = Some fs.
Proof.
  intros p s d m fs A Ed Em Ef. destruct p as [| | | | | | | | kv | |]; try discriminate A. unfold abs_schema in A.
  destruct (dget kv "delimiter") as [[| | | | | d' | | | | |]|] eqn:Kd; try discriminate A;
  destruct (dget kv "missing") as [[| | | | | m' | | | | |]|] eqn:Km; try discriminate A;
  destruct (dget kv "fields") as [[| | | | | | l | | | |]|] eqn:Kf; try discriminate A;
  cbn [opt_str option_map] in A; try (destruct (abs_fields l) as [fs'|] eqn:Efs; [|discriminate A]);
  injection A as <-; cbn [sdelim smissing sfields] in *; try congruence.
  injection Ed as ->. injection Em as ->. injection Ef as ->. exists kv, l. auto.
Qed.

Lemma raw_names_valid : forall l fs, abs_fields l = Some fs -> validate_fields O fs = Ok true ->
  raw_names l = Some (map PStr (map name_str fs)).
Proof.
  induction l as [|p r IH]; intros fs A V; cbn [abs_fields] in A.
  - injection A as <-. reflexivity.
  - destruct (abs_field p) as [f|] eqn:Af; [|discriminate]. destruct (abs_fields r) as [fs'|] eqn:Ar; [|discriminate].
    injection A as <-. cbn [validate_fields] in V.
    destruct (fname f) as [[| n | | | |]|] eqn:En; try discriminate.
    destruct (negb (o_is_ident O n)); [discriminate|]. destruct (typemap (type_of f)); [|discriminate].
    destruct (_ && _); [discriminate|]. cbn [raw_names map]. rewrite (IH fs' eq_refl V).
    destruct p as [| | | | | | | | kv | |]; try discriminate Af. unfold abs_field in Af.
    destruct (opt_str (dget kv "type")); [|discriminate].
    destruct (dget kv "name") as [x|] eqn:Ex; [destruct (is_other x); [discriminate|]|]; injection Af as <-; cbn [fname option_map] in En; try discriminate.
    cbn [raw_name]. rewrite Ex. unfold name_str. cbn [fname option_map]. injection En as En. rewrite En.
    destruct x; try discriminate En. cbn [abs_yval] in En. injection En as ->. reflexivity.
Qed.

Definition emb_ccol (c : bool * list cell) : pyval := emb_col (fst c, map emb_cell (snd c)).

Definition fills_not_complex (p : pyval) : Prop :=
  match p with
  | PDict kv => match dget kv "fields" with
                | Some (PList l) => Forall (fun f => not_complex (raw_fill f)) l
                | _ => True
                end
  | _ => True
  end.

Lemma items_of_cols : forall cs, items_of (map emb_ccol cs) = Ok (map (fun c => map emb_cell (snd c)) cs).
Proof.
  induction cs as [|[b l] r IH]; [reflexivity|]. cbn [map items_of]. unfold emb_ccol at 1, emb_col. cbn [fst snd].
  destruct b; cbn [py_iter bind fst snd]; rewrite IH; reflexivity.
Qed.

Lemma field_types_facts : forall fs tfs, field_types fs = Ok tfs -> length tfs = length fs /\ map snd tfs = map fill_of fs.
Proof.
  unfold field_types. induction fs as [|f r IH]; intros tfs H; cbn [map_res] in H.
  - injection H as <-. split; reflexivity.
  - destruct (typemap (type_of f)); [|discriminate]. cbn [bind] in H.
    destruct (map_res _ r) as [tr|]; [|discriminate]. cbn [bind] in H. injection H as <-.
    destruct (IH tr eq_refl) as [L M]. cbn [length map snd]. rewrite L, M. split; reflexivity.
Qed.

Lemma map_raw_fill_abs : forall l fs, abs_fields l = Some fs -> map abs_yval (map raw_fill l) = map fill_of fs.
Proof.
  induction l as [|p r IH]; intros fs A; cbn [abs_fields] in A.
  - injection A as <-. reflexivity.
  - destruct (abs_field p) as [f|] eqn:Af; [|discriminate]. destruct (abs_fields r) as [fs'|] eqn:Ar; [|discriminate].
    injection A as <-. cbn [map]. rewrite (raw_fill_abs _ _ Af), (IH fs' eq_refl). reflexivity.
Qed.

(* rows of values -> rows of texts, inside the outer except ValueError *)
Lemma rows_vals_model : forall m tfs R,
  value_to_scsv (match map_res (row_vals O m tfs) R with Ok vss => Ok (map (map (pystr O)) vss) | Err e => Err e end)
  = map_res (save_row O m (map (fun tf => (fst tf, abs_yval (snd tf))) tfs)) R.
Proof.
  intros m tfs R. induction R as [|row R IH]; [reflexivity|]. cbn [map_res]. rewrite <- row_vals_model, <- IH.
  destruct (row_vals O m tfs row) as [vs|e]; [|destruct e; reflexivity]. cbn [bind value_to_scsv].
  destruct (map_res (row_vals O m tfs) R) as [vss|e]; [reflexivity|destruct e; reflexivity].
Qed.

Lemma combine_facts : forall {A B} (a : list A) (b : list B), length a = length b ->
  map fst (combine a b) = a /\ map snd (combine a b) = b.
Proof.
  induction a as [|x a IH]; intros [|y b] H; try discriminate H; [split; reflexivity|].
  injection H as H. destruct (IH b H) as [F S]. cbn [combine map fst snd]. rewrite F, S. split; reflexivity.
Qed.

Lemma pairs_eq : forall {A B} (X Y : list (A * B)), map fst X = map fst Y -> map snd X = map snd Y -> X = Y.
Proof.
  induction X as [|[a b] X IH]; intros [|[a' b'] Y] F S; try discriminate; [reflexivity|].
  cbn [map fst snd] in F, S. injection F as -> F. injection S as -> S. rewrite (IH Y F S). reflexivity.
Qed.

Theorem save_assembled_eq : forall p s (cs : list (bool * list cell)),
  abs_schema p = Some s -> fills_not_complex p ->
  match save_assembled p (PList (map emb_ccol cs)) with
  | Ok rows => Ok (map (map text_of) rows)
  | Err e => Err e
  end = save O s (map snd cs).
Proof.
  intros p s cs A NC. unfold save_assembled.
  replace (map emb_ccol cs) with (map emb_col (map (fun c => (fst c, map emb_cell (snd c))) cs)) by (rewrite map_map; reflexivity).
  rewrite gen_save_lengths_eq. destruct cs as [|c0 rest]; [reflexivity|].
  cbn [map fst snd]. unfold save.
  assert (X : existsb (fun c : bool * list pyval => negb (length (snd c) =? length (map emb_cell (snd c0)))%nat)
                      (map (fun c : bool * list cell => (fst c, map emb_cell (snd c))) rest)
              = existsb (fun c : list cell => negb (length c =? length (snd c0))%nat) (map snd rest)).
  { clear. induction rest as [|c r IH]; [reflexivity|]. cbn [map existsb fst snd]. rewrite IH, !map_length. reflexivity. }
  rewrite X. clear X. destruct (existsb _ (map snd rest)) eqn:EL; [reflexivity|]. cbn [bind].
  rewrite (gen_validate_eq O p s A).
  destruct (validate_schema O s) as [[|]|e] eqn:V; cbn [lift_bool bind py_truth negb value_to_scsv]; try reflexivity.
  2: { destruct e; try reflexivity. exfalso. unfold validate_schema in V.
       destruct (sdelim s); [|discriminate]. destruct (smissing s); [|discriminate]. destruct (sfields s) as [fs|]; [|discriminate].
       destruct (_ && _); [|discriminate]. exact (validate_fields_no_evalue fs V). }
  destruct (validate_true_inv O s V) as [d [m [fs [Ed [Em [Ef [Hne [Hdm [Hc Vf]]]]]]]]].
  destruct (abs_schema_inv p s d m fs A Ed Em Ef) as [kv [l [-> [Kd [Km [Kf Al]]]]]].
  destruct (validate_fields_types O fs Vf) as [tfs [Et F2]].
  rewrite Ed, Em, Ef, Et. cbn [bind].
  rewrite (gen_save_columns_eq kv l fs Kf Al), Et, (raw_names_valid l fs Al Vf). cbn [bind py_getitem]. rewrite Kd. cbn [bind].
  destruct (o_delim_err O d) as [e|]; [destruct e; reflexivity|].
  cbn [seq_items bind py_zip_star py_iter fst snd py_zip].
  change (emb_col (fst c0, map emb_cell (snd c0)) :: map emb_col (map (fun c : bool * list cell => (fst c, map emb_cell (snd c))) rest))
    with (map emb_col (map (fun c : bool * list cell => (fst c, map emb_cell (snd c))) (c0 :: rest))).
  rewrite map_map. change (fun x : bool * list cell => emb_col (fst x, map emb_cell (snd x))) with emb_ccol.
  unfold py_zip. rewrite items_of_cols. cbn [bind fst snd zip_fuel map]. rewrite map_length.
  change (map emb_cell (snd c0) :: map (fun c : bool * list cell => map emb_cell (snd c)) rest)
    with (map (fun c : bool * list cell => map emb_cell (snd c)) (c0 :: rest)).
  rewrite <- (map_map snd (map emb_cell)). rewrite zipn_map.
  cbn [map]. set (R := zipn (length (snd c0)) (snd c0 :: map snd rest)).
  assert (Ltfs : length tfs = length l).
  { destruct (field_types_facts fs tfs Et) as [L1 _]. rewrite L1. symmetry. apply abs_fields_length. exact Al. }
  set (tfs_raw := combine (map fst tfs) (map raw_fill l)).
  destruct (combine_facts (map fst tfs) (map raw_fill l)) as [CF CS]; [rewrite !map_length; exact Ltfs|].
  fold tfs_raw in CF, CS.
  assert (T1 : map (fun tf : ty * yval => PType (fst tf)) tfs = map (fun tf : ty * pyval => PType (fst tf)) tfs_raw).
  { rewrite <- (map_map fst PType tfs), <- CF, map_map. reflexivity. }
  assert (T2 : tfs = map (fun tf : ty * pyval => (fst tf, abs_yval (snd tf))) tfs_raw).
  { apply pairs_eq; rewrite map_map; cbn [fst snd].
    - rewrite <- CF. reflexivity.
    - rewrite <- (map_map snd abs_yval), CS, (map_raw_fill_abs l fs Al). exact (proj2 (field_types_facts fs tfs Et)). }
  assert (NCr : Forall (fun tf : ty * pyval => not_complex (snd tf)) tfs_raw).
  { unfold fills_not_complex in NC. rewrite Kf in NC. apply Forall_forall. intros tf I.
    assert (I2 : In (snd tf) (map snd tfs_raw)) by (apply in_map; exact I). rewrite CS in I2.
    apply in_map_iff in I2. destruct I2 as [f [<- If]]. rewrite Forall_forall in NC. exact (NC f If). }
  assert (Ln : length (map PStr (map name_str fs)) = length tfs_raw).
  { rewrite !map_length. rewrite <- (map_length fst tfs_raw), CF, map_length.
    symmetry. exact (proj1 (field_types_facts fs tfs Et)). }
  rewrite T1, <- CS.
  assert (CI : forall RR,
    comp_items (fun col : pyval =>
          r <- gen_save_scsv_row O (PDict kv) (PList (map PStr (map name_str fs)))
                 (PList (map (fun tf : ty * pyval => PType (fst tf)) tfs_raw)) (PList (map snd tfs_raw)) col;;
          l0 <- seq_items r;; Ok (PList l0)) (map PTuple (map (map emb_cell) RR)) None
    = match map_res (row_vals O m tfs_raw) RR with
      | Ok vss => Ok (map (fun vs => PList (map emb_cell vs)) vss)
      | Err e => Err e
      end).
  { induction RR as [|row R' IH]; [reflexivity|]. cbn [map comp_items map_res].
    rewrite (gen_save_row_eq O kv m _ tfs_raw row Km NCr Ln), IH.
    destruct (row_vals O m tfs_raw row) as [vs|e]; [|reflexivity]. cbn [bind seq_items].
    destruct (map_res (row_vals O m tfs_raw) R') as [vss|e]; reflexivity. }
  rewrite CI, T2, <- rows_vals_model.
  destruct (map_res (row_vals O m tfs_raw) R) as [vss|e]; [|destruct e; reflexivity].
  cbn [bind value_to_scsv].
  assert (S1 : forall vss, map_res seq_items (map (fun vs : list cell => PList (map emb_cell vs)) vss) = Ok (map (map emb_cell) vss)).
  { induction vss0 as [|vs r IH]; [reflexivity|]. cbn [map map_res seq_items bind]. rewrite IH. reflexivity. }
  rewrite S1. cbn [bind value_to_scsv map]. f_equal. f_equal.
  - rewrite map_map. cbn [text_of abs_cell pystr]. apply map_id.
  - rewrite map_map. apply map_ext. intro vs. rewrite map_map. apply map_ext. intros [x|z|f|b|re im]; reflexivity.
Qed.

End S.
