(* Inst_npz.v -- the names, the order, the packing and the tests of Mineral.save / load / from_file as read from the
   source on this run (gen/Gen_tables_npz.v, translator/specs_npz.py) are the ones Model_npz.v is written with
   (group `npz`, C17).  An edit of those source lines -- another member-name format, another order of the metadata
   triple, another dtype, np.stack replaced by something else, a validation test on other operands, another suffix,
   another subscript in a loader -- changes the generated table and these lemmas stop compiling. *)
From Coq Require Import String List ZArith Bool.
From PV.gen Require Import Gen_tables_npz.
From PV Require Import Num Model_npz Proofs_npz.
Import ListNotations.
Open Scope string_scope.

(* a format string with the loop variable `key` and `postfix` filled in *)
Definition fmt (ps : list fpart) (k pf : string) : string :=
  fold_right (fun p acc => (match p with FKey => k | FPostfix => pf | FLit s => s end) ++ acc) "" ps.

(* what Model_npz.v assumes about the three functions, in the vocabulary of the generated table *)
Definition model_save : save_shape :=
  mk_save_shape ["fractions"; "orientations"] "ValueError"
    [SFirst "fractions"; SFirst "orientations"; SAttr "n_grains"] "ValueError"
    [("meta", DMetaU8 ["phase"; "fabric"; "regime"]); ("fractions", DStack "fractions"); ("orientations", DStack "orientations")]
    "a" [FKey; FLit "_"; FPostfix] "np.savez".

Definition model_reads (sep : bool) : list read :=
  let it b := if sep then [FLit (base_name b ++ "_"); FPostfix] else [FLit (base_name b)] in
  [mk_read ["phase"; "fabric"; "regime"] (it BMeta) false; mk_read ["fractions"] (it BFractions) true;
   mk_read ["orientations"] (it BOrientations) true].
Definition model_loader (n_src : string) : load_shape :=
  mk_load_shape ".npz" "ValueError" (model_reads true) (model_reads false) n_src.

(* ---- the source has this structure today ------------------------------------------------------- *)
Theorem gen_save_is_model : gen_save = model_save.
Proof. reflexivity. Qed.
Theorem gen_load_is_model : gen_load = model_loader "len(self.fractions[0])".
Proof. reflexivity. Qed.
Theorem gen_from_file_is_model : gen_from_file = model_loader "len(fractions[0])".
Proof. reflexivity. Qed.

(* ---- and this structure is what the model functions compute ---------------------------------------- *)
Lemma append_nil_r : forall s, s ++ "" = s.
Proof. induction s as [|c r IH]; [reflexivity|]. simpl. now rewrite IH. Qed.

Lemma append_assoc : forall a b c : string, (a ++ b) ++ c = a ++ (b ++ c).
Proof. induction a as [|x a IH]; intros; [reflexivity|]. simpl. now rewrite IH. Qed.

(* zip member names of the postfix branch: f"{key}_{postfix}" over the keys of `data` = Model_npz.member *)
Theorem save_member_names : forall b pf,
  In (base_name b) (map fst (ss_data gen_save)) /\
  fmt (ss_member gen_save) (base_name b) pf = member b (Some pf).
Proof.
  intros b pf. rewrite gen_save_is_model. split.
  - destruct b; simpl; auto.
  - unfold member, key. simpl. now rewrite append_nil_r.
Qed.

(* the keys of `data` are exactly the three base names, in the order the model writes them *)
Theorem save_data_keys : map fst (ss_data gen_save) = map base_name [BMeta; BFractions; BOrientations].
Proof. reflexivity. Qed.

(* metadata = uint8 array of (phase, fabric, regime) in this order (Model_npz.build_data: [p; f; r], to_uint8);
   both stacks are np.stack of the snapshot lists (Model_npz.stack) *)
Theorem save_data_packing :
  map snd (ss_data gen_save) = [DMetaU8 ["phase"; "fabric"; "regime"]; DStack "fractions"; DStack "orientations"].
Proof. reflexivity. Qed.

(* the two tests of build_data, on these operands, with ValueError *)
Theorem save_validation :
  ss_counts gen_save = ["fractions"; "orientations"] /\ ss_counts_exc gen_save = "ValueError" /\
  ss_sizes gen_save = [SFirst "fractions"; SFirst "orientations"; SAttr "n_grains"] /\ ss_sizes_exc gen_save = "ValueError".
Proof. repeat split; reflexivity. Qed.

(* the postfix branch appends to the archive (mode "a"), the whole-file branch is numpy.savez (replaces it) *)
Theorem save_writers : ss_zip_mode gen_save = "a" /\ ss_whole_writer gen_save = "np.savez".
Proof. split; reflexivity. Qed.

(* both loaders read data[f"meta_{postfix}"] ... / data["meta"] ... = Model_npz.item, in the order of read_fields *)
Theorem loader_items : forall L, L = gen_load \/ L = gen_from_file -> forall pf,
  map (fun r => fmt (rd_item r) "" pf) (ls_postfix_reads L) = map (fun b => item b (Some pf)) [BMeta; BFractions; BOrientations] /\
  map (fun r => fmt (rd_item r) "" pf) (ls_plain_reads L) = map (fun b => item b None) [BMeta; BFractions; BOrientations].
Proof.
  intros L [-> | ->] pf; [rewrite gen_load_is_model|rewrite gen_from_file_is_model];
    (split; [unfold item, key; simpl; rewrite !append_nil_r; reflexivity|reflexivity]).
Qed.

(* the metadata triple is unpacked as (phase, fabric, regime); the two stacks are turned into lists of rows *)
Theorem loader_unpacking : forall L, L = gen_load \/ L = gen_from_file ->
  map rd_targets (ls_postfix_reads L) = [["phase"; "fabric"; "regime"]; ["fractions"]; ["orientations"]] /\
  map rd_targets (ls_plain_reads L) = [["phase"; "fabric"; "regime"]; ["fractions"]; ["orientations"]] /\
  map rd_listed (ls_postfix_reads L) = [false; true; true] /\ map rd_listed (ls_plain_reads L) = [false; true; true].
Proof. intros L [-> | ->]; repeat split; reflexivity. Qed.

(* the suffix test of open_npz and the grain count of the loaded texture *)
Theorem loader_suffix_and_grain_count :
  ls_suffix gen_load = ".npz" /\ ls_suffix_exc gen_load = "ValueError" /\
  ls_suffix gen_from_file = ".npz" /\ ls_suffix_exc gen_from_file = "ValueError" /\
  ls_n_grains gen_load = "len(self.fractions[0])" /\ ls_n_grains gen_from_file = "len(fractions[0])".
Proof. repeat split; reflexivity. Qed.
