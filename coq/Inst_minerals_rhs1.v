(* Inst_minerals_rhs1.v -- instance lemmas for the generated eval_rhs closures at n_grains = 1
   (see Inst_minerals.v): every generated k_eval_rhs_n1_a<assemblage> coincides with
   Model_minerals.rhs on the corresponding lists. *)
From Coq Require Import Reals ZArith List Bool Lra Lia.
From PV Require Import Num NumR Model_core Model_minerals Inst_core Inst_minerals.
From PV.gen Require Import Gen_core Gen_minerals.
Import ListNotations.
Open Scope R_scope.

Lemma eval_rhs_inst_1_a0 : rhs_stmt (@k_eval_rhs_n1_a0 NumR) 1 [0]%Z 1.
Proof. unfold rhs_stmt, k_eval_rhs_n1_a0. rhs_1. Qed.
Lemma eval_rhs_inst_1_a1 : rhs_stmt (@k_eval_rhs_n1_a1 NumR) 1 [1]%Z 1.
Proof. unfold rhs_stmt, k_eval_rhs_n1_a1. rhs_1. Qed.
Lemma eval_rhs_inst_1_a01 : rhs_stmt (@k_eval_rhs_n1_a01 NumR) 1 [0; 1]%Z 2.
Proof. unfold rhs_stmt, k_eval_rhs_n1_a01. rhs_1. Qed.
Lemma eval_rhs_inst_1_a10 : rhs_stmt (@k_eval_rhs_n1_a10 NumR) 1 [1; 0]%Z 2.
Proof. unfold rhs_stmt, k_eval_rhs_n1_a10. rhs_1. Qed.
(* fewer phase fractions than phases: IndexError, re-raised as ValueError by eval_rhs *)
Lemma eval_rhs_inst_1_a01_f1 : rhs_stmt (@k_eval_rhs_n1_a01_f1 NumR) 1 [0; 1]%Z 1.
Proof. unfold rhs_stmt, k_eval_rhs_n1_a01_f1. rhs_1. Qed.
