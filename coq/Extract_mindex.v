(* Extract_mindex.v -- extraction of the misorientation-index model (ExtrOcamlBasic only). *)
From Coq Require Import Extraction ExtrOcamlBasic.
From PV Require Import Num Model_mindex Entry_mindex.
Extraction Language OCaml.
Extraction "model_mindex.ml" run_qprod run_symops run_misangle run_angles run_hist run_random
  run_theory run_mindex_angles run_mindex run_mindex_full run_matq
  run_gen_qprod run_gen_random run_gen_index run_gen_symops.
