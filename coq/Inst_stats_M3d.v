(* Inst_stats_M3d.v -- instance lemmas for the generated resample_orientations, 1 snapshot x 3 grains, n_samples omitted (see Inst_stats.v) *)
From Coq Require Import Reals ZArith List Bool Lra Lia Permutation.
From PV Require Import Num NumR Model_stats Proofs_stats Inst_stats.
From PV.gen Require Import Gen_stats.
Import ListNotations.
Open Scope R_scope.

Lemma resample_inst_N1_M3_default :
  inst_stmt 1 3 None 3 (fun pis o f u => @k_resample_N1_M3_default NumR (A o) (A f) (A u) (p0 pis)).
Proof. inst_tac @k_resample_N1_M3_default. Qed.
