(* Proofs_tensors_maps.v -- the generated representation changes of pydrex.tensors:
   6x6 Voigt matrix <-> 4th-order tensor <-> 21-vector, and the two contractions. *)
From Coq Require Import Reals ZArith List Lra Lia Bool.
From PV Require Import Num NumR Model_voigt Proofs_tensors_alg Proofs_tensors_rot.
From PV.gen Require Import Gen_tensors.
Import ListNotations.
Open Scope R_scope.

(* ---------------------------------------------------------------------- *)
(* generic helpers                                                         *)
(* ---------------------------------------------------------------------- *)
Lemma ite_zero (x : R) : (if Reqb x 0 then 0 else x) = x.
Proof. destruct (Reqb x 0) eqn:E; [apply Reqb_true in E; lra | reflexivity]. Qed.
Lemma ite_same (b : bool) (x : R) : (if b then x else x) = x.
Proof. destruct b; reflexivity. Qed.
Ltac clean_ite := rewrite ?ite_zero, ?ite_same.

Lemma sqrt2_sq : sqrt 2 * sqrt 2 = 2.
Proof. apply sqrt_sqrt; lra. Qed.
Lemma sqrt2_pos : 0 < sqrt 2.
Proof. apply sqrt_lt_R0; lra. Qed.
Lemma sqrt2_neqb : Reqb (sqrt 2) 0 = false.
Proof. apply Reqb_false. pose proof sqrt2_pos. lra. Qed.

Ltac six_cases i := destruct i as [|[|[|[|[|[|i]]]]]]; [ | | | | | | exfalso; lia ].
Ltac three_c i := destruct i as [|[|[|i]]]; [ | | | exfalso; lia ].

(* the standard Voigt index map 11,22,33,23,13,12 -> 0..5 (0-based: p if p = q, else 6-p-q) *)
Definition vidx (p q : nat) : nat := if Nat.eqb p q then p else (6 - p - q)%nat.

Lemma vidx_lt p q : (p < 3)%nat -> (q < 3)%nat -> (vidx p q < 6)%nat.
Proof. intros Hp Hq; three_c p; three_c q; cbv; lia. Qed.
Lemma vidx_sym p q : vidx p q = vidx q p.
Proof.
  unfold vidx. destruct (Nat.eqb p q) eqn:E.
  - apply Nat.eqb_eq in E; subst; rewrite Nat.eqb_refl; reflexivity.
  - rewrite Nat.eqb_sym in E. rewrite E. lia.
Qed.

Definition sym6 (M : nat -> R) : Prop :=
  forall i j, (i < 6)%nat -> (j < 6)%nat -> mat6 M i j = mat6 M j i.

(* ---------------------------------------------------------------------- *)
(* voigt_to_elastic_tensor: exhaustive over the 81 index tuples            *)
(* ---------------------------------------------------------------------- *)
Theorem vte_index_exhaustive (M : arr NumR) : forall p q r s,
  (p < 3)%nat -> (q < 3)%nat -> (r < 3)%nat -> (s < 3)%nat ->
  t4 (k_voigt_to_elastic_tensor M) p q r s = mat6 M (vidx p q) (vidx r s).
Proof.
  intros p q r s Hp Hq Hr Hs; three_c p; three_c q; three_c r; three_c s; reflexivity.
Qed.

Theorem vte_symmetries (M : arr NumR) : sym6 M -> elastic_sym (t4 (k_voigt_to_elastic_tensor M)).
Proof.
  intros H. repeat split; intros a b c d Ha Hb Hc Hd; unfold sw12, sw34, swMaj;
    rewrite !vte_index_exhaustive by assumption.
  - rewrite (vidx_sym b a); reflexivity.
  - rewrite (vidx_sym d c); reflexivity.
  - apply H; apply vidx_lt; assumption.
Qed.

(* minor symmetries hold for every matrix *)
Theorem vte_minor_symmetries (M : arr NumR) :
  eq4b (sw12 (t4 (k_voigt_to_elastic_tensor M))) (t4 (k_voigt_to_elastic_tensor M)) /\
  eq4b (sw34 (t4 (k_voigt_to_elastic_tensor M))) (t4 (k_voigt_to_elastic_tensor M)).
Proof.
  split; intros a b c d Ha Hb Hc Hd; unfold sw12, sw34;
    rewrite !vte_index_exhaustive by assumption.
  - rewrite (vidx_sym b a); reflexivity.
  - rewrite (vidx_sym d c); reflexivity.
Qed.

(* ---------------------------------------------------------------------- *)
(* elastic_tensor_to_voigt: exhaustive over the 36 (i,j)                    *)
(* ---------------------------------------------------------------------- *)
(* index pairs (p,q) with vidx p q = i *)
Definition pre (i : nat) : list (nat * nat) :=
  match i with
  | 0 => [(0,0)] | 1 => [(1,1)] | 2 => [(2,2)]
  | 3 => [(1,2); (2,1)] | 4 => [(0,2); (2,0)] | _ => [(0,1); (1,0)]
  end%nat.

Lemma pre_complete p q : (p < 3)%nat -> (q < 3)%nat -> In (p, q) (pre (vidx p q)).
Proof. intros Hp Hq; three_c p; three_c q; cbn; tauto. Qed.
Lemma pre_sound i p q : (i < 6)%nat -> In (p, q) (pre i) -> vidx p q = i /\ (p < 3)%nat /\ (q < 3)%nat.
Proof.
  intros Hi; six_cases i; cbn; intros H;
  repeat (destruct H as [H|H]; [inversion H; subst; cbv; repeat split; lia|]); contradiction.
Qed.

Definition lsum (l : list R) : R := fold_right Rplus 0 l.
(* mean of the tensor entries whose index pairs map to (i, j) *)
Definition pre_mean (f : T4) (i j : nat) : R :=
  lsum (flat_map (fun pq => map (fun rs => f (fst pq) (snd pq) (fst rs) (snd rs)) (pre j)) (pre i))
  / (INR (length (pre i)) * INR (length (pre j))).

Theorem etv_index_exhaustive (T : arr NumR) : forall i j, (i < 6)%nat -> (j < 6)%nat ->
  mat6 (k_elastic_tensor_to_voigt T) i j = (pre_mean (t4 T) i j + pre_mean (t4 T) j i) / 2.
Proof.
  intros i j Hi Hj; six_cases i; six_cases j;
  lazy [k_elastic_tensor_to_voigt mat6 mk_arr nth pre_mean pre flat_map map app lsum fold_right
        length fst snd t4 Nat.add Nat.mul INR]; numR; field.
Qed.

Theorem etv_symmetric (T : arr NumR) : sym6 (k_elastic_tensor_to_voigt T).
Proof.
  intros i j Hi Hj. rewrite !etv_index_exhaustive by assumption. lra.
Qed.

(* ---------------------------------------------------------------------- *)
(* the two maps are mutually inverse on the symmetric subspaces            *)
(* ---------------------------------------------------------------------- *)
Lemma pre_mean_vte (M : arr NumR) i j : (i < 6)%nat -> (j < 6)%nat ->
  pre_mean (t4 (k_voigt_to_elastic_tensor M)) i j = mat6 M i j.
Proof.
  intros Hi Hj; six_cases i; six_cases j;
  lazy [k_voigt_to_elastic_tensor mat6 mk_arr nth pre_mean pre flat_map map app lsum fold_right
        length fst snd t4 Nat.add Nat.mul INR]; numR; field.
Qed.

Theorem etv_vte (M : arr NumR) : sym6 M -> forall i j, (i < 6)%nat -> (j < 6)%nat ->
  mat6 (k_elastic_tensor_to_voigt (k_voigt_to_elastic_tensor M)) i j = mat6 M i j.
Proof.
  intros H i j Hi Hj. rewrite etv_index_exhaustive, !pre_mean_vte by assumption.
  rewrite (H j i) by assumption. lra.
Qed.

(* on a tensor with the minor symmetries every entry of a pre-image class is the same *)
Lemma pre_mean_sym (f : T4) : eq4b (sw12 f) f -> eq4b (sw34 f) f ->
  forall p q r s, (p < 3)%nat -> (q < 3)%nat -> (r < 3)%nat -> (s < 3)%nat ->
  pre_mean f (vidx p q) (vidx r s) = f p q r s.
Proof.
  intros H1 H2 p q r s Hp Hq Hr Hs.
  assert (E1: forall a b c d, (a < 3)%nat -> (b < 3)%nat -> (c < 3)%nat -> (d < 3)%nat -> f b a c d = f a b c d)
    by (intros; apply (H1 a b c d); assumption).
  assert (E2: forall a b c d, (a < 3)%nat -> (b < 3)%nat -> (c < 3)%nat -> (d < 3)%nat -> f a b d c = f a b c d)
    by (intros; apply (H2 a b c d); assumption).
  three_c p; three_c q; three_c r; three_c s;
  cbv [pre_mean pre vidx Nat.eqb Nat.sub flat_map map app lsum fold_right length fst snd INR];
  repeat match goal with
  | |- context [f ?a ?b ?c ?d] =>
      first [ (assert_succeeds (assert (b < a)%nat by lia)); rewrite (E1 b a c d) by lia
            | (assert_succeeds (assert (d < c)%nat by lia)); rewrite (E2 a b d c) by lia ]
  end; field.
Qed.

Theorem vte_etv (T : arr NumR) : elastic_sym (t4 T) ->
  eq4b (t4 (k_voigt_to_elastic_tensor (k_elastic_tensor_to_voigt T))) (t4 T).
Proof.
  intros (H1 & H2 & H3) p q r s Hp Hq Hr Hs.
  rewrite vte_index_exhaustive by assumption.
  rewrite etv_index_exhaustive by (apply vidx_lt; assumption).
  rewrite !pre_mean_sym by assumption.
  rewrite <- (H3 p q r s) by assumption. unfold swMaj. lra.
Qed.

(* ---------------------------------------------------------------------- *)
(* contractions: voigt_decompose                                           *)
(* ---------------------------------------------------------------------- *)
Ltac sym_hyps M H :=
  pose proof (H 0 1 ltac:(lia) ltac:(lia))%nat; pose proof (H 0 2 ltac:(lia) ltac:(lia))%nat;
  pose proof (H 0 3 ltac:(lia) ltac:(lia))%nat; pose proof (H 0 4 ltac:(lia) ltac:(lia))%nat;
  pose proof (H 0 5 ltac:(lia) ltac:(lia))%nat; pose proof (H 1 2 ltac:(lia) ltac:(lia))%nat;
  pose proof (H 1 3 ltac:(lia) ltac:(lia))%nat; pose proof (H 1 4 ltac:(lia) ltac:(lia))%nat;
  pose proof (H 1 5 ltac:(lia) ltac:(lia))%nat; pose proof (H 2 3 ltac:(lia) ltac:(lia))%nat;
  pose proof (H 2 4 ltac:(lia) ltac:(lia))%nat; pose proof (H 2 5 ltac:(lia) ltac:(lia))%nat;
  pose proof (H 3 4 ltac:(lia) ltac:(lia))%nat; pose proof (H 3 5 ltac:(lia) ltac:(lia))%nat;
  pose proof (H 4 5 ltac:(lia) ltac:(lia))%nat;
  cbv [mat6 Nat.add Nat.mul] in *.

(* d_ij = C_ijkk  and  v_ik = C_ijkj  of the 4th-order tensor of a symmetric Voigt matrix *)
Theorem contractions (M : arr NumR) : sym6 M ->
  let C := t4 (k_voigt_to_elastic_tensor M) in
  eq2b (mat3 (fst (k_voigt_decompose M))) (dil4 C) /\
  eq2b (mat3 (snd (k_voigt_decompose M))) (dev4 C).
Proof.
  intros H C; subst C. sym_hyps M H.
  split; intros a b Ha Hb; three_c a; three_c b;
  lazy [k_voigt_decompose k_voigt_to_elastic_tensor fst snd mat3 dil4 dev4 sum3 t4 mk_arr nth
        Nat.add Nat.mul]; numR; clean_ite; lra.
Qed.

Theorem voigt_decompose_symmetric (M : arr NumR) :
  (forall i j, (i < 3)%nat -> (j < 3)%nat -> mat3 (fst (k_voigt_decompose M)) i j = mat3 (fst (k_voigt_decompose M)) j i) /\
  (forall i j, (i < 3)%nat -> (j < 3)%nat -> mat3 (snd (k_voigt_decompose M)) i j = mat3 (snd (k_voigt_decompose M)) j i).
Proof.
  split; intros a b Ha Hb; three_c a; three_c b;
  lazy [k_voigt_decompose fst snd mat3 mk_arr nth Nat.add Nat.mul]; numR; clean_ite; reflexivity.
Qed.

(* ---------------------------------------------------------------------- *)
(* 21-vector <-> symmetric 6x6                                             *)
(* ---------------------------------------------------------------------- *)
Theorem v2m_total (x : arr NumR) : exists M, k_voigt_vector_to_matrix x = Ok M.
Proof.
  unfold k_voigt_vector_to_matrix. numR. rewrite sqrt2_neqb. eexists; reflexivity.
Qed.

Theorem v2m_symmetric (x M : arr NumR) : k_voigt_vector_to_matrix x = Ok M -> sym6 M.
Proof.
  unfold k_voigt_vector_to_matrix. numR. rewrite sqrt2_neqb. intros E; inversion E; subst M; clear E.
  intros i j Hi Hj; six_cases i; six_cases j;
  lazy [mat6 mk_arr nth Nat.add Nat.mul]; clean_ite; reflexivity.
Qed.

Theorem m2v_v2m (x M : arr NumR) : k_voigt_vector_to_matrix x = Ok M ->
  forall k, (k < 21)%nat -> k_voigt_matrix_to_vector M k = x k.
Proof.
  unfold k_voigt_vector_to_matrix. numR. rewrite sqrt2_neqb. intros E; inversion E; subst M; clear E.
  intros k Hk. pose proof sqrt2_pos as Hs.
  do 21 (destruct k as [|k]; [lazy [k_voigt_matrix_to_vector mk_arr nth]; numR; clean_ite; field; lra|]).
  exfalso; lia.
Qed.

Theorem v2m_m2v (M M' : arr NumR) : sym6 M ->
  k_voigt_vector_to_matrix (k_voigt_matrix_to_vector M) = Ok M' ->
  forall i j, (i < 6)%nat -> (j < 6)%nat -> mat6 M' i j = mat6 M i j.
Proof.
  intros H. unfold k_voigt_vector_to_matrix. numR. rewrite sqrt2_neqb.
  intros E; inversion E; subst M'; clear E.
  pose proof sqrt2_pos as Hs. sym_hyps M H.
  intros i j Hi Hj; six_cases i; six_cases j;
  lazy [k_voigt_matrix_to_vector mk_arr nth Nat.add Nat.mul]; numR; clean_ite;
  repeat match goal with E : M _ = M _ |- _ => rewrite E; clear E end; field; lra.
Qed.

(* the 21-vector is an isometric image: sum of its squares = squared Frobenius norm of
   the 4th-order tensor *)
Theorem vector_norm_is_frobenius (M : arr NumR) : sym6 M ->
  sumsq 21 (k_voigt_matrix_to_vector M) = sumsq 81 (k_voigt_to_elastic_tensor M).
Proof.
  intros H. sym_hyps M H.
  lazy [sumsq seq fold_right k_voigt_matrix_to_vector k_voigt_to_elastic_tensor mk_arr nth]; numR.
  pose proof sqrt2_sq as Hs. set (s := sqrt 2) in *.
  repeat match goal with E : M _ = M _ |- _ => rewrite E; clear E end.
  ring [Hs].
Qed.
