(* Proofs_path6.v -- C04: frame indifference of the WHOLE integrated vector field and of its exact solutions.
   Proofs_frame2.derivs_frame proves that the solver kernel's rates co-rotate; Proofs_frame3.Fdot_frame that the
   F block does.  Here they are pushed through Model_minerals.rhs (extract_vars, the strain-rate scale, the
   assembly of the state vector):  with the rotated state
        rotS Q n y  =  (Q F Q^T,  A_g Q^T for every grain,  fractions unchanged)
   and the rotated velocity gradient  LQ Q L = Q L Q^T,  at every state whose grains lie inside the clip range
   in both frames (true of orthonormal grains),
        vf (LQ Q L) s (rotS Q n y) i  =  rotS Q n (vf L s y) i,
   and therefore t |-> rotS Q n (y t) is an exact solution of the rotated problem whenever y is one of the
   original problem: integrated textures co-rotate, volume fractions are identical, F -> Q F Q^T. *)
From Coq Require Import Reals ZArith List Bool Lra Lia.
From Coquelicot Require Import Coquelicot.
From PV Require Import Num NumR Model_core Model_minerals Proofs_core Proofs_total Proofs_minerals Proofs_rhs Proofs_flow
                       Proofs_frame Proofs_frame2 Proofs_frame3 Proofs_frame4 Proofs_path Proofs_path2 Proofs_path3 Proofs_gronwall Proofs_path4.
Import ListNotations.
Open Scope R_scope.

(* ---- the rotated state and velocity gradient ---------------------------------------------------------- *)
Definition rotS (Q : arr R) (n : nat) (y : nat -> R) : nat -> R := fun i =>
  if (i <? 9)%nat then conj Q y i
  else if (i <? 9 + 9 * n)%nat then mm (fun k => y (9 + 9 * ((i - 9) / 9) + k)%nat) (tp Q) ((i - 9) mod 9)
  else y i.

Definition LQ (Q : arr R) (L : list R) : list R := arr_to_list 9 (conj Q (@aol' NumR L)).

Lemma rotS_F Q n y i : (i < 9)%nat -> rotS Q n y i = conj Q y i.
Proof. intros H. unfold rotS. apply Nat.ltb_lt in H. rewrite H. reflexivity. Qed.

Lemma rotS_grain Q n y g k : (g < n)%nat -> (k < 9)%nat ->
  rotS Q n y (9 + 9 * g + k)%nat = mm (fun k' => y (9 + 9 * g + k')%nat) (tp Q) k.
Proof.
  intros Hg Hk. unfold rotS.
  assert (H1 : (9 + 9 * g + k <? 9)%nat = false) by (apply Nat.ltb_ge; lia).
  assert (H2 : (9 + 9 * g + k <? 9 + 9 * n)%nat = true) by (apply Nat.ltb_lt; nia).
  rewrite H1, H2.
  replace (9 + 9 * g + k - 9)%nat with (k + g * 9)%nat by lia.
  rewrite Nat.div_add by lia. rewrite Nat.mod_add by lia.
  rewrite Nat.div_small by exact Hk. rewrite Nat.mod_small by exact Hk.
  cbn [Nat.add]. reflexivity.
Qed.

Lemma rotS_vol Q n y i : (9 + 9 * n <= i)%nat -> rotS Q n y i = y i.
Proof.
  intros H. unfold rotS.
  assert (H1 : (i <? 9)%nat = false) by (apply Nat.ltb_ge; lia).
  assert (H2 : (i <? 9 + 9 * n)%nat = false) by (apply Nat.ltb_ge; lia).
  rewrite H1, H2. reflexivity.
Qed.

(* mm / conj only read indices below 9 of their arguments *)
Lemma mm_ext (A A' B B' : arr R) k :
  (forall j, (j < 9)%nat -> A j = A' j) -> (forall j, (j < 9)%nat -> B j = B' j) -> mm A B k = mm A' B' k.
Proof.
  intros HA HB. unfold mm. cbn [Nat.mul Nat.add].
  rewrite !HA, !HB by lia. reflexivity.
Qed.

Lemma mm_lt9 (A B : arr R) k : (9 <= k)%nat -> mm A B k = 0.
Proof. intros H. unfold mm, mk_arr. do 9 (destruct k as [|k]; [lia|]). destruct k; reflexivity. Qed.

Lemma tp_ext (A A' : arr R) k : (forall j, (j < 9)%nat -> A j = A' j) -> tp A k = tp A' k.
Proof. intros HA. unfold tp. rewrite !HA by lia. reflexivity. Qed.

Lemma conj_ext (Q G G' : arr R) k : (forall j, (j < 9)%nat -> G j = G' j) -> conj Q G k = conj Q G' k.
Proof.
  intros HG. unfold conj. apply mm_ext; [|reflexivity].
  intros j Hj. apply mm_ext; [reflexivity|exact HG].
Qed.

Lemma mm_zero_l (B : arr R) k : mm (fun _ => 0) B k = 0.
Proof. unfold mm, mk_arr. do 9 (destruct k as [|k]; [cbn [nth]; ring|]). destruct k; reflexivity. Qed.

Lemma conj_zero (Q : arr R) k : conj Q (fun _ => 0) k = 0.
Proof.
  unfold conj.
  rewrite (mm_ext (mm Q (fun _ => 0)) (fun _ => 0) (tp Q) (tp Q) k); [apply mm_zero_l| |reflexivity].
  intros j _. unfold mm, mk_arr. do 9 (destruct j as [|j]; [cbn [nth]; ring|]). destruct j; reflexivity.
Qed.

Lemma mm_scale_l (A B : arr R) s k : mm (fun j => A j * s) B k = mm A B k * s.
Proof. unfold mm, mk_arr. do 9 (destruct k as [|k]; [cbn [nth]; ring|]). destruct k; cbn [nth]; ring. Qed.

(* two 9-lists with the same entries are equal *)
Lemma list9_eq (l l' : list R) : length l = 9%nat -> length l' = 9%nat ->
  (forall k, (k < 9)%nat -> nth k l 0 = nth k l' 0) -> l = l'.
Proof.
  intros H1 H2 H. apply (nth_ext l l' 0 0); [congruence|]. intros k Hk. apply H. lia.
Qed.

Lemma arr_to_list9_nth (a : arr R) k : (k < 9)%nat -> nth k (arr_to_list 9 a) 0 = a k.
Proof.
  intros Hk. unfold arr_to_list. rewrite (nth_map_in a _ _ 0%nat 0) by (rewrite seq_length; exact Hk).
  rewrite seq_nth by exact Hk. reflexivity.
Qed.

Lemma LQ_length Q L : length (LQ Q L) = 9%nat.
Proof. reflexivity. Qed.

Lemma LQ_nth Q L k : (k < 9)%nat -> nth k (LQ Q L) 0 = conj Q (@aol' NumR L) k.
Proof. intros Hk. unfold LQ. apply arr_to_list9_nth. exact Hk. Qed.

(* ---- (iv) the scaled strain rate and velocity gradient handed to the kernel co-rotate ------------------ *)
Lemma mk_arr_ext9 (l l' : list R) : length l = 9%nat -> length l' = 9%nat ->
  (forall k, (k < 9)%nat -> nth k l 0 = nth k l' 0) -> mk_arr 0 l = mk_arr 0 l'.
Proof. intros H1 H2 H. f_equal. apply list9_eq; assumption. Qed.

Lemma mm_is_mk (A B : arr R) : mm A B = mk_arr 0 (arr_to_list 9 (mm A B)).
Proof. reflexivity. Qed.

Lemma nth_map_div (l : list R) s k : (k < length l)%nat -> nth k (map (fun x => x / s) l) 0 = nth k l 0 / s.
Proof. intros H. apply (nth_map_in (fun x => x / s) l k 0 0 H). Qed.

Lemma L_arr_frame (Q : arr R) (L : list R) (s : R) : length L = 9%nat ->
  @aol' NumR (map (fun x => x / s) (LQ Q L)) = conj Q (@aol' NumR (map (fun x => x / s) L)).
Proof.
  intros HL. unfold conj at 1. rewrite mm_is_mk. unfold aol' at 1.
  apply mk_arr_ext9; [rewrite map_length; reflexivity|reflexivity|].
  intros k Hk. rewrite nth_map_div by (rewrite LQ_length; exact Hk).
  rewrite LQ_nth by exact Hk. rewrite arr_to_list9_nth by exact Hk.
  destruct (list9 L HL) as [a0 [a1 [a2 [a3 [a4 [a5 [a6 [a7 [a8 ->]]]]]]]]].
  do 9 (destruct k as [|k]; [cbv [conj mm tp aol' mk_arr nth map Nat.mul Nat.add]; unfold Rdiv; ring|]). lia.
Qed.

Lemma D_arr_frame (Q : arr R) (L : list R) (s : R) : length L = 9%nat ->
  @aol' NumR (map (fun x => x / s) (@sym9 NumR (LQ Q L))) = conj Q (@aol' NumR (map (fun x => x / s) (@sym9 NumR L))).
Proof.
  intros HL. unfold conj at 1. rewrite mm_is_mk. unfold aol' at 1.
  apply mk_arr_ext9; [rewrite map_length; reflexivity|reflexivity|].
  intros k Hk. rewrite nth_map_div by (exact Hk).
  rewrite arr_to_list9_nth by exact Hk.
  destruct (list9 L HL) as [a0 [a1 [a2 [a3 [a4 [a5 [a6 [a7 [a8 ->]]]]]]]]].
  do 9 (destruct k as [|k];
        [cbv [sym9 LQ arr_to_list seq conj mm tp aol' mk_arr nth map Nat.mul Nat.add]; numR; unfold Rdiv; ring|]). lia.
Qed.

(* ---- (ii), (iii): what extract_vars hands to the kernel at the rotated state ----------------------------- *)
Lemma os_of_nth n (y : nat -> R) g d : (g < n)%nat ->
  nth g (os_of n y) d = @aol' NumR (firstn 9 (skipn (9 * g) (@ev_o NumR (ylist n y) n))).
Proof.
  intros Hg. unfold os_of.
  rewrite (nth_map_in (@aol' NumR) _ _ [] d) by (rewrite (chunks9_length 0); exact Hg).
  rewrite chunks9_nth by exact Hg. reflexivity.
Qed.

Lemma ev_o_chunk_length n (y : nat -> R) g : (g < n)%nat ->
  length (firstn 9 (skipn (9 * g) (@ev_o NumR (ylist n y) n))) = 9%nat.
Proof.
  intros Hg. rewrite firstn_length, skipn_length, ev_o_length by apply ylist_length. nia.
Qed.

Lemma ev_o_chunk_nth n (y : nat -> R) g k : (g < n)%nat -> (k < 9)%nat ->
  nth k (firstn 9 (skipn (9 * g) (@ev_o NumR (ylist n y) n))) 0 = @clip11 NumR (y (9 + 9 * g + k)%nat).
Proof.
  intros Hg Hk. rewrite <- (os_of_entry n y g k (@zeros9 NumR) Hg Hk). rewrite (os_of_nth n y g _ Hg). reflexivity.
Qed.

Lemma os_of_rotS (Q : arr R) n (y : nat -> R) :
  (forall g k, (g < n)%nat -> (k < 9)%nat -> -1 <= y (9 + 9 * g + k)%nat <= 1) ->
  (forall g k, (g < n)%nat -> (k < 9)%nat -> -1 <= rotS Q n y (9 + 9 * g + k)%nat <= 1) ->
  os_of n (rotS Q n y) = map (rotQ Q) (os_of n y).
Proof.
  intros Hy Hy'.
  apply (nth_ext _ _ (@zeros9 NumR) (rotQ Q (@zeros9 NumR))); [rewrite map_length, !os_of_length; reflexivity|].
  intros g Hg. rewrite os_of_length in Hg.
  rewrite (nth_map_in (rotQ Q) _ _ (@zeros9 NumR) _) by (rewrite os_of_length; exact Hg).
  rewrite !(os_of_nth _ _ g _ Hg).
  unfold rotQ. rewrite mm_is_mk. unfold aol' at 1.
  apply mk_arr_ext9; [apply ev_o_chunk_length; exact Hg|reflexivity|].
  intros k Hk. rewrite ev_o_chunk_nth by assumption. rewrite arr_to_list9_nth by exact Hk.
  rewrite clip11_id by (apply Hy'; assumption). rewrite rotS_grain by assumption.
  apply mm_ext; [|reflexivity].
  intros j Hj. unfold aol', mk_arr. rewrite ev_o_chunk_nth by assumption.
  symmetry. apply clip11_id. apply Hy; assumption.
Qed.

Lemma fs_of_rotS (Q : arr R) n (y : nat -> R) : fs_of n (rotS Q n y) = fs_of n y.
Proof.
  unfold fs_of, ev_f.
  assert (H : firstn n (skipn (9 * n + 9) (ylist n (rotS Q n y))) = firstn n (skipn (9 * n + 9) (ylist n y))).
  { apply (nth_ext _ _ 0 0).
    - rewrite !firstn_length, !skipn_length, !ylist_length. reflexivity.
    - intros g Hg. rewrite firstn_length, skipn_length, ylist_length in Hg.
      assert (Hgn : (g < n)%nat) by lia.
      rewrite !nth_firstn_lt by exact Hgn. rewrite !nth_skipn_gen. rewrite !ylist_nth by lia.
      apply rotS_vol. lia. }
  cbv zeta. change (T NumR) with R in *. rewrite H. reflexivity.
Qed.

(* ---- (i) the F block ---------------------------------------------------------------------------------- *)
Lemma ev_F_nth n (y : nat -> R) j : (j < 9)%nat -> nth j (@ev_F NumR (ylist n y)) 0 = y j.
Proof. intros Hj. unfold ev_F. rewrite nth_firstn_lt by exact Hj. apply ylist_nth. lia. Qed.

Lemma mat_mul9_is_mm (a b : list R) k : (k < 9)%nat ->
  nth k (@mat_mul9 NumR a b) 0 = mm (@aol' NumR a) (@aol' NumR b) k.
Proof. intros Hk. do 9 (destruct k as [|k]; [reflexivity|]). lia. Qed.

Lemma Fdot_rotS (Q : arr R) n (L : list R) (y : nat -> R) k : SO3 Q -> (k < 9)%nat ->
  nth k (@mat_mul9 NumR (LQ Q L) (@ev_F NumR (ylist n (rotS Q n y)))) 0 =
  conj Q (fun j => nth j (@mat_mul9 NumR L (@ev_F NumR (ylist n y))) 0) k.
Proof.
  intros HQ Hk. rewrite mat_mul9_is_mm by exact Hk.
  rewrite (mm_ext _ (conj Q (@aol' NumR L)) _ (conj Q y) k).
  - rewrite (Fdot_frame Q (@aol' NumR L) y k HQ Hk).
    apply conj_ext. intros j Hj. rewrite mat_mul9_is_mm by exact Hj.
    apply mm_ext; [reflexivity|]. intros i Hi. unfold aol', mk_arr. symmetry. apply ev_F_nth. exact Hi.
  - intros j Hj. unfold aol', mk_arr. apply LQ_nth. exact Hj.
  - intros j Hj. unfold aol', mk_arr. rewrite ev_F_nth by exact Hj. apply rotS_F. exact Hj.
Qed.

Lemma nth_repeat0 k m : nth k (repeat 0 m) 0 = 0.
Proof. revert k; induction m as [|m IH]; intros [|k]; cbn [repeat nth]; auto. Qed.

(* ---- the vector field, spelled out ---------------------------------------------------------------------- *)
Section Frame.
  Variables (regime ph fb : Z) (n : nat) (ass : list Z) (frs : list R) (Sd : list R) (p nn lam M : R).
  Local Notation vfm := (vf regime ph fb n ass frs Sd p nn lam M).

  Definition kernel_call (L : list R) (s : R) (y : nat -> R) (phi : R) :=
    @derivs NumR regime ph fb (os_of n y) (fs_of n y)
            (@aol' NumR (map (fun x => x / s) (@sym9 NumR L))) (@aol' NumR (map (fun x => x / s) L))
            (@aol' NumR Sd) p nn lam M phi.

  Lemma vf_unfold (L : list R) (s : R) (y : nat -> R) (i : nat) :
    vfm L s y i =
    match @lookup_fraction NumR ph ass frs with
    | Err _ => 0
    | Ok phi =>
        if Reqb s 0 then nth i (@mat_mul9 NumR L (@ev_F NumR (ylist n y)) ++ repeat 0 (10 * n)) 0
        else match kernel_call L s y phi with
             | Err _ => 0
             | Ok (Ads, fds) =>
                 nth i (@mat_mul9 NumR L (@ev_F NumR (ylist n y))
                        ++ map (fun x => x * s) (flat_map (arr_to_list 9) Ads) ++ map (fun x => x * s) fds) 0
             end
    end.
  Proof.
    unfold vf, rhs, kernel_call, os_of, fs_of.
    destruct (@lookup_fraction NumR ph ass frs) as [phi|e]; [|reflexivity].
    change (@eqb NumR s (@zero NumR)) with (Reqb s 0).
    destruct (Reqb s 0); [reflexivity|].
    destruct (@derivs NumR regime ph fb _ _ _ _ _ p nn lam M phi) as [[Ads fds]|e]; reflexivity.
  Qed.

  (* C04 for the whole vector field *)
  Theorem vf_frame (Q : arr R) (L : list R) (s : R) (y : nat -> R) (i : nat) :
    dislocation_regime regime -> valid_pair ph fb -> nn <> 0 -> SO3 Q -> length L = 9%nat ->
    (forall g k, (g < n)%nat -> (k < 9)%nat -> -1 <= y (9 + 9 * g + k)%nat <= 1) ->
    (forall g k, (g < n)%nat -> (k < 9)%nat -> -1 <= rotS Q n y (9 + 9 * g + k)%nat <= 1) ->
    (i < 9 + 10 * n)%nat ->
    vfm (LQ Q L) s (rotS Q n y) i = rotS Q n (vfm L s y) i.
  Proof.
    intros Hreg Hvp Hnn HQ HL Hy Hy' Hi.
    (* the three blocks of the right-hand side *)
    assert (HF : forall (X X' Y Y' : list R) k, (k < 9)%nat ->
              nth k (@mat_mul9 NumR (LQ Q L) (@ev_F NumR (ylist n (rotS Q n y))) ++ X' ++ Y') 0 =
              conj Q (fun j => nth j (@mat_mul9 NumR L (@ev_F NumR (ylist n y)) ++ X ++ Y) 0) k).
    { intros X X' Y Y' k Hk. rewrite app_nth1 by (rewrite mat_mul9_length; exact Hk).
      rewrite (Fdot_rotS Q n L y k HQ Hk). apply conj_ext. intros j Hj.
      rewrite app_nth1 by (rewrite mat_mul9_length; exact Hj). reflexivity. }
    rewrite (vf_unfold (LQ Q L) s (rotS Q n y) i).
    destruct (@lookup_fraction NumR ph ass frs) as [phi|e] eqn:Hl.
    2:{ (* phase not in the assemblage: both fields vanish *)
      assert (Hz : forall j, vfm L s y j = 0) by (intros j; rewrite vf_unfold, Hl; reflexivity).
      unfold rotS. destruct (i <? 9)%nat; [|destruct (i <? 9 + 9 * n)%nat].
      - rewrite (conj_ext Q _ (fun _ => 0) i (fun j _ => Hz j)). symmetry. apply conj_zero.
      - rewrite (mm_ext _ (fun _ => 0) _ (tp Q) _ (fun j _ => Hz _) (fun j _ => eq_refl)). symmetry. apply mm_zero_l.
      - symmetry. apply Hz. }
    destruct (Reqb s 0) eqn:Hs.
    { (* zero strain-rate scale: only the F block moves *)
      assert (Hv : forall j, vfm L s y j = nth j (@mat_mul9 NumR L (@ev_F NumR (ylist n y)) ++ repeat 0 (10 * n)) 0)
        by (intros j; rewrite vf_unfold, Hl, Hs; reflexivity).
      assert (Hz : forall j, (9 <= j)%nat -> vfm L s y j = 0).
      { intros j Hj. rewrite Hv. rewrite app_nth2 by (rewrite mat_mul9_length; exact Hj).
        apply nth_repeat0. }
      destruct (Nat.lt_ge_cases i 9) as [Hi9|Hi9].
      - rewrite rotS_F by exact Hi9.
        rewrite <- (app_nil_r (repeat 0 (10 * n))) at 1.
        rewrite (HF (repeat 0 (10 * n)) (repeat 0 (10 * n)) [] [] i Hi9).
        apply conj_ext. intros j Hj. rewrite app_nil_r. symmetry. apply Hv.
      - rewrite app_nth2 by (rewrite mat_mul9_length; exact Hi9).
        rewrite nth_repeat0.
        destruct (Nat.lt_ge_cases i (9 + 9 * n)) as [Hig|Hig].
        + set (g := ((i - 9) / 9)%nat). set (k := ((i - 9) mod 9)%nat).
          assert (Hk : (k < 9)%nat) by (apply Nat.mod_upper_bound; lia).
          assert (Hg : (g < n)%nat) by (apply Nat.div_lt_upper_bound; lia).
          assert (Hik : i = (9 + 9 * g + k)%nat) by (unfold g, k; pose proof (Nat.div_mod (i - 9) 9 ltac:(lia)); lia).
          rewrite Hik, rotS_grain by assumption.
          rewrite (mm_ext _ (fun _ => 0) _ (tp Q) k); [symmetry; apply mm_zero_l| |reflexivity].
          intros j _. apply Hz. lia.
        + rewrite rotS_vol by exact Hig. symmetry. apply Hz. lia. }
    (* the kernel is called *)
    assert (Hos : os_of n (rotS Q n y) = map (rotQ Q) (os_of n y)) by (apply os_of_rotS; assumption).
    assert (Hrel : derivs_related Q (kernel_call L s y phi) (kernel_call (LQ Q L) s (rotS Q n y) phi)).
    { unfold kernel_call. rewrite Hos, fs_of_rotS, (D_arr_frame Q L s HL), (L_arr_frame Q L s HL).
      apply derivs_frame; assumption. }
    assert (Hv : forall j, vfm L s y j =
              match kernel_call L s y phi with
              | Err _ => 0
              | Ok (Ads, fds) => nth j (@mat_mul9 NumR L (@ev_F NumR (ylist n y))
                                        ++ map (fun x => x * s) (flat_map (arr_to_list 9) Ads) ++ map (fun x => x * s) fds) 0
              end) by (intros j; rewrite vf_unfold, Hl, Hs; reflexivity).
    destruct (kernel_call L s y phi) as [[Ads fds]|e] eqn:Hk1;
      destruct (kernel_call (LQ Q L) s (rotS Q n y) phi) as [[Ads' fds']|e'] eqn:Hk2;
      cbn [derivs_related] in Hrel; try contradiction.
    2:{ (* the kernel raises in both frames: both fields vanish *)
      unfold rotS. destruct (i <? 9)%nat; [|destruct (i <? 9 + 9 * n)%nat].
      - rewrite (conj_ext Q _ (fun _ => 0) i (fun j _ => Hv j)). symmetry. apply conj_zero.
      - rewrite (mm_ext _ (fun _ => 0) _ (tp Q) _ (fun j _ => Hv _) (fun j _ => eq_refl)). symmetry. apply mm_zero_l.
      - symmetry. apply Hv. }
    destruct Hrel as [Hfds HAds].
    destruct (derivs_lengths regime ph fb p nn lam M _ _ _ _ _ _ _ _
                (eq_trans (fs_of_length n y) (eq_sym (os_of_length n y))) Hk1) as [HlA Hlf].
    rewrite os_of_length in HlA, Hlf.
    pose proof (Forall2_length' _ _ _ HAds) as HlA'.
    destruct (Nat.lt_ge_cases i 9) as [Hi9|Hi9].
    - rewrite rotS_F by exact Hi9.
      rewrite (HF (map (fun x => x * s) (flat_map (arr_to_list 9) Ads)) _ (map (fun x => x * s) fds) _ i Hi9).
      apply conj_ext. intros j Hj. symmetry. apply Hv.
    - destruct (Nat.lt_ge_cases i (9 + 9 * n)) as [Hig|Hig].
      + set (g := ((i - 9) / 9)%nat). set (k := ((i - 9) mod 9)%nat).
        assert (Hk : (k < 9)%nat) by (apply Nat.mod_upper_bound; lia).
        assert (Hg : (g < n)%nat) by (apply Nat.div_lt_upper_bound; lia).
        assert (Hik : i = (9 + 9 * g + k)%nat) by (unfold g, k; pose proof (Nat.div_mod (i - 9) 9 ltac:(lia)); lia).
        rewrite Hik, rotS_grain by assumption.
        assert (Hent : forall (As : list (arr R)) (fd : list R) (F0 : list R) j, length As = n -> length F0 = 9%nat -> (j < 9)%nat ->
                  nth (9 + 9 * g + j) (F0 ++ map (fun x => x * s) (flat_map (arr_to_list 9) As) ++ map (fun x => x * s) fd) 0
                  = nth g As (@zeros9 NumR) j * s).
        { intros As fd F0 j HAs HF0 Hj.
          rewrite nth_orient; [|exact HF0|rewrite map_length, flat9_length; change (T NumR) with R in *; nia].
          rewrite (nth_map_in (fun x => x * s) _ _ 0 0) by (rewrite flat9_length; change (T NumR) with R in *; nia).
          rewrite (flat9_nth As (@zeros9 NumR)) by (try exact Hj; change (T NumR) with R in *; lia).
          reflexivity. }
        rewrite (Hent Ads' fds' _ k) by (try reflexivity; try exact Hk; change (T NumR) with R in *; lia).
        rewrite (mm_ext _ (fun j => nth g Ads (@zeros9 NumR) j * s) _ (tp Q) k).
        * rewrite mm_scale_l. f_equal.
          pose proof (Forall2_nth _ _ _ (@zeros9 NumR) (@zeros9 NumR) HAds g ltac:(change (T NumR) with R in *; lia)) as Hg2.
          apply Hg2. exact Hk.
        * intros j Hj. rewrite Hv. apply Hent; [change (T NumR) with R in *; lia|reflexivity|exact Hj].
        * reflexivity.
      + rewrite rotS_vol by exact Hig. rewrite Hv. subst fds'.
        replace i with (9 + 9 * n + (i - (9 + 9 * n)))%nat by lia.
        rewrite !nth_vol; try reflexivity;
          rewrite map_length, flat9_length; change (T NumR) with R in *; lia.
  Qed.
End Frame.

Ltac dsub H :=
  match type of H with
  | is_derive ?f ?t ?l => try (replace (Derive (fun x : R => f x) t) with l by (symmetry; apply is_derive_unique; exact H))
  end.

(* ---- rotS is linear with constant coefficients: it commutes with d/dt ---------------------------------- *)
Lemma rotS_derive (Q : arr R) n (y : nat -> R -> R) (yd : nat -> R) (t : R) i :
  (forall j, (j < 9 + 10 * n)%nat -> is_derive (y j) t (yd j)) -> (i < 9 + 10 * n)%nat ->
  is_derive (fun u => rotS Q n (fun j => y j u) i) t (rotS Q n yd i).
Proof.
  intros Hy Hi.
  destruct (Nat.lt_ge_cases i 9) as [Hi9|Hi9].
  - apply (is_derive_ext (fun u => conj Q (fun j => y j u) i)); [intros u; symmetry; apply rotS_F; exact Hi9|].
    rewrite rotS_F by exact Hi9.
    pose proof (Hy 0%nat ltac:(lia)) as H0; pose proof (Hy 1%nat ltac:(lia)) as H1; pose proof (Hy 2%nat ltac:(lia)) as H2;
    pose proof (Hy 3%nat ltac:(lia)) as H3; pose proof (Hy 4%nat ltac:(lia)) as H4; pose proof (Hy 5%nat ltac:(lia)) as H5;
    pose proof (Hy 6%nat ltac:(lia)) as H6; pose proof (Hy 7%nat ltac:(lia)) as H7; pose proof (Hy 8%nat ltac:(lia)) as H8.
    do 9 (destruct i as [|i];
      [cbv [conj mm tp mk_arr nth Nat.mul Nat.add]; auto_derive;
       [repeat split; eexists; eassumption
       |dsub H0; dsub H1; dsub H2; dsub H3; dsub H4; dsub H5; dsub H6; dsub H7; dsub H8; ring]|]).
    lia.
  - destruct (Nat.lt_ge_cases i (9 + 9 * n)) as [Hig|Hig].
    + set (g := ((i - 9) / 9)%nat). set (k := ((i - 9) mod 9)%nat).
      assert (Hk : (k < 9)%nat) by (apply Nat.mod_upper_bound; lia).
      assert (Hg : (g < n)%nat) by (apply Nat.div_lt_upper_bound; lia).
      assert (Hik : i = (9 + 9 * g + k)%nat) by (unfold g, k; pose proof (Nat.div_mod (i - 9) 9 ltac:(lia)); lia).
      rewrite Hik.
      apply (is_derive_ext (fun u => mm (fun k' => y (9 + 9 * g + k')%nat u) (tp Q) k));
        [intros u; symmetry; apply (rotS_grain Q n (fun j => y j u) g k Hg Hk)|].
      rewrite rotS_grain by assumption.
      pose proof (Hy (9 + 9 * g + 0)%nat ltac:(lia)) as H0; pose proof (Hy (9 + 9 * g + 1)%nat ltac:(lia)) as H1;
      pose proof (Hy (9 + 9 * g + 2)%nat ltac:(lia)) as H2; pose proof (Hy (9 + 9 * g + 3)%nat ltac:(lia)) as H3;
      pose proof (Hy (9 + 9 * g + 4)%nat ltac:(lia)) as H4; pose proof (Hy (9 + 9 * g + 5)%nat ltac:(lia)) as H5;
      pose proof (Hy (9 + 9 * g + 6)%nat ltac:(lia)) as H6; pose proof (Hy (9 + 9 * g + 7)%nat ltac:(lia)) as H7;
      pose proof (Hy (9 + 9 * g + 8)%nat ltac:(lia)) as H8.
      generalize dependent (9 + 9 * g)%nat. intros b0 _ H0 H1 H2 H3 H4 H5 H6 H7 H8.
      do 9 (destruct k as [|k];
        [cbv [mm tp mk_arr nth Nat.mul]; cbn [Nat.add]; auto_derive;
         [repeat split; eexists; eassumption
         |dsub H0; dsub H1; dsub H2; dsub H3; dsub H4; dsub H5; dsub H6; dsub H7; dsub H8; ring]|]).
      lia.
    + apply (is_derive_ext (y i)); [intros u; symmetry; apply rotS_vol; exact Hig|].
      rewrite rotS_vol by exact Hig. apply Hy. exact Hi.
Qed.

(* ---- exact solutions co-rotate --------------------------------------------------------------------------- *)
Section SolutionFrame.
  Variables (regime ph fb : Z) (n : nat) (ass : list Z) (frs : list R) (Sd : list R) (p nn lam M : R).
  Variable Lh : R -> list R.
  Variable sh : R -> R.
  Variable Q : arr R.

  (* the rotated trajectory *)
  Definition rotY (y : nat -> R -> R) (i : nat) (t : R) : R := rotS Q n (fun j => y j t) i.

  (* C04, integrated: if y is an exact solution for the velocity-gradient history L(t) then the rotated trajectory
     (Q F Q^T, A_g Q^T, same volume fractions) is an exact solution for Q L(t) Q^T with the SAME strain-rate scale,
     as long as the grains stay inside the clip range in both frames *)
  Theorem solution_frame (y : nat -> R -> R) (a b : R) :
    dislocation_regime regime -> valid_pair ph fb -> nn <> 0 -> SO3 Q ->
    (forall t, length (Lh t) = 9%nat) ->
    (forall i t, a <= t <= b -> is_derive (y i) t (f regime ph fb n ass frs Sd p nn lam M Lh sh t (fun j => y j t) i)) ->
    (forall g k t, (g < n)%nat -> (k < 9)%nat -> a <= t <= b -> -1 <= y (9 + 9 * g + k)%nat t <= 1) ->
    (forall g k t, (g < n)%nat -> (k < 9)%nat -> a <= t <= b -> -1 <= rotY y (9 + 9 * g + k)%nat t <= 1) ->
    forall i t, (i < 9 + 10 * n)%nat -> a <= t <= b ->
      is_derive (rotY y i) t
        (f regime ph fb n ass frs Sd p nn lam M (fun u => LQ Q (Lh u)) sh t (fun j => rotY y j t) i).
  Proof.
    intros Hreg Hvp Hnn HQ HL Hsol Hy Hy' i t Hi Ht.
    unfold f.
    change (fun j => rotY y j t) with (rotS Q n (fun j => y j t)).
    rewrite (vf_frame regime ph fb n ass frs Sd p nn lam M Q (Lh t) (sh t) (fun j => y j t) i Hreg Hvp Hnn HQ (HL t)
               (fun g k Hg Hk => Hy g k t Hg Hk Ht) (fun g k Hg Hk => Hy' g k t Hg Hk Ht) Hi).
    unfold rotY. apply rotS_derive; [|exact Hi].
    intros j _. apply (Hsol j t Ht).
  Qed.
End SolutionFrame.


(* ---- ... for textures of orthonormal grains, with no assumption on the clip ---------------------------------- *)
Theorem solution_frame_orthonormal
  (regime ph fb : Z) (n : nat) (ass : list Z) (frs Sd : list R) (p nn lam M : R) (Lh : R -> list R) (sh : R -> R)
  (Q : arr R) (y : nat -> R -> R) (a b B : R) :
  dislocation_regime regime -> valid_pair ph fb -> nn <> 0 -> SO3 Q -> a <= b ->
  (forall t, length (Lh t) = 9%nat) ->
  (forall i t, a <= t <= b -> is_derive (y i) t (f regime ph fb n ass frs Sd p nn lam M Lh sh t (fun j => y j t) i)) ->
  (forall g k t, (g < n)%nat -> (k < 9)%nat -> a <= t <= b ->
     Rabs (f regime ph fb n ass frs Sd p nn lam M Lh sh t (fun j => y j t) (9 + 9 * g + k)%nat) <= B) ->
  (forall g r r', (g < n)%nat -> (r < 3)%nat -> (r' < 3)%nat ->
     gram (grainA y g) r r' a = if Nat.eqb r r' then 1 else 0) ->
  forall i t, (i < 9 + 10 * n)%nat -> a <= t <= b ->
    is_derive (rotY n Q y i) t
      (f regime ph fb n ass frs Sd p nn lam M (fun u => LQ Q (Lh u)) sh t (fun j => rotY n Q y j t) i).
Proof.
  intros Hreg Hvp Hnn HQ Hab HL Hsol HB Horth.
  assert (Hclip : forall g k t, (g < n)%nat -> (k < 9)%nat -> a <= t <= b -> -1 <= y (9 + 9 * g + k)%nat t <= 1).
  { intros g k t Hg Hk Ht.
    apply (solution_clip_inactive regime ph fb n ass frs Sd p nn lam M Lh sh y a b B g Hreg Hab Hg Hsol
             (fun k0 t0 Hk0 Ht0 => HB g k0 t0 Hg Hk0 Ht0) (fun r r' Hr Hr' => Horth g r r' Hg Hr Hr') k t Hk Ht). }
  apply (solution_frame regime ph fb n ass frs Sd p nn lam M Lh sh Q y a b Hreg Hvp Hnn HQ HL Hsol Hclip).
  intros g k t Hg Hk Ht. unfold rotY. rewrite rotS_grain by assumption.
  pose proof (solution_orthonormal_invariant regime ph fb n ass frs Sd p nn lam M Lh sh y a b B g Hreg Hab Hg Hsol
                (fun k0 t0 Hk0 Ht0 => HB g k0 t0 Hg Hk0 Ht0) (fun r r' Hr Hr' => Horth g r r' Hg Hr Hr') t Ht) as Hinv.
  replace k with (3 * (k / 3) + k mod 3)%nat by (symmetry; apply Nat.div_mod; lia).
  assert (Hr : (k / 3 < 3)%nat) by (apply Nat.div_lt_upper_bound; lia).
  assert (Hq : (k mod 3 < 3)%nat) by (apply Nat.mod_upper_bound; lia).
  apply rot_row_in_range; try assumption.
  pose proof (Hinv (k / 3)%nat (k / 3)%nat Hr Hr) as Hn. rewrite Nat.eqb_refl in Hn.
  unfold gram, grainA in Hn. rewrite Nat.add_0_r in Hn. exact Hn.
Qed.

(* non-vacuity: a rotation about z by the 3-4-5 angle is in SO3, and the grains of the constant solution
   y0_example are orthonormal (the remaining hypotheses: C01_solution_invariance_nonvacuous) *)
Definition Q345 : arr R := mk_arr 0 [3/5; -4/5; 0;  4/5; 3/5; 0;  0; 0; 1].

Lemma Q345_SO3 : SO3 Q345.
Proof. constructor; cbv [Q345 mk_arr nth]; field. Qed.

Lemma frame_solution_nonvacuous_proof :
  SO3 Q345 /\ valid_pair 0 0 /\ (3.5 <> 0) /\
  (forall g r r', (g < 2)%nat -> (r < 3)%nat -> (r' < 3)%nat ->
     gram (grainA (fun (i : nat) (_ : R) => y0_example i) g) r r' 0 = if Nat.eqb r r' then 1 else 0).
Proof.
  split; [exact Q345_SO3|]. split; [left; split; [reflexivity|left; reflexivity]|]. split; [lra|].
  intros g r r' Hg Hr Hr'.
  destruct g as [|[|g]]; [| |lia];
    (destruct r as [|[|[|r]]]; [| | |lia]); (destruct r' as [|[|[|r']]]; [| | |lia]);
    unfold gram, grainA, y0_example; cbn [Nat.add Nat.mul nth Nat.eqb]; ring.
Qed.
