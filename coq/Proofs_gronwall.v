(* Proofs_gronwall.v -- invariance of the orthonormal set under a flow whose rate is skew with respect to the
   CLIPPED orientation (what extract_vars hands to the solver kernel), for rates bounded on [a,b].

   The vector field integrated by LSODA is  A' = W(clip A) . clip A  (clip to [-1,1] entrywise).  C03 proves
   Ad.(clip A)^T + (clip A).Ad^T = 0.  While the clip is inactive this makes every entry of A.A^T a first
   integral (Proofs_flow.orthonormality_first_integral), but that the clip STAYS inactive for a solution
   starting orthonormal was an assumption on the trajectory.  Here it is proved:
      e(t) = sum_{r,r'} ((A A^T)[r,r'] - delta_{rr'})^2   satisfies   e' <= 12 B e,
   B a bound of the grain's rate entries on [a,b], because the clip excess |a - clip a| is at most
   |(A A^T)[r,r] - 1| / 2; Gronwall with e(a) = 0 gives e = 0 on [a,b]. *)
From Coq Require Import Reals Lra Lia.
From Coquelicot Require Import Coquelicot.
Open Scope R_scope.

(* ---- Gronwall, zero initial value ------------------------------------------------------------------- *)
Lemma gronwall_zero (e e' : R -> R) (a b C : R) :
  a <= b ->
  (forall t, a <= t <= b -> is_derive e t (e' t)) ->
  (forall t, a <= t <= b -> 0 <= e t) ->
  (forall t, a <= t <= b -> e' t <= C * e t) ->
  e a = 0 ->
  forall t, a <= t <= b -> e t = 0.
Proof.
  intros Hab Hd Hpos Hle Ha t Ht.
  set (g := fun u => e u * exp (- C * u)).
  assert (Hg : forall u, a <= u <= b -> is_derive g u ((e' u - C * e u) * exp (- C * u))).
  { intros u Hu. unfold g. pose proof (Hd u Hu) as Hdu.
    auto_derive.
    - first [eexists; exact Hdu | split; [eexists; exact Hdu|exact I]].
    - replace (Derive (fun x : R => e x) u) with (e' u) by (symmetry; apply is_derive_unique; exact Hdu). ring. }
  assert (Hgt : g t <= g a).
  { destruct (Req_dec a t) as [->|Hne]; [lra|].
    destruct (MVT_gen g a t (fun u => (e' u - C * e u) * exp (- C * u))) as [c [Hc Heq]].
    - intros x Hx. rewrite Rmin_left, Rmax_right in Hx by lra. apply Hg. lra.
    - intros x Hx. rewrite Rmin_left, Rmax_right in Hx by lra.
      apply derivable_continuous_pt. apply ex_derive_Reals_0. eexists. apply Hg. lra.
    - rewrite Rmin_left, Rmax_right in Hc by lra.
      assert (Hcc : a <= c <= b) by lra.
      pose proof (Hle c Hcc) as H1. pose proof (exp_pos (- C * c)) as H2.
      assert ((e' c - C * e c) * exp (- C * c) * (t - a) <= 0).
      { assert ((e' c - C * e c) * exp (- C * c) <= 0) by nra. nra. }
      lra. }
  unfold g in Hgt. rewrite Ha, Rmult_0_l in Hgt.
  pose proof (exp_pos (- C * t)) as H3. pose proof (Hpos t Ht) as H4.
  nra.
Qed.

(* ---- the clip and its excess ------------------------------------------------------------------------- *)
Definition clipR (x : R) : R := Rmax (-1) (Rmin 1 x).

Lemma clipR_id x : -1 <= x <= 1 -> clipR x = x.
Proof. intros H. unfold clipR. rewrite Rmin_right by lra. apply Rmax_right. lra. Qed.

Lemma clipR_hi x : 1 <= x -> clipR x = 1.
Proof. intros H. unfold clipR. rewrite Rmin_left by lra. apply Rmax_right. lra. Qed.

Lemma clipR_lo x : x <= -1 -> clipR x = -1.
Proof. intros H. unfold clipR. rewrite Rmin_right by lra. apply Rmax_left. lra. Qed.

(* the excess of one entry over its clip is at most half the defect of the row's squared norm *)
Lemma excess_bound (x u v : R) : Rabs (x - clipR x) <= Rabs (x * x + u * u + v * v - 1) / 2.
Proof.
  destruct (Rle_dec x (-1)) as [Hlo|Hlo].
  - rewrite clipR_lo by exact Hlo.
    rewrite (Rabs_left1 (x - -1)) by lra. rewrite Rabs_right by nra. nra.
  - destruct (Rle_dec 1 x) as [Hhi|Hhi].
    + rewrite clipR_hi by exact Hhi.
      rewrite (Rabs_right (x - 1)) by lra. rewrite Rabs_right by nra. nra.
    + rewrite clipR_id by lra. replace (x - x) with 0 by ring. rewrite Rabs_R0.
      pose proof (Rabs_pos (x * x + u * u + v * v - 1)). lra.
Qed.

(* ---- one Gram entry: 2 d G' <= 3 B (d^2 + (dr^2 + dr'^2)/2) ------------------------------------------ *)
Lemma abs_mul_le (a x B X : R) : Rabs a <= B -> Rabs x <= X -> Rabs (a * x) <= B * X.
Proof.
  intros Ha Hx. rewrite Rabs_mult. pose proof (Rabs_pos a). pose proof (Rabs_pos x). nra.
Qed.

Lemma gram_term_bound (B d dr dr' : R) (a0 a1 a2 b0 b1 b2 x0 x1 x2 z0 z1 z2 : R) :
  0 <= B ->
  Rabs a0 <= B -> Rabs a1 <= B -> Rabs a2 <= B -> Rabs b0 <= B -> Rabs b1 <= B -> Rabs b2 <= B ->
  Rabs x0 <= Rabs dr / 2 -> Rabs x1 <= Rabs dr / 2 -> Rabs x2 <= Rabs dr / 2 ->
  Rabs z0 <= Rabs dr' / 2 -> Rabs z1 <= Rabs dr' / 2 -> Rabs z2 <= Rabs dr' / 2 ->
  2 * d * (a0 * z0 + a1 * z1 + a2 * z2 + (x0 * b0 + x1 * b1 + x2 * b2))
  <= 3 * B * (d * d + (dr * dr + dr' * dr') / 2).
Proof.
  intros HB Ha0 Ha1 Ha2 Hb0 Hb1 Hb2 Hx0 Hx1 Hx2 Hz0 Hz1 Hz2.
  set (S := a0 * z0 + a1 * z1 + a2 * z2 + (x0 * b0 + x1 * b1 + x2 * b2)).
  assert (HS : Rabs S <= B * (3 * (Rabs dr' / 2) + 3 * (Rabs dr / 2))).
  { unfold S.
    pose proof (abs_mul_le a0 z0 _ _ Ha0 Hz0). pose proof (abs_mul_le a1 z1 _ _ Ha1 Hz1).
    pose proof (abs_mul_le a2 z2 _ _ Ha2 Hz2).
    pose proof (abs_mul_le b0 x0 _ _ Hb0 Hx0). pose proof (abs_mul_le b1 x1 _ _ Hb1 Hx1).
    pose proof (abs_mul_le b2 x2 _ _ Hb2 Hx2).
    rewrite (Rmult_comm x0 b0), (Rmult_comm x1 b1), (Rmult_comm x2 b2).
    eapply Rle_trans; [apply Rabs_triang|].
    eapply Rle_trans; [apply Rplus_le_compat; [eapply Rle_trans; [apply Rabs_triang|apply Rplus_le_compat; [eapply Rle_trans; [apply Rabs_triang|]|]]
                                              |eapply Rle_trans; [apply Rabs_triang|apply Rplus_le_compat; [eapply Rle_trans; [apply Rabs_triang|]|]]]|];
      try eassumption; try (apply Rplus_le_compat; eassumption); try apply Rle_refl.
    lra. }
  assert (H1 : 2 * d * S <= 2 * (Rabs d * Rabs S)).
  { rewrite <- Rabs_mult. pose proof (Rle_abs (d * S)). lra. }
  pose proof (Rabs_pos d) as Pd. pose proof (Rabs_pos dr) as Pr. pose proof (Rabs_pos dr') as Pr'.
  pose proof (Rabs_pos S) as PS.
  assert (Hd2 : d * d = Rabs d * Rabs d) by (rewrite <- Rabs_mult; symmetry; apply Rabs_right; nra).
  assert (Hr2 : dr * dr = Rabs dr * Rabs dr) by (rewrite <- Rabs_mult; symmetry; apply Rabs_right; nra).
  assert (Hr2' : dr' * dr' = Rabs dr' * Rabs dr') by (rewrite <- Rabs_mult; symmetry; apply Rabs_right; nra).
  rewrite Hd2, Hr2, Hr2'.
  set (D := Rabs d) in *. set (R1 := Rabs dr) in *. set (R2 := Rabs dr') in *. set (SS := Rabs S) in *.
  assert (H2 : D * SS <= D * (B * (3 * (R2 / 2) + 3 * (R1 / 2)))) by (apply Rmult_le_compat_l; assumption).
  pose proof (Rle_0_sqr (D - R1)) as H3. pose proof (Rle_0_sqr (D - R2)) as H4. unfold Rsqr in H3, H4.
  assert (K : D * (R1 + R2) <= D * D + (R1 * R1 + R2 * R2) / 2) by lra.
  assert (K2 : 3 * B * (D * (R1 + R2)) <= 3 * B * (D * D + (R1 * R1 + R2 * R2) / 2)).
  { apply Rmult_le_compat_l; [lra|exact K]. }
  lra.
Qed.

(* ---- the invariance theorem for one 3x3 block --------------------------------------------------------- *)
Section Invariance.
  Variables A Ad : nat -> nat -> R -> R.          (* entries A p q t and their rates Ad p q t *)
  Variables a b B : R.
  Hypothesis Hab : a <= b.
  Hypothesis HA : forall p q t, (p < 3)%nat -> (q < 3)%nat -> a <= t <= b -> is_derive (A p q) t (Ad p q t).
  Hypothesis HB : forall p q t, (p < 3)%nat -> (q < 3)%nat -> a <= t <= b -> Rabs (Ad p q t) <= B.
  (* the rate is skew with respect to the CLIPPED matrix *)
  Hypothesis Hskew : forall r r' t, (r < 3)%nat -> (r' < 3)%nat -> a <= t <= b ->
    Ad r 0%nat t * clipR (A r' 0%nat t) + Ad r 1%nat t * clipR (A r' 1%nat t) + Ad r 2%nat t * clipR (A r' 2%nat t)
    + (clipR (A r 0%nat t) * Ad r' 0%nat t + clipR (A r 1%nat t) * Ad r' 1%nat t + clipR (A r 2%nat t) * Ad r' 2%nat t) = 0.

  Definition G (r r' : nat) (t : R) : R :=
    A r 0%nat t * A r' 0%nat t + A r 1%nat t * A r' 1%nat t + A r 2%nat t * A r' 2%nat t.
  Definition Gd (r r' : nat) (t : R) : R :=
    Ad r 0%nat t * A r' 0%nat t + Ad r 1%nat t * A r' 1%nat t + Ad r 2%nat t * A r' 2%nat t
    + (A r 0%nat t * Ad r' 0%nat t + A r 1%nat t * Ad r' 1%nat t + A r 2%nat t * Ad r' 2%nat t).
  Definition dl (r r' : nat) : R := if Nat.eqb r r' then 1 else 0.
  Definition d (r r' : nat) (t : R) : R := G r r' t - dl r r'.

  Lemma G_derive r r' t : (r < 3)%nat -> (r' < 3)%nat -> a <= t <= b -> is_derive (G r r') t (Gd r r' t).
  Proof.
    intros Hr Hr' Ht. unfold G, Gd.
    pose proof (HA r 0%nat t Hr ltac:(lia) Ht) as H0. pose proof (HA r 1%nat t Hr ltac:(lia) Ht) as H1.
    pose proof (HA r 2%nat t Hr ltac:(lia) Ht) as H2.
    pose proof (HA r' 0%nat t Hr' ltac:(lia) Ht) as G0. pose proof (HA r' 1%nat t Hr' ltac:(lia) Ht) as G1.
    pose proof (HA r' 2%nat t Hr' ltac:(lia) Ht) as G2.
    auto_derive.
    - repeat split; eexists; eassumption.
    - replace (Derive (fun x : R => A r 0%nat x) t) with (Ad r 0%nat t) by (symmetry; apply is_derive_unique; exact H0).
      replace (Derive (fun x : R => A r 1%nat x) t) with (Ad r 1%nat t) by (symmetry; apply is_derive_unique; exact H1).
      replace (Derive (fun x : R => A r 2%nat x) t) with (Ad r 2%nat t) by (symmetry; apply is_derive_unique; exact H2).
      replace (Derive (fun x : R => A r' 0%nat x) t) with (Ad r' 0%nat t) by (symmetry; apply is_derive_unique; exact G0).
      replace (Derive (fun x : R => A r' 1%nat x) t) with (Ad r' 1%nat t) by (symmetry; apply is_derive_unique; exact G1).
      replace (Derive (fun x : R => A r' 2%nat x) t) with (Ad r' 2%nat t) by (symmetry; apply is_derive_unique; exact G2).
      ring.
  Qed.

  Lemma B_nonneg : 0 <= B.
  Proof.
    pose proof (HB 0%nat 0%nat a ltac:(lia) ltac:(lia) ltac:(lra)) as H. pose proof (Rabs_pos (Ad 0%nat 0%nat a)). lra.
  Qed.

  (* the rate of a Gram entry only sees the clip excess *)
  Lemma Gd_excess r r' t : (r < 3)%nat -> (r' < 3)%nat -> a <= t <= b ->
    Gd r r' t =
      Ad r 0%nat t * (A r' 0%nat t - clipR (A r' 0%nat t)) + Ad r 1%nat t * (A r' 1%nat t - clipR (A r' 1%nat t))
      + Ad r 2%nat t * (A r' 2%nat t - clipR (A r' 2%nat t))
      + ((A r 0%nat t - clipR (A r 0%nat t)) * Ad r' 0%nat t + (A r 1%nat t - clipR (A r 1%nat t)) * Ad r' 1%nat t
         + (A r 2%nat t - clipR (A r 2%nat t)) * Ad r' 2%nat t).
  Proof. intros Hr Hr' Ht. pose proof (Hskew r r' t Hr Hr' Ht) as H. unfold Gd. lra. Qed.

  Lemma excess_row r q t : (r < 3)%nat -> (q < 3)%nat ->
    Rabs (A r q t - clipR (A r q t)) <= Rabs (d r r t) / 2.
  Proof.
    intros Hr Hq. unfold d, G, dl. rewrite Nat.eqb_refl.
    destruct q as [|[|[|q]]]; [| | |lia].
    - eapply Rle_trans; [apply (excess_bound _ (A r 1%nat t) (A r 2%nat t))|]. match goal with |- Rabs ?u / 2 <= Rabs ?v / 2 => replace v with u by ring; apply Rle_refl end.
    - eapply Rle_trans; [apply (excess_bound _ (A r 0%nat t) (A r 2%nat t))|]. match goal with |- Rabs ?u / 2 <= Rabs ?v / 2 => replace v with u by ring; apply Rle_refl end.
    - eapply Rle_trans; [apply (excess_bound _ (A r 0%nat t) (A r 1%nat t))|]. match goal with |- Rabs ?u / 2 <= Rabs ?v / 2 => replace v with u by ring; apply Rle_refl end.
  Qed.

  Lemma term_le r r' t : (r < 3)%nat -> (r' < 3)%nat -> a <= t <= b ->
    2 * d r r' t * Gd r r' t
    <= 3 * B * (d r r' t * d r r' t + (d r r t * d r r t + d r' r' t * d r' r' t) / 2).
  Proof.
    intros Hr Hr' Ht. rewrite (Gd_excess r r' t Hr Hr' Ht).
    apply gram_term_bound; try apply B_nonneg;
      try (apply HB; [assumption|lia|assumption]); apply excess_row; (assumption || lia).
  Qed.

  Definition e (t : R) : R :=
    d 0 0 t * d 0 0 t + d 0 1 t * d 0 1 t + d 0 2 t * d 0 2 t
    + d 1 0 t * d 1 0 t + d 1 1 t * d 1 1 t + d 1 2 t * d 1 2 t
    + d 2 0 t * d 2 0 t + d 2 1 t * d 2 1 t + d 2 2 t * d 2 2 t.
  Definition ed (t : R) : R :=
    2 * d 0 0 t * Gd 0 0 t + 2 * d 0 1 t * Gd 0 1 t + 2 * d 0 2 t * Gd 0 2 t
    + 2 * d 1 0 t * Gd 1 0 t + 2 * d 1 1 t * Gd 1 1 t + 2 * d 1 2 t * Gd 1 2 t
    + 2 * d 2 0 t * Gd 2 0 t + 2 * d 2 1 t * Gd 2 1 t + 2 * d 2 2 t * Gd 2 2 t.

  Lemma e_derive t : a <= t <= b -> is_derive e t (ed t).
  Proof.
    intros Ht. unfold e, ed, d.
    pose proof (G_derive 0 0 t ltac:(lia) ltac:(lia) Ht) as H00. pose proof (G_derive 0 1 t ltac:(lia) ltac:(lia) Ht) as H01.
    pose proof (G_derive 0 2 t ltac:(lia) ltac:(lia) Ht) as H02. pose proof (G_derive 1 0 t ltac:(lia) ltac:(lia) Ht) as H10.
    pose proof (G_derive 1 1 t ltac:(lia) ltac:(lia) Ht) as H11. pose proof (G_derive 1 2 t ltac:(lia) ltac:(lia) Ht) as H12.
    pose proof (G_derive 2 0 t ltac:(lia) ltac:(lia) Ht) as H20. pose proof (G_derive 2 1 t ltac:(lia) ltac:(lia) Ht) as H21.
    pose proof (G_derive 2 2 t ltac:(lia) ltac:(lia) Ht) as H22.
    auto_derive.
    - repeat split; eexists; eassumption.
    - replace (Derive (fun x : R => G 0 0 x) t) with (Gd 0 0 t) by (symmetry; apply is_derive_unique; exact H00).
      replace (Derive (fun x : R => G 0 1 x) t) with (Gd 0 1 t) by (symmetry; apply is_derive_unique; exact H01).
      replace (Derive (fun x : R => G 0 2 x) t) with (Gd 0 2 t) by (symmetry; apply is_derive_unique; exact H02).
      replace (Derive (fun x : R => G 1 0 x) t) with (Gd 1 0 t) by (symmetry; apply is_derive_unique; exact H10).
      replace (Derive (fun x : R => G 1 1 x) t) with (Gd 1 1 t) by (symmetry; apply is_derive_unique; exact H11).
      replace (Derive (fun x : R => G 1 2 x) t) with (Gd 1 2 t) by (symmetry; apply is_derive_unique; exact H12).
      replace (Derive (fun x : R => G 2 0 x) t) with (Gd 2 0 t) by (symmetry; apply is_derive_unique; exact H20).
      replace (Derive (fun x : R => G 2 1 x) t) with (Gd 2 1 t) by (symmetry; apply is_derive_unique; exact H21).
      replace (Derive (fun x : R => G 2 2 x) t) with (Gd 2 2 t) by (symmetry; apply is_derive_unique; exact H22).
      ring.
  Qed.

  Lemma e_nonneg t : 0 <= e t.
  Proof. unfold e. nra. Qed.

  Lemma ed_le t : a <= t <= b -> ed t <= 12 * B * e t.
  Proof.
    intros Ht. unfold ed.
    pose proof (term_le 0 0 t ltac:(lia) ltac:(lia) Ht). pose proof (term_le 0 1 t ltac:(lia) ltac:(lia) Ht).
    pose proof (term_le 0 2 t ltac:(lia) ltac:(lia) Ht). pose proof (term_le 1 0 t ltac:(lia) ltac:(lia) Ht).
    pose proof (term_le 1 1 t ltac:(lia) ltac:(lia) Ht). pose proof (term_le 1 2 t ltac:(lia) ltac:(lia) Ht).
    pose proof (term_le 2 0 t ltac:(lia) ltac:(lia) Ht). pose proof (term_le 2 1 t ltac:(lia) ltac:(lia) Ht).
    pose proof (term_le 2 2 t ltac:(lia) ltac:(lia) Ht).
    pose proof B_nonneg as HB0. unfold e.
    set (x00 := d 0 0 t * d 0 0 t) in *. set (x11 := d 1 1 t * d 1 1 t) in *. set (x22 := d 2 2 t * d 2 2 t) in *.
    set (x01 := d 0 1 t * d 0 1 t) in *. set (x02 := d 0 2 t * d 0 2 t) in *. set (x10 := d 1 0 t * d 1 0 t) in *.
    set (x12 := d 1 2 t * d 1 2 t) in *. set (x20 := d 2 0 t * d 2 0 t) in *. set (x21 := d 2 1 t * d 2 1 t) in *.
    assert (0 <= x00) by (unfold x00; nra). assert (0 <= x11) by (unfold x11; nra). assert (0 <= x22) by (unfold x22; nra).
    assert (0 <= x01) by (unfold x01; nra). assert (0 <= x02) by (unfold x02; nra). assert (0 <= x10) by (unfold x10; nra).
    assert (0 <= x12) by (unfold x12; nra). assert (0 <= x20) by (unfold x20; nra). assert (0 <= x21) by (unfold x21; nra).
    nra.
  Qed.

  (* orthonormal at a  =>  orthonormal on the whole of [a,b] *)
  Theorem orthonormal_invariant :
    (forall r r', (r < 3)%nat -> (r' < 3)%nat -> G r r' a = dl r r') ->
    forall t, a <= t <= b -> forall r r', (r < 3)%nat -> (r' < 3)%nat -> G r r' t = dl r r'.
  Proof.
    intros Ha t Ht.
    assert (He : e t = 0).
    { apply (gronwall_zero e ed a b (12 * B) Hab); try assumption.
      - intros u Hu. apply e_derive. exact Hu.
      - intros u _. apply e_nonneg.
      - intros u Hu. apply ed_le. exact Hu.
      - unfold e, d. rewrite !Ha by lia. ring. }
    unfold e in He.
    assert (Hz : forall x, 0 <= x * x) by (intros; nra).
    pose proof (Hz (d 0 0 t)); pose proof (Hz (d 0 1 t)); pose proof (Hz (d 0 2 t)); pose proof (Hz (d 1 0 t));
    pose proof (Hz (d 1 1 t)); pose proof (Hz (d 1 2 t)); pose proof (Hz (d 2 0 t)); pose proof (Hz (d 2 1 t));
    pose proof (Hz (d 2 2 t)).
    assert (Hsq : forall x, x * x = 0 -> x = 0) by (intros x Hx; nra).
    intros r r' Hr Hr'.
    assert (Hd0 : d r r' t = 0).
    { destruct r as [|[|[|r]]]; [| | |lia]; (destruct r' as [|[|[|r']]]; [| | |lia]); apply Hsq; lra. }
    unfold d in Hd0. lra.
  Qed.

  (* hence every entry stays in [-1,1]: the clip is inactive along the whole solution *)
  Corollary entries_in_range :
    (forall r r', (r < 3)%nat -> (r' < 3)%nat -> G r r' a = dl r r') ->
    forall t, a <= t <= b -> forall r q, (r < 3)%nat -> (q < 3)%nat -> -1 <= A r q t <= 1.
  Proof.
    intros Ha t Ht r q Hr Hq.
    pose proof (orthonormal_invariant Ha t Ht r r Hr Hr) as Hn. unfold G, dl in Hn. rewrite Nat.eqb_refl in Hn.
    destruct q as [|[|[|q]]]; [| | |lia]; nra.
  Qed.
End Invariance.
