(* Inst_stats_N2.v -- instance lemmas for the generated resample_orientations, 2 snapshots x 2 grains, n_samples = 1, 2 (see Inst_stats.v) *)
From Coq Require Import Reals ZArith List Bool Lra Lia Permutation.
From PV Require Import Num NumR Model_stats Proofs_stats Inst_stats.
From PV.gen Require Import Gen_stats.
Import ListNotations.
Open Scope R_scope.

Lemma resample_inst_N2_M2_n1 :
  inst_stmt 2 2 (Some 1%Z) 1 (fun pis o f u => @k_resample_N2_M2_n1 NumR (A o) (A f) (A u) (p0 pis) (p1 pis)).
Proof. inst_tac @k_resample_N2_M2_n1. Qed.
Lemma resample_inst_N2_M2_n2 :
  inst_stmt 2 2 (Some 2%Z) 2 (fun pis o f u => @k_resample_N2_M2_n2 NumR (A o) (A f) (A u) (p0 pis) (p1 pis)).
Proof. inst_tac @k_resample_N2_M2_n2. Qed.
