
type __ = Obj.t

type nat =
| O
| S of nat

val fst : ('a1 * 'a2) -> 'a1

val snd : ('a1 * 'a2) -> 'a2

val app : 'a1 list -> 'a1 list -> 'a1 list

val add : nat -> nat -> nat

val mul : nat -> nat -> nat

type positive =
| XI of positive
| XO of positive
| XH

type z =
| Z0
| Zpos of positive
| Zneg of positive

module Pos :
 sig
  val eqb : positive -> positive -> bool
 end

module Z :
 sig
  val eqb : z -> z -> bool
 end

val nth : nat -> 'a1 list -> 'a1 -> 'a1

val map : ('a1 -> 'a2) -> 'a1 list -> 'a2 list

val flat_map : ('a1 -> 'a2 list) -> 'a1 list -> 'a2 list

val fold_left : ('a1 -> 'a2 -> 'a1) -> 'a2 list -> 'a1 -> 'a1

val firstn : nat -> 'a1 list -> 'a1 list

val skipn : nat -> 'a1 list -> 'a1 list

val seq : nat -> nat -> nat list

type num = { nzero : __; none : __; npi : __; nofZ : (z -> __);
             nadd : (__ -> __ -> __); nsub : (__ -> __ -> __);
             nmul : (__ -> __ -> __); ndiv : (__ -> __ -> __);
             nopp : (__ -> __); nabs : (__ -> __); nsqrt : (__ -> __);
             nexp : (__ -> __); ncos : (__ -> __); nsin : (__ -> __);
             nacos : (__ -> __); natan : (__ -> __); npow : (__ -> __ -> __);
             natan2 : (__ -> __ -> __); nltb : (__ -> __ -> bool);
             nleb : (__ -> __ -> bool); neqb : (__ -> __ -> bool) }

type t = __

type err =
| DivZero
| ValueError
| AssertionError
| NonFinite
| IndexError
| TypeError
| KeyError
| OtherError

type 'a res =
| Ok of 'a
| Err of err

type 'x arr = nat -> 'x

val mk_arr : 'a1 -> 'a1 list -> 'a1 arr

val arr_to_list : nat -> 'a1 arr -> 'a1 list

type perm4 =
| P0123
| P0132
| P0213
| P0231
| P0312
| P0321
| P1023
| P1032
| P1203
| P1230
| P1302
| P1320
| P2013
| P2031
| P2103
| P2130
| P2301
| P2310
| P3012
| P3021
| P3102
| P3120
| P3201
| P3210

val perm4_of_list : nat list -> perm4

val ins_stable : num -> t arr -> nat -> nat list -> nat list

val argsort4 : num -> t arr -> perm4

val k_get_slip_invariants : num -> t arr -> t arr -> t arr

val k_get_deformation_rate : num -> z -> t arr -> t arr -> t arr

val k_get_slip_rate_softest : num -> t arr -> t arr -> t res

val k_get_orientation_change : num -> t arr -> t arr -> t arr -> t -> t arr

val k_get_slip_rates_olivine_s_1_2_3_inf :
  num -> t arr -> perm4 -> t -> t arr res

val k_get_strain_energy_s_1_2_3_inf :
  num -> t arr -> perm4 -> t -> t -> t -> t -> t res

val k_get_slip_rates_olivine_s_3_2_1_inf :
  num -> t arr -> perm4 -> t -> t arr res

val k_get_strain_energy_s_3_2_1_inf :
  num -> t arr -> perm4 -> t -> t -> t -> t -> t res

val k_get_slip_rates_olivine_s_3_2_inf_1 :
  num -> t arr -> perm4 -> t -> t arr res

val k_get_strain_energy_s_3_2_inf_1 :
  num -> t arr -> perm4 -> t -> t -> t -> t -> t res

val k_get_slip_rates_olivine_s_1_1_3_inf :
  num -> t arr -> perm4 -> t -> t arr res

val k_get_strain_energy_s_1_1_3_inf :
  num -> t arr -> perm4 -> t -> t -> t -> t -> t res

val k_get_slip_rates_olivine_s_3_1_2_inf :
  num -> t arr -> perm4 -> t -> t arr res

val k_get_strain_energy_s_3_1_2_inf :
  num -> t arr -> perm4 -> t -> t -> t -> t -> t res

val k_get_strain_energy_s_inf_inf_inf_1 :
  num -> t arr -> perm4 -> t -> t -> t -> t -> t res

val k_get_rotation_and_strain :
  num -> z -> z -> t arr -> t arr -> t arr -> t -> t -> t -> (t arr * t) res

val k_derivatives_n1 :
  num -> z -> z -> z -> t arr -> t arr -> t arr -> t arr -> t arr -> t -> t
  -> t -> t -> t -> (t arr * t arr) res

val k_derivatives_n2 :
  num -> z -> z -> z -> t arr -> t arr -> t arr -> t arr -> t arr -> t -> t
  -> t -> t -> t -> (t arr * t arr) res

val k_derivatives_n3 :
  num -> z -> z -> z -> t arr -> t arr -> t arr -> t arr -> t arr -> t -> t
  -> t -> t -> t -> (t arr * t arr) res

val sumf : num -> t list -> t

val map2 : ('a1 -> 'a2 -> 'a3) -> 'a1 list -> 'a2 list -> 'a3 list

val zeros9 : num -> t arr

val scale9 : num -> t -> t arr -> t arr

val copy9 : num -> t arr -> t arr

val grains :
  num -> z -> z -> t arr list -> t arr -> t arr -> t -> t -> t -> (t arr * t)
  list res

val three_tenths : num -> t

val frac_rates : num -> t option -> t -> t -> t list -> t list -> t list

val derivs :
  num -> z -> z -> z -> t arr list -> t list -> t arr -> t arr -> t arr -> t
  -> t -> t -> t -> t -> (t arr list * t list) res

val aol : num -> t list -> t arr

val chunks : num -> nat -> nat -> t list -> t arr list

val take : num -> nat -> t list -> t list * t list

val run_derivs : num -> z -> z -> z -> nat -> t list -> t list res

val run_kderivs : num -> z -> z -> z -> nat -> t list -> t list res
