(* Model_mindex.v -- hand-written executable model of the misorientation index
   (pydrex.utils.quat_product, pydrex.geometry.symmetry_operations / misorientation_angles,
   pydrex.stats.misorientation_hist / misorientations_random / _max_misorientation,
   pydrex.diagnostics.misorientation_index / misorientation_indices), any number of
   grains.  scipy's Rotation.as_quat is an ORACLE (argument `as_quat`).  The quaternion
   product carries a variant parameter: `Dropped` is what the source computes
   (cross(q1, q1) = 0 instead of cross(q1, q2)), `Hamilton` is the quaternion product.
   Quaternions are scalar-last (x, y, z, w).  No proofs in this file. *)
From Coq Require Import ZArith List Bool.
From PV Require Import Num.
Import ListNotations.
Local Open Scope num_scope.

Inductive QuatVariant := Dropped | Hamilton.

(* LatticeSystem members; the value (M, N) of the enum *)
Inductive Lattice := Triclinic | Monoclinic | Orthorhombic | Rhombohedral | Tetragonal | Hexagonal.

Definition lattice_MN (s : Lattice) : Z * Z :=
  match s with
  | Triclinic => (1, 1) | Monoclinic => (2, 2) | Orthorhombic => (2, 4)
  | Rhombohedral => (3, 6) | Tetragonal => (4, 8) | Hexagonal => (6, 12)
  end%Z.

(* stats._max_misorientation *)
Definition theta_max (s : Lattice) : nat :=
  match s with
  | Orthorhombic | Rhombohedral => 120
  | Tetragonal | Hexagonal => 90
  | Triclinic | Monoclinic => 180
  end%nat.

Definition lattice_of_code (c : Z) : option Lattice :=
  match c with
  | 0 => Some Triclinic | 1 => Some Monoclinic | 2 => Some Orthorhombic
  | 3 => Some Rhombohedral | 4 => Some Tetragonal | 5 => Some Hexagonal | _ => None
  end%Z.

Section Model.
  Context {F : Num}.

  Definition quat : Type := (F * F * F * F)%type.
  Definition qx (q : quat) : F := fst (fst (fst q)).
  Definition qy (q : quat) : F := snd (fst (fst q)).
  Definition qz (q : quat) : F := snd (fst q).
  Definition qw (q : quat) : F := snd q.

  Definition msum (l : list F) : F :=
    match l with [] => zero | x :: xs => fold_left add xs x end.

  (* utils.quat_product: [*q1[-1]*q2[:3] + q2[-1]*q1[:3] + cross(.,.), q1[-1]*q2[-1] - dot] *)
  Definition qprod (v : QuatVariant) (p q : quat) : quat :=
    let '(x1, y1, z1, w1) := p in
    let '(x2, y2, z2, w2) := q in
    let '(cx, cy, cz) :=
      match v with
      | Dropped => (y1 * z1 - z1 * y1, z1 * x1 - x1 * z1, x1 * y1 - y1 * x1)   (* cross(q1, q1) *)
      | Hamilton => (y1 * z2 - z1 * y2, z1 * x2 - x1 * z2, x1 * y2 - y1 * x2)  (* cross(q1, q2) *)
      end in
    ((w1 * x2 + w2 * x1) + cx, (w1 * y2 + w2 * y1) + cy, (w1 * z2 + w2 * z1) + cz,
     w1 * w2 - ((x1 * x2 + y1 * y2) + z1 * z2)).

  (* a symmetry operation: a rotation quaternion (applied with quat_product) or a 4x4
     diagonal "reflection" matrix (applied to the quaternion as a 4-vector) *)
  Inductive symop := Rot (s : quat) | Refl (d : quat).

  Definition apply_op (v : QuatVariant) (o : symop) (q : quat) : quat :=
    match o with
    | Rot s => qprod v s q
    | Refl d => (qx d * qx q, qy d * qy q, qz d * qz q, qw d * qw q)
    end.

  (* Rotation.from_rotvec(k * pi / n * e_axis).as_quat() = (e sin(t/2), cos(t/2)) *)
  Definition rotq (axis : nat) (k n : Z) : quat :=
    let t := ofZ k * npi / ofZ n in
    let s := nsin (t / ofZ 2) in let c := ncos (t / ofZ 2) in
    match axis with
    | 0%nat => (s, zero, zero, c)
    | 1%nat => (zero, s, zero, c)
    | _ => (zero, zero, s, c)
    end.
  Definition qid : quat := (zero, zero, zero, one).
  Definition m1 : F := opp one.

  (* for vector in [z, y, x] for i in ks : from_rotvec(i * pi / n * vector) *)
  Definition rots (n : Z) (ks : list Z) : list symop :=
    flat_map (fun ax => map (fun k => Rot (rotq ax k n)) ks) [2%nat; 1%nat; 0%nat].

  (* geometry.symmetry_operations *)
  Definition symmetry_operations (s : Lattice) : list symop :=
    match s with
    | Triclinic => [Rot qid]
    | Monoclinic | Orthorhombic =>
        Rot qid :: rots 1 [1%Z]
        ++ [Refl (one, m1, m1, one); Refl (one, m1, one, m1); Refl (one, one, m1, m1)]
    | Rhombohedral => Rot qid :: rots 3 [1; 2]%Z
    | Tetragonal => Rot qid :: rots 2 [1; 2; 3]%Z
    | Hexagonal => Rot qid :: rots 3 [1; 2]%Z ++ rots 6 [1; 3; 5]%Z
    end.

  Definition qdot (p q : quat) : F :=
    ((qx p * qx q + qy p * qy q) + qz p * qz q) + qw p * qw q.
  Definition clip1 (x : F) : F :=
    if nltb x m1 then m1 else if nltb one x then one else x.
  Definition rad2deg (x : F) : F := x * (ofZ 180 / npi).
  Definition deg2rad (x : F) : F := x * (npi / ofZ 180).

  (* one entry of geometry.misorientation_angles *)
  Definition ang1 (p q : quat) : F :=
    ofZ 2 * rad2deg (nacos (nabs (clip1 (qdot p q)))).

  Definition fmin (a b : F) : F := if nltb b a then b else a.
  Definition lmin (l : list F) : F :=
    match l with [] => zero | x :: xs => fold_left fmin xs x end.

  (* minimum over all operator pairs (i, j), i outer *)
  Definition pair_angle (v : QuatVariant) (ops : list symop) (q1 q2 : quat) : F :=
    lmin (flat_map (fun s => map (fun t => ang1 (apply_op v s q1) (apply_op v t q2)) ops) ops).

  (* itertools.combinations(l, 2) *)
  Fixpoint pairs {A} (l : list A) : list (A * A) :=
    match l with
    | [] => []
    | x :: xs => map (pair x) xs ++ pairs xs
    end.

  Definition angles (v : QuatVariant) (s : Lattice) (qs : list quat) : list F :=
    map (fun pq => pair_angle v (symmetry_operations s) (fst pq) (snd pq)) (pairs qs).

  (* np.histogram(data, bins=n, range=(0, n), density=True): unit bins [k, k+1), the
     last one closed; values outside [0, n] are ignored *)
  Definition in_bin (n k : nat) : F -> bool :=
    let lo := ofZ (Z.of_nat k) in let hi := ofZ (Z.of_nat (S k)) in
    let last := Nat.eqb (S k) n in
    fun x => nleb lo x && (if last then nleb x hi else nltb x hi).
  Definition count_bin (n k : nat) (xs : list F) : Z :=
    Z.of_nat (length (filter (in_bin n k) xs)).
  Definition hist_counts (n : nat) (xs : list F) : list Z :=
    map (fun k => count_bin n k xs) (seq 0 n).
  Definition hist_density (n : nat) (xs : list F) : list F :=
    let cs := hist_counts n xs in
    let tot := fold_left Z.add cs 0%Z in
    map (fun c => (ofZ c / one) / ofZ tot) cs.

  (* stats.misorientations_random: the expected density at one bin edge *)
  Definition ntan (x : F) : F := nsin x / ncos x.
  Fixpoint round_upto (n : nat) (k : Z) (x : F) : Z :=
    match n with
    | O => k
    | S n' => if nltb x (ofZ k + ofZ 1 / ofZ 2) then k else round_upto n' (k + 1)%Z x
    end.

  Definition density_const_a (M : Z) : F := ntan (deg2rad (ofZ 90 / ofZ M)).
  Definition density_const_b (M : Z) : F :=
    let a := density_const_a M in ofZ 2 * rad2deg (natan (nsqrt (one + a * a))).
  Definition density_const_c (M : Z) : Z :=
    let a := density_const_a M in
    round_upto 400 0 (ofZ 2 * rad2deg (natan (nsqrt (one + ofZ 2 * (a * a))))).

  Definition between (lo x hi : F) : bool := nleb lo x && nleb x hi.

  Definition branch4 (Mz : Z) (e : F) : F :=
    let M := ofZ Mz in let a := density_const_a Mz in
    let d := deg2rad e in
    let t := ntan (deg2rad (e / ofZ 2)) in
    let nu := t * t in
    (M / ofZ 90) *
    (((M + a) * nsin d - M * (one - ncos d))
     + (M / ofZ 180)
       * ((one - ncos d)
          * (rad2deg (nacos ((one - nu * ncos (deg2rad (ofZ 180 / M))) / (nu - one)))
             + ofZ 2 * rad2deg (nacos (a / (nsqrt (nu - a * a) * nsqrt (nu - one)))))
          - (ofZ 2 * nsin d)
            * (ofZ 2 * rad2deg (nacos (a / nsqrt (nu - one)))
               + a * rad2deg (nacos (one / nsqrt (nu - a * a)))))).

  Definition density_edge (s : Lattice) (e : F) : res F :=
    let '(Mz, Nz) := lattice_MN s in
    let M := ofZ Mz in let N := ofZ Nz in
    let d := deg2rad e in
    if between zero e (ofZ 180 / M) then Ok ((N / ofZ 180) * (one - ncos d))
    else if between (ofZ 180 / M) e ((ofZ 180 * M) / N) then
      Ok (((N / ofZ 180) * density_const_a Mz) * nsin d)
    else if between (ofZ 90) e (density_const_b Mz) then
      Ok ((M / ofZ 90) * ((M + density_const_a Mz) * nsin d - M * (one - ncos d)))
    else if between (density_const_b Mz) e (ofZ (density_const_c Mz)) then Ok (branch4 Mz e)
    else Err AssertionError.

  Definition misorientations_random (low high : F) (s : Lattice) : res F :=
    if negb (nleb zero low && nleb low high && nleb high (ofZ (Z.of_nat (theta_max s))))
    then Err ValueError
    else
      match density_edge s low with
      | Err e => Err e
      | Ok a =>
          match density_edge s high with
          | Err e => Err e
          | Ok b => Ok ((a + b) / ofZ 2)
          end
      end.

  Fixpoint collect {A} (l : list (res A)) : res (list A) :=
    match l with
    | [] => Ok []
    | Ok a :: l' => match collect l' with Ok r => Ok (a :: r) | Err e => Err e end
    | Err e :: _ => Err e
    end.

  Definition theory (s : Lattice) : res (list F) :=
    collect (map (fun k => misorientations_random (ofZ (Z.of_nat k)) (ofZ (Z.of_nat (S k))) s)
                 (seq 0 (theta_max s))).

  Fixpoint map2 {A B C} (f : A -> B -> C) (l1 : list A) (l2 : list B) : list C :=
    match l1, l2 with
    | a :: l1', b :: l2' => f a b :: map2 f l1' l2'
    | _, _ => []
    end.

  (* Skemer et al. (2005) eq. 2 from the two densities *)
  Definition m_of (n : nat) (th obs : list F) : F :=
    (ofZ (Z.of_nat n) / ofZ (2 * Z.of_nat (length obs))) * msum (map2 (fun t o => nabs (t - o)) th obs).

  (* diagnostics.misorientation_index given the pair angles (the histogram runs first,
     then the theoretical densities, which may raise) *)
  Definition mindex_of_angles (s : Lattice) (angs : list F) : res F :=
    let obs := hist_density (theta_max s) angs in
    match theory s with
    | Err e => Err e
    | Ok th => Ok (m_of (theta_max s) th obs)
    end.

  Definition mindex_quats (v : QuatVariant) (s : Lattice) (qs : list quat) : res F :=
    mindex_of_angles s (angles v s qs).

  Definition mat9 : Type := list F.
  Definition misorientation_index (as_quat : mat9 -> quat) (v : QuatVariant) (s : Lattice)
             (os : list mat9) : res F :=
    mindex_quats v s (map as_quat os).

  (* diagnostics.misorientation_indices: imap over the stack, order preserving *)
  Definition misorientation_indices (as_quat : mat9 -> quat) (v : QuatVariant) (s : Lattice)
             (stack : list (list mat9)) : res (list F) :=
    collect (map (misorientation_index as_quat v s) stack).

  (* rotation matrix (row-major) of a unit quaternion, scipy convention *)
  Definition mat_of_quat (q : quat) : list F :=
    let '(x, y, z, w) := q in
    let two := ofZ 2 in
    [ ((x * x - y * y) - z * z) + w * w; two * (x * y - z * w); two * (x * z + y * w);
      two * (x * y + z * w); ((y * y - x * x) - z * z) + w * w; two * (y * z - x * w);
      two * (x * z - y * w); two * (y * z + x * w); ((z * z - x * x) - y * y) + w * w ].
End Model.
