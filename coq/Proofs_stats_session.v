(* Proofs_stats_session.v -- resample_orientations over call histories (Model_stats_session.v):
   in ANY history of in-place modifications and calls, every call of the source as it is
   (`memo = false`) is the one-call function Model_stats.resample of the contents its two argument
   objects have at the time of the call, of n_samples and of the generator of that call; the
   C15 clauses therefore hold call by call with respect to the CURRENT contents; a variant that
   remembers the last seeded result per (object identities, shape, n_samples, seed) is refuted. *)
From Coq Require Import Reals ZArith List Bool Lra Lia Permutation.
From PV Require Import Num NumR Model_stats Proofs_stats Model_stats_session.
Import ListNotations.
Open Scope R_scope.

Section Session.
  Context {O : Type}.
  Variable argsort : nat -> nat -> list R -> list nat.
  Variable draw : nat -> nat -> nat -> list R.

  Notation runR := (@run NumR O argsort draw).
  Notation pureR := (@pure_run NumR O argsort draw).
  Notation outR := (@out_of_ctx NumR O argsort draw).
  Notation ctxs := (@contexts NumR O).

  (* 1. the source keeps nothing: whatever the memo slot holds, a history produces the outputs of
        the pure reading *)
  Theorem session_pure h : forall st k m, runR false (st, k, m) h = pureR st k h.
  Proof.
    induction h as [|o h IH]; intros st k m; [reflexivity|].
    destruct o; cbn [run step pure_run andb app]; rewrite ?IH; reflexivity.
  Qed.

  (* 2. ... and these are, call by call, the one-call function applied to what the two objects
        contain at the time of the call *)
  Theorem session_outputs h : forall st k, pureR st k h = map outR (ctxs st k h).
  Proof.
    induction h as [|o h IH]; intros st k; [reflexivity|].
    destruct o; cbn [pure_run contexts map]; rewrite ?IH; try reflexivity.
    f_equal. unfold out_of_ctx, call_now. destruct (oget st a) as [so os], (fget st b) as [sf fs]. reflexivity.
  Qed.

  Corollary session_calls_are_pure h st k m : runR false (st, k, m) h = map outR (ctxs st k h).
  Proof. rewrite session_pure. apply session_outputs. Qed.

  (* 3. pairing, over histories: every (orientation, volume) returned by any call of any history is a
        grain of the same snapshot of the arguments AS THEY ARE at the time of that call *)
  Theorem session_membership h st k m :
    Forall2 (fun (c : @call_ctx NumR O) out =>
               forall oo ff, out = Ok (oo, ff) ->
               forall i s orow frow o x,
                 nth_error oo i = Some orow -> nth_error ff i = Some frow ->
                 nth_error orow s = Some o -> nth_error frow s = Some x ->
                 exists osnap fsnap j,
                   nth_error (snd (snd (fst (fst (fst c))))) i = Some osnap /\
                   nth_error (snd (snd (fst (fst c)))) i = Some fsnap /\
                   nth_error osnap j = Some o /\ nth_error fsnap j = Some x)
            (ctxs st k h) (runR false (st, k, m) h).
  Proof.
    rewrite session_calls_are_pure. induction (ctxs st k h) as [|c l IH]; cbn [map]; constructor; [|exact IH].
    destruct c as [[[[kk [so os]] [sf fs]] ns] sd]. cbn [fst snd out_of_ctx].
    intros oo ff H. exact (draw_membership _ _ false _ _ _ _ _ _ _ H).
  Qed.

  (* 4. zero-volume grains, over histories: if the volumes of the fractions object are non-negative and
        sum to 1 in every snapshot at the time of a call, and the variates of that call are in (0,1),
        that call returns only positive volumes -- whatever the objects contained earlier *)
  Theorem session_zero_volume_never h st k m :
    (forall kk i f, is_perm (length f) (argsort kk i f)) ->
    (forall kk i n, length (draw kk i n) = n /\ Forall (fun u => 0 < u < 1) (draw kk i n)) ->
    Forall2 (fun (c : @call_ctx NumR O) out =>
               forall oo ff, out = Ok (oo, ff) ->
               Forall (fun f => Forall (fun x => 0 <= x) f /\ lsum f = 1) (snd (snd (fst (fst c)))) ->
               Forall (fun row => Forall (fun x => 0 < x) row) ff)
            (ctxs st k h) (runR false (st, k, m) h).
  Proof.
    intros Ha Hd. rewrite session_calls_are_pure.
    induction (ctxs st k h) as [|c l IH]; cbn [map]; constructor; [|exact IH].
    destruct c as [[[[kk [so os]] [sf fs]] ns] sd]. cbn [fst snd out_of_ctx].
    intros oo ff H Hf. eapply (zero_volume_never (argsort kk) (draw kk)); try eassumption.
    - intros i f. apply Ha.
    - intros i n. destruct (Hd kk i n) as [L U]. split; [exact L|]. eapply Forall_impl; [|exact U]. cbn. intros; lra.
    - intros i n. destruct (Hd kk i n) as [_ U]. eapply Forall_impl; [|exact U]. cbn. intros; lra.
  Qed.

  (* 5. same contents, same n_samples, same generator stream (= same seed), same sort => same result,
        wherever the two calls stand in their histories and whichever objects hold the values *)
  Theorem session_same_call (c c' : @call_ctx NumR O) :
    snd (fst (fst (fst c))) = snd (fst (fst (fst c'))) ->          (* orientation object: shape and contents *)
    snd (fst (fst c)) = snd (fst (fst c')) ->                      (* fractions object: shape and contents *)
    snd (fst c) = snd (fst c') ->                                  (* n_samples *)
    (forall i f, argsort (fst (fst (fst (fst c)))) i f = argsort (fst (fst (fst (fst c')))) i f) ->
    (forall i n, draw (fst (fst (fst (fst c)))) i n = draw (fst (fst (fst (fst c')))) i n) ->
    outR c = outR c'.
  Proof.
    destruct c as [[[[k1 [so os]] [sf fs]] ns] sd], c' as [[[[k2 [so' os']] [sf' fs']] ns'] sd'].
    cbn [fst snd out_of_ctx]. intros E1 E2 E3 Ha Hd. injection E1 as <- <-. injection E2 as <- <-. subst ns'.
    apply deterministic; assumption.
  Qed.
End Session.

(* ------------------------------------------------------------------------- *)
(* the memoising variant is refuted                                          *)
(* ------------------------------------------------------------------------- *)
Definition ex_argsort (_ _ : nat) (f : list R) : list nat :=
  match f with
  | [a; b] => if Rltb b a then [1; 0]%nat else [0; 1]%nat
  | _ => seq 0 (length f)
  end.
Definition ex_draw (_ _ n : nat) : list R := repeat (1 / 2) n.
Definition ex_store : @store NumR nat := ([([1; 2; 3; 3]%nat, [[7; 8]%nat])], [([1; 2]%nat, [[1; 0]])]).
Definition ex_history : list (@sop NumR nat) :=
  [@SCall NumR nat 0 0 (Some 1%Z) (Some 5%Z); @SFillF NumR nat 0 [[0; 1]]; @SCall NumR nat 0 0 (Some 1%Z) (Some 5%Z)].

Ltac rcmp_s :=
  repeat match goal with
  | |- context [Rltb ?a ?b] =>
      first [ rewrite (proj2 (Rltb_true a b)) by lra | rewrite (proj2 (Rltb_false a b)) by lra ]
  end.

Ltac run_session :=
  cbv -[Rltb Rleb Reqb Rplus Rminus Rmult Rdiv Ropp Rinv IZR]; rcmp_s;
  cbv -[Rltb Rleb Reqb Rplus Rminus Rmult Rdiv Ropp Rinv IZR]; rcmp_s;
  cbv -[Rltb Rleb Reqb Rplus Rminus Rmult Rdiv Ropp Rinv IZR].

(* grains (7, 1), (8, 0); resample with seed 5; overwrite the volumes IN PLACE with (0, 1); resample the
   same two objects with the same seed and n_samples.  The source returns grain (8, 1); the memoising
   variant hands back (7, 1) -- a pair that is not a grain of the snapshot it was called on, whose grain 7
   has volume 0 now *)
Lemma memo_refuted :
  @run NumR nat ex_argsort ex_draw true (ex_store, 0%nat, None) ex_history
    = [Ok ([[7%nat]], [[1]]); Ok ([[7%nat]], [[1]])] /\
  @run NumR nat ex_argsort ex_draw false (ex_store, 0%nat, None) ex_history
    = [Ok ([[7%nat]], [[1]]); Ok ([[8%nat]], [[1]])] /\
  @pure_run NumR nat ex_argsort ex_draw ex_store 0 ex_history
    = [Ok ([[7%nat]], [[1]]); Ok ([[8%nat]], [[1]])] /\
  snd (@fget NumR nat (store_after ex_store ex_history) 0) = [[0; 1]] /\
  ~ (exists j, nth_error [7; 8]%nat j = Some 7%nat /\ nth_error [0; 1] j = Some 1).
Proof.
  split; [|split; [|split; [|split]]].
  - unfold ex_history, ex_store, ex_argsort, ex_draw. run_session. reflexivity.
  - unfold ex_history, ex_store, ex_argsort, ex_draw. run_session. reflexivity.
  - unfold ex_history, ex_store, ex_argsort, ex_draw. run_session. reflexivity.
  - reflexivity.
  - intros [j [H1 H2]]. destruct j as [|[|j]]; cbn in H1, H2; try discriminate.
    + injection H2 as H2. lra.
    + destruct j; discriminate.
Qed.

(* non-vacuity of the hypotheses of the session theorems on the example oracles *)
Lemma session_nonvacuous :
  (forall kk i f, (length f = 2)%nat -> is_perm (length f) (ex_argsort kk i f)) /\
  (forall kk i n, length (ex_draw kk i n) = n /\ Forall (fun u => 0 < u < 1) (ex_draw kk i n)) /\
  @contexts NumR nat ex_store 0 ex_history
    = [(0%nat, ([1; 2; 3; 3]%nat, [[7; 8]%nat]), ([1; 2]%nat, [[1; 0]]), Some 1%Z, Some 5%Z);
       (1%nat, ([1; 2; 3; 3]%nat, [[7; 8]%nat]), ([1; 2]%nat, [[0; 1]]), Some 1%Z, Some 5%Z)].
Proof.
  split; [|split].
  - intros kk i f Hf. destruct f as [|a [|b [|]]]; try discriminate. unfold ex_argsort, is_perm.
    destruct (Rltb b a); cbn; [apply perm_swap | apply Permutation_refl].
  - intros kk i n. unfold ex_draw. split; [apply repeat_length|].
    apply Forall_forall. intros u Hu. apply repeat_spec in Hu. subst. lra.
  - reflexivity.
Qed.
