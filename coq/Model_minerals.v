(* Model_minerals.v -- hand-written model of the glue around the solver kernel:
   pydrex.utils.extract_vars / apply_gbs, the right-hand side integrated by
   Mineral.update_orientations (eval_rhs), the post-processing of the integrator's final
   state (update), and the bulk update.  No proofs here.

   Oracles (values produced by routines that are NOT modelled; they enter as data and
   the theorems hold for every value satisfying the stated hypothesis):
     s    = np.abs(la.eigvalsh(D)).max()           hypothesis: is_eigmax (Proofs_minerals)
     Sd   = polar_decompose(L @ F)[1]             no hypothesis (only copied, regime 1)
     y    = LSODA's state vector after its last step   no hypothesis beyond its length *)
From Coq Require Import ZArith List Bool.
From PV Require Import Num Model_core.
Import ListNotations.
Local Open Scope num_scope.

Section Minerals.
  Context {F : Num}.

  Definition aol' (l : list F) : arr F := mk_arr zero l.
  Definition m_one : F := opp one.

  (* np.clip(-1, 1) and np.clip(0, None) *)
  Definition clip11 (x : F) : F := if ltb x m_one then m_one else if ltb one x then one else x.
  Definition clip0 (x : F) : F := if ltb x zero then zero else x.

  (* numba's arr.sum(): c = 0; for v in arr: c += v *)
  Definition nsum (l : list F) : F := fold_left add l zero.

  (* ---- extract_vars(y, n): F block (view), clipped orientations, clipped + normalised fractions *)
  Definition ev_F (y : list F) : list F := firstn 9 y.
  Definition ev_o (y : list F) (n : nat) : list F := map clip11 (firstn (9 * n) (skipn 9 y)).
  Definition ev_f (y : list F) (n : nat) : list F :=
    let c := map clip0 (firstn n (skipn (9 * n + 9) y)) in
    let s := nsum c in map (fun x => x / s) c.

  (* ---- apply_gbs(orientations, fractions, chi, orientations_prev, n) -------------- *)
  Fixpoint chunks9 (l : list F) (n : nat) : list (list F) :=
    match n with O => [] | S n' => firstn 9 l :: chunks9 (skipn 9 l) n' end.

  Definition gbs_thr (chi : F) (n : nat) : F := chi / ofZ (Z.of_nat n).
  Definition gbs_mask (chi : F) (n : nat) (f : F) : bool := ltb f (gbs_thr chi n).

  Fixpoint gbs_orient (chi : F) (n : nat) (os prev : list (list F)) (fs : list F) : list (list F) :=
    match os, prev, fs with
    | o :: os', p :: prev', f :: fs' =>
        (if gbs_mask chi n f then p else o) :: gbs_orient chi n os' prev' fs'
    | _, _, _ => []
    end.

  Definition gbs_floor (chi : F) (n : nat) (fs : list F) : list F :=
    map (fun f => if gbs_mask chi n f then gbs_thr chi n else f) fs.

  Definition gbs_fracs (chi : F) (n : nat) (fs : list F) : list F :=
    let c := gbs_floor chi n fs in let s := nsum c in map (fun x => x / s) c.

  (* ---- the stored snapshot and returned F of one update, from the integrator's last y *)
  Record snapshot := { sn_o : list (list F); sn_f : list F }.

  Definition update (n : nat) (chi : F) (prev : snapshot) (y : list F) : list F * snapshot :=
    let Fb := ev_F y in
    let o := chunks9 (ev_o y n) n in
    let f := ev_f y n in
    let o' := gbs_orient chi n o (sn_o prev) f in
    let f' := gbs_fracs chi n f in
    let y2 := Fb ++ concat o' ++ f' in
    (ev_F y2, {| sn_o := chunks9 (ev_o y2 n) n; sn_f := ev_f y2 n |}).

  (* a mineral's history: append-only list of snapshots; an update either appends exactly
     one snapshot (integrator returned y) or fails and leaves the history untouched *)
  Definition history := list snapshot.
  Definition last_snapshot (h : history) : snapshot := last h {| sn_o := []; sn_f := [] |}.

  Definition update_history (n : nat) (chi : F) (h : history) (ry : res (list F)) : res (list F) * history :=
    match ry with
    | Err e => (Err e, h)
    | Ok y => let '(Fb, s) := update n chi (last_snapshot h) y in (Ok Fb, h ++ [s])
    end.

  (* ---- eval_rhs: the vector field handed to LSODA --------------------------------- *)
  Definition mat_mul9 (a b : list F) : list F :=
    let A := aol' a in let B := aol' b in
    let e i j := A (3 * i)%nat * B j + A (3 * i + 1)%nat * B (3 + j)%nat + A (3 * i + 2)%nat * B (6 + j)%nat in
    [e 0 0; e 0 1; e 0 2; e 1 0; e 1 1; e 1 2; e 2 0; e 2 1; e 2 2]%nat.

  Definition sym9 (l : list F) : list F :=
    let A := aol' l in
    let e i j := (A (3 * i + j)%nat + A (3 * j + i)%nat) / ofZ 2 in
    [e 0 0; e 0 1; e 0 2; e 1 0; e 1 1; e 1 2; e 2 0; e 2 1; e 2 2]%nat.

  (* params["phase_fractions"][params["phase_assemblage"].index(phase)] *)
  Fixpoint index_of (ph : Z) (l : list Z) : option nat :=
    match l with
    | [] => None
    | x :: l' => if Z.eqb x ph then Some O else option_map S (index_of ph l')
    end.
  Definition lookup_fraction (ph : Z) (assemblage : list Z) (fractions : list F) : res F :=
    match index_of ph assemblage with
    | None => Err TypeError          (* eval_rhs returns None; LSODA then fails *)
    | Some i => match nth_error fractions i with
                | Some x => Ok x
                | None => Err ValueError
                end
    end.

  Definition rhs (regime ph fb : Z) (n : nat) (assemblage : list Z) (fractions : list F)
             (L : list F) (s : F) (Sd : list F) (p nn lam M : F) (y : list F) : res (list F) :=
    match lookup_fraction ph assemblage fractions with
    | Err e => Err e
    | Ok phi =>
        let D := sym9 L in
        let Fb := ev_F y in
        let os := map aol' (chunks9 (ev_o y n) n) in
        let fs := ev_f y n in
        let Fdot := mat_mul9 L Fb in
        if eqb s zero then Ok (Fdot ++ repeat zero (10 * n))
        else
          match derivs regime ph fb os fs (aol' (map (fun x => x / s) D)) (aol' (map (fun x => x / s) L))
                       (aol' Sd) p nn lam M phi with
          | Err e => Err e
          | Ok (ads, fds) =>
              Ok (Fdot ++ map (fun x => x * s) (flat_map (arr_to_list 9) ads) ++ map (fun x => x * s) fds)
          end
    end.

  (* ==== the driver around the integrator (round 5; tied to the source by Inst_minerals_drv.v) ==== *)

  (* ---- the problem instance Mineral.update_orientations hands to scipy's LSODA:
         LSODA(eval_rhs, t0, y0, t_bound, atol=|y0 * 1e-6| + 1e-4, rtol=1e-6, first_step=|t_bound - t0| * 1e-1,
               lband=None, uband=None)            (no max_step / min_step: LSODA's defaults inf / 0)
     The three literals are the binary64 values of 1e-6, 1e-4, 1e-1 (exact rationals). *)
  Definition c_1em6 : F := ofZ 4722366482869645 / ofZ 4722366482869645213696.
  Definition c_1em4 : F := ofZ 7378697629483821 / ofZ 73786976294838206464.
  Definition c_1em1 : F := ofZ 3602879701896397 / ofZ 36028797018963968.

  Record lsoda_problem := {
    lp_t0 : F; lp_y0 : list F; lp_tb : F;          (* start time, start vector, end time *)
    lp_atol : list F; lp_rtol : F; lp_first : F }.  (* per-component absolute tolerance, relative tolerance, first step *)

  (* y_start = np.hstack((F.flatten(), orientations[-1].flatten(), fractions[-1])) *)
  Definition y_start (Fd : list F) (s : snapshot) : list F := Fd ++ concat (sn_o s) ++ sn_f s.

  Definition lsoda_problem_of (Fd : list F) (s : snapshot) (t0 t1 : F) : lsoda_problem :=
    let y0 := y_start Fd s in
    {| lp_t0 := t0; lp_y0 := y0; lp_tb := t1;
       lp_atol := map (fun v => nabs (v * c_1em6) + c_1em4) y0;
       lp_rtol := c_1em6;
       lp_first := nabs (t1 - t0) * c_1em1 |}.

  (* ---- the solver loop: perform_step is called once, then while solver.status == "running".
     Each step hands back the integrator's state vector (an oracle) or fails
     (step() returns a message and the status is "failed": IterationError, nothing stored).
     The update post-processes the LAST vector; the vectors of earlier steps do not reach the
     stored snapshot (their sliding write-back goes into the integrator's own vector, which the
     integrator replaces at its next step). *)
  Fixpoint solver_loop (steps : list (res (list F))) : res (list F) :=
    match steps with
    | [] => Err OtherError                      (* not reachable: at least one step is taken *)
    | r :: rest =>
        match r with
        | Err e => Err e
        | Ok y => match rest with [] => Ok y | _ :: _ => solver_loop rest end
        end
    end.

  Definition update_steps (n : nat) (chi : F) (h : history) (steps : list (res (list F)))
    : res (list F) * history := update_history n chi h (solver_loop steps).

  (* ---- pydrex.update_all(minerals, params, F, ...): every mineral is updated from the SAME
     starting F, in list order; the value is the F returned by the last one; an exception of one
     update leaves the call (minerals before it are updated, it and the later ones are not);
     an empty list has no value (UnboundLocalError). *)
  Fixpoint update_all (n : nat) (chi : F) (hs : list history) (rys : list (res (list F))) (acc : res (list F))
    : res (list F) * list history :=
    match hs, rys with
    | h :: hs', ry :: rys' =>
        let '(r, h') := update_history n chi h ry in
        match r with
        | Err e => (Err e, h' :: hs')
        | Ok Fb => let '(r', hs'') := update_all n chi hs' rys' (Ok Fb) in (r', h' :: hs'')
        end
    | _, _ => (acc, hs)
    end.
  Definition bulk_update (n : nat) (chi : F) (hs : list history) (rys : list (res (list F))) :=
    update_all n chi hs rys (Err OtherError).
  (* the start vectors of the K integrators of one bulk update *)
  Definition bulk_y0 (Fd : list F) (hs : list history) : list (list F) :=
    map (fun h => y_start Fd (last_snapshot h)) hs.

  (* ---- Mineral.__post_init__: the first stored snapshot.  Without *_init arguments: orientations
     = Rotation.random(n, random_state=seed).as_matrix() (oracle R), fractions = np.full(n, 1.0 / n);
     with them: stored as given (no validation, no normalisation). *)
  Definition init_default (n : nat) (R : list (list F)) : snapshot :=
    {| sn_o := R; sn_f := repeat (one / ofZ (Z.of_nat n)) n |}.
  Definition init_user (o : list (list F)) (f : list F) : snapshot := {| sn_o := o; sn_f := f |}.
End Minerals.
