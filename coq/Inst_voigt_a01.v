(* Inst_voigt_a01.v -- instance lemmas of voigt_averages (tie T, C10): two minerals, assemblage [0, 1];
   statements and tactics as in Inst_voigt.v *)
From Coq Require Import Reals ZArith List Bool Lra Lia Arith.
From PV Require Import Num NumR Model_voigt Inst_voigt.
From PV.gen Require Import Gen_tensors Gen_voigt.
Import ListNotations.
Open Scope R_scope.

Lemma voigt_inst_a01_m2_s1_g1 (ph0 ph1 : Z) (phis Sol Sen O0 F0 O1 F1 : RA) :
  @k_voigt_a01_m2_s1_g1 NumR ph0 ph1 phis Sol Sen O0 F0 O1 F1 =
  flat_res (@voigt_averages NumR [mk_min ph0 1 1 1 1 O0 F0; mk_min ph1 1 1 1 1 O1 F1] [0%Z; 1%Z] (arr_to_list 2 phis) [Sol; Sen]).
Proof. cbv beta delta [k_voigt_a01_m2_s1_g1]. voigt_tac. Qed.

Lemma voigt_inst_a01_m2_s1_g1_f1 (ph0 ph1 : Z) (phis Sol Sen O0 F0 O1 F1 : RA) :
  @k_voigt_a01_m2_s1_g1_f1 NumR ph0 ph1 phis Sol Sen O0 F0 O1 F1 =
  flat_res (@voigt_averages NumR [mk_min ph0 1 1 1 1 O0 F0; mk_min ph1 1 1 1 1 O1 F1] [0%Z; 1%Z] (arr_to_list 1 phis) [Sol; Sen]).
Proof. cbv beta delta [k_voigt_a01_m2_s1_g1_f1]. voigt_tac. Qed.
