(* Inst_decomp_base.v -- tie T for pydrex.diagnostics.elasticity_components (C12), part 1.
   coq/gen/Gen_decomp.v is regenerated on every run from the real function (translator/specs_decomp.py).
   Here: the numba kernel smallest_angle (generated k_ec_smallest_angle = Model_decomp.smallest_angle plus the
   ZeroDivisionError leaf) and the tactic that proves one iteration of the eigenvector-pairing loop (generated
   k_ec_sccs_col_i, 64 control paths) equal to Model_decomp.sccs_col.  No tactic mentions a generated name. *)
From Coq Require Import Reals ZArith List Bool Lra Lia.
From PV Require Import Num NumR Model_voigt Model_decomp.
From PV.gen Require Import Gen_tensors Gen_decomp.
Import ListNotations.
Open Scope R_scope.

Lemma clip_eq (x : R) :
  (if Rltb 1 (if Rltb x (-1) then -1 else x) then 1 else (if Rltb x (-1) then -1 else x))
  = (if Rltb x (- (1)) then - (1) else if Rltb 1 x then 1 else x).
Proof.
  replace (- (1)) with (-1) by lra.
  destruct (Rltb x (-1)) eqn:E1.
  - destruct (Rltb 1 (-1)) eqn:E2; [apply Rltb_true in E2; lra | reflexivity].
  - reflexivity.
Qed.

Theorem smallest_angle_inst (v a : arr NumR) :
  @k_ec_smallest_angle NumR v a
  = if @angle_raises1 NumR v a then Err DivZero else Ok (@smallest_angle NumR v a).
Proof.
  cbv beta delta [k_ec_smallest_angle angle_raises1 smallest_angle norm3 dot3 clip1]. cbv zeta.
  numR.
  match goal with |- (if ?c then _ else _) = (if ?c' then _ else _) => change c' with c; destruct c eqn:E end;
    [reflexivity|].
  rewrite clip_eq.
  first [ match goal with |- (if Rltb _ ?x then _ else _) = Ok (if Rltb _ ?y then _ else _) =>
            assert (HH : x = y) by (unfold Rdiv; ring) end
        | fail 1 "the generated k_ec_smallest_angle is no longer Model_decomp.smallest_angle (clip to [-1,1], arccos in degrees, 180 - angle above 90) plus the ZeroDivisionError leaf" ].
  rewrite HH. match goal with |- context [Rltb ?p ?q] => destruct (Rltb p q) end;
    first [ reflexivity
          | fail 1 "the generated k_ec_smallest_angle is no longer Model_decomp.smallest_angle (clip to [-1,1], arccos in degrees, 180 - angle above 90) plus the ZeroDivisionError leaf" ].
Qed.

Lemma dot3_col (Ed Ev : arr NumR) i j :
  @dot3 NumR (col Ed i) (col Ev j)
  = Ed i * Ev j + Ed (3 + i)%nat * Ev (3 + j)%nat + Ed (6 + i)%nat * Ev (6 + j)%nat.
Proof. reflexivity. Qed.

Lemma mk_arr_eq (l l' : list R) : l = l' -> @mk_arr R 0 l = @mk_arr R 0 l'.
Proof. intros ->; reflexivity. Qed.
Lemma cons_eq2 {X} (a b : X) l1 l2 : a = b -> l1 = l2 -> a :: l1 = b :: l2.
Proof. intros -> ->; reflexivity. Qed.
Lemma pair_eq2 {X Y} (a a' : X) (b b' : Y) : a = a' -> b = b' -> (a, b) = (a', b').
Proof. intros -> ->; reflexivity. Qed.

Ltac split_if :=
  match goal with
  | |- context [if ?c then _ else _] =>
      lazymatch c with
      | context [if _ then _ else _] => fail
      | _ => destruct c eqn:?
      end
  end.

Ltac leaf_elt := cbv [mk_arr nth norm3 dot3]; numR;
  first [ reflexivity | lra | (f_equal; [ lra | f_equal; field ]) | (f_equal; [field | f_equal; field]) ].
Ltac leaf := first [ reflexivity
                   | (f_equal; apply mk_arr_eq; repeat (apply cons_eq2; [ leaf_elt | ]); reflexivity) ].

Definition sccs_stmt (k : arr NumR -> arr NumR -> res (arr NumR)) (i : nat) : Prop :=
  forall Ed Ev : arr NumR,
    k Ed Ev = if @sccs_raises NumR Ed Ev i then Err DivZero else Ok (@sccs_col NumR Ed Ev i).

Ltac sccs_tac kdef :=
  intros Ed Ev; cbv beta delta [kdef];
  rewrite !smallest_angle_inst;
  cbv beta iota zeta delta [orb sccs_raises sccs_col fold_left pair_step ofnat Z.of_nat Pos.of_succ_nat Pos.succ];
  rewrite ?dot3_col;
  cbv beta iota delta [col Nat.add];
  repeat match goal with
  | |- context [@smallest_angle NumR ?v ?a] => let x := fresh "ang" in set (x := @smallest_angle NumR v a) in *
  end;
  repeat match goal with
  | |- context [@angle_raises1 NumR ?v ?a] => let x := fresh "rz" in set (x := @angle_raises1 NumR v a) in *
  end;
  repeat match goal with
  | x := @angle_raises1 NumR _ _ |- _ => clearbody x
  | x := @smallest_angle NumR _ _ |- _ => clearbody x
  end;
  numR;
  repeat (split_if; cbv beta iota);
  leaf.

