(* Entry_scsv.v -- entry points used by the generated case files build/cases/C16_k.v:
   oracles given as finite tables (values computed by the real Python/csv/yaml), and
   ASCII-only rendering of results (one line per case).  No proofs. *)
From Coq Require Import String Ascii List ZArith Bool NArith DecimalString.
From PV Require Import Model_scsv Model_scsv_frame Model_scsv_header.
Import ListNotations.
Open Scope string_scope.

(* ---- hex <-> string *)
Definition hexdigit (n : N) : ascii :=
  ascii_of_N (if N.ltb n 10 then 48 + n else 87 + n).
Fixpoint hex (s : string) : string :=
  match s with
  | EmptyString => EmptyString
  | String c r => let n := N_of_ascii c in
                  String (hexdigit (N.div n 16)) (String (hexdigit (N.modulo n 16)) (hex r))
  end.
Definition unhexdigit (c : ascii) : N :=
  let n := N_of_ascii c in if N.ltb n 58 then n - 48 else n - 87.
Fixpoint h (s : string) : string :=
  match s with
  | String a (String b r) => String (ascii_of_N (16 * unhexdigit a + unhexdigit b)) (h r)
  | _ => EmptyString
  end.

Definition zstr (z : Z) : string := NilZero.string_of_int (Z.to_int z).

(* ---- tables *)
Fixpoint look {K A} (eqb : K -> K -> bool) (l : list (K * A)) (dflt : A) (k : K) : A :=
  match l with
  | [] => dflt
  | (k', v) :: r => if eqb k k' then v else look eqb r dflt k
  end.

Definition ftok_eqb (x y : ftok) : bool :=
  match x, y with
  | FNan, FNan => true
  | FInf a, FInf b => Bool.eqb a b
  | FFin a, FFin b => String.eqb a b
  | _, _ => false
  end.
Definition ff_eqb (a b : ftok * ftok) : bool := ftok_eqb (fst a) (fst b) && ftok_eqb (snd a) (snd b).
Definition zf_eqb (a b : Z * ftok) : bool := Z.eqb (fst a) (fst b) && ftok_eqb (snd a) (snd b).

Record tables := mkT {
  t_ident : list (string * bool);
  t_nt : list (list string * bool);
  t_delim : list (string * option err);
  t_strint : list (Z * string);
  t_strcplx : list ((ftok * ftok) * string);
  t_intof : list (string * res Z);
  t_floatof : list (string * res ftok);
  t_cplxof : list (string * res (ftok * ftok));
  t_zfeq : list ((Z * ftok) * bool);
  t_transport : res (list (list string)) }.

Definition oracles_of (t : tables) : oracles :=
  mkO (look String.eqb (t_ident t) false)
      (look list_str_eqb (t_nt t) false)
      (look String.eqb (t_delim t) (Some EUnmodelled))
      (look Z.eqb (t_strint t) "<str-int-miss>")
      (fun a b => look ff_eqb (t_strcplx t) "<str-cplx-miss>" (a, b))
      (look String.eqb (t_intof t) (Err EValue))      (* tables list the strings that parse; *)
      (look String.eqb (t_floatof t) (Err EValue))    (* every other string raises ValueError *)
      (look String.eqb (t_cplxof t) (Err EValue))
      (fun z f => look zf_eqb (t_zfeq t) false (z, f))
      (fun _ _ => t_transport t).

(* ---- rendering *)
Definition show_err (e : err) : string :=
  match e with
  | SCSV => "SCSV" | EValue => "EValue" | EType => "EType" | EKey => "EKey" | EIndex => "EIndex"
  | EAttr => "EAttr" | EOverflow => "EOverflow" | EYaml => "EYaml" | EStop => "EStop"
  | ECsv => "ECsv" | EUnmodelled => "EUnmodelled"
  end.

Definition show_ftok (f : ftok) : string :=
  match f with FNan => "n" | FInf false => "p" | FInf true => "m" | FFin r => "f" ++ hex r end.

Definition show_cell (c : cell) : string :=
  match c with
  | CStr s => "S" ++ hex s
  | CInt z => "I" ++ zstr z
  | CFloat f => "F" ++ show_ftok f
  | CBool b => if b then "B1" else "B0"
  | CCplx a b => "C" ++ show_ftok a ++ "_" ++ show_ftok b
  end.

Fixpoint join (sep : string) (l : list string) : string :=
  match l with [] => "" | [x] => x | x :: r => x ++ sep ++ join sep r end.

Definition show_res {A} (f : A -> string) (r : res A) : string :=
  match r with Ok a => "OK " ++ f a | Err e => "ERR " ++ show_err e end.

Definition show_rows (rows : list (list string)) : string :=
  join ";" (map (fun r => join "," (map (fun x => "S" ++ hex x) r)) rows).

Definition show_table (x : list string * list (list cell)) : string :=
  join "," (map (fun n => "S" ++ hex n) (fst x)) ++ "/" ++
  join ";" (map (fun c => join "," (map show_cell c)) (snd x)).

Definition show_bool (b : bool) : string := if b then "1" else "0".

Definition show_yval (v : yval) : string :=
  match v with
  | YNull => "N" | YStr s => "S" ++ hex s | YInt z => "I" ++ zstr z
  | YFloat f => "F" ++ show_ftok f | YBool b => if b then "B1" else "B0" | YOther => "O"
  end.
Definition show_opt {A} (f : A -> string) (o : option A) : string :=
  match o with Some a => f a | None => "-" end.
Definition show_field (f : field) : string :=
  show_opt show_yval (fname f) ++ ":" ++ show_opt (fun s => "S" ++ hex s) (ftype f) ++ ":" ++ show_opt show_yval (ffill f).
Definition show_schema (s : schema) : string :=
  show_opt (fun s => "S" ++ hex s) (sdelim s) ++ "|" ++ show_opt (fun s => "S" ++ hex s) (smissing s) ++ "|" ++
  show_opt (fun fs => join ";" (map show_field fs)) (sfields s).

(* save_scsv + read_scsv on one schema / data set.  t_transport = what csv.reader
   returned for the file the implementation wrote (Err when no file could be read). *)
Definition run_rt (t : tables) (s : schema) (y : yres) (data : list (list cell)) : string :=
  let O := oracles_of t in
  "V:" ++ show_res show_bool (validate_schema O s)
  ++ "|S:" ++ show_res show_rows (save O s data)
  ++ "|B:" ++ show_res show_table (read_back O s y data)
  ++ "|P:" ++ show_bool (representable O s data)
  ++ "|H:" ++ show_bool (header_faithful O s y).

(* read_scsv on a given file: loaded header y, csv rows as t_transport *)
Definition run_read (t : tables) (y : yres) : string :=
  let O := oracles_of t in
  "R:" ++ show_res show_table (bind (t_transport t) (read O y)).

(* read_scsv on a file given by its lines (as iterating the text-mode file yields them).  The
   loop that sorts the lines is the model's (`frame`); ytab / rtab list what PyYAML / csv.reader
   return for the header lines / csv lines the harness expects -- a different split misses the
   tables (F:0). *)
Fixpoint look_lines {A} (l : list (list string * A)) (k : list string) : option A :=
  match l with
  | [] => None
  | (k', v) :: r => if list_str_eqb k k' then Some v else look_lines r k
  end.

Definition run_file (t : tables) (lines : list string) (ytab : list (list string * yres))
           (rtab : list (list string * res (list (list string)))) : string :=
  let O := oracles_of t in
  let yc := frame false lines in
  let hit := match look_lines ytab (fst yc), look_lines rtab (snd yc) with Some _, Some _ => true | _, _ => false end in
  "R:" ++ show_res show_table
     (read_file O (fun yl => match look_lines ytab yl with Some y => y | None => YFail end)
                  (fun cl => match look_lines rtab cl with Some r => r | None => Err EUnmodelled end) lines)
  ++ "|F:" ++ show_bool hit
  ++ "|N:" ++ zstr (Z.of_nat (length (fst yc))) ++ "," ++ zstr (Z.of_nat (length (snd yc))).

Definition run_terse (x : string) : string := "T:" ++ show_res show_schema (parse_terse x).

(* the header block write_scsv_header emits for this schema (lines without terminators) *)
Definition show_lines (ls : list string) : string := join "," (map (fun l => "S" ++ hex l) ls).
Definition run_rt_h (t : tables) (s : schema) (y : yres) (data : list (list cell))
           (comments : list string) (units : list (option string)) : string :=
  run_rt t s y data ++ "|L:" ++ show_res show_lines (header_lines (oracles_of t) comments s units).

(* _yaml_quote(x), and what the single-quoted scanner makes of a text *)
Definition run_quote (x : string) : string :=
  "Q:" ++ hex (yaml_quote x) ++ "|U:" ++ match yaml_unquote (yaml_quote x) with Some y => "S" ++ hex y | None => "-" end.
Definition run_unquote (x : string) : string :=
  "U:" ++ match yaml_unquote x with Some y => "S" ++ hex y | None => "-" end.
