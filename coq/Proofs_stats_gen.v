(* Proofs_stats_gen.v -- the C15 theorems transferred to GENERATED code.

   Everything here is stated for an arbitrary function g that satisfies `inst_stmt N M ns n g`
   (Inst_stats.v: g = the hand-written model on flat data, for all inputs); the generated
   definitions of gen/Gen_stats.v satisfy it by the instance lemmas.  So each theorem below is a
   statement about what the code regenerated from pydrex/stats.py computes: nested-list views
   (`grains`, `rows`) of the flat arrays are the only glue. *)
From Coq Require Import Reals ZArith List Bool Lra Lia Permutation.
From PV Require Import Num NumR Model_stats Proofs_stats Proofs_stats_batch Inst_stats.
Import ListNotations.
Open Scope R_scope.

(* ---- chunking ---- *)
Lemma chunks_length {X} k n (l : list X) : length (chunks k n l) = n.
Proof. revert l. induction n as [|n IH]; intros l; cbn [chunks length]; [reflexivity|]. f_equal. apply IH. Qed.

Lemma chunks_each_length {X} k n (l : list X) :
  length l = (n * k)%nat -> Forall (fun c => length c = k) (chunks k n l).
Proof.
  revert l. induction n as [|n IH]; intros l H; cbn [chunks]; constructor.
  - rewrite firstn_length. cbn in H. lia.
  - apply IH. rewrite skipn_length. cbn in H. lia.
Qed.

Lemma Forall_firstn {X} (P : X -> Prop) k l : Forall P l -> Forall P (firstn k l).
Proof. revert k. induction l as [|a l IH]; intros [|k] H; cbn; try constructor; inversion H; subst; auto. Qed.
Lemma Forall_skipn {X} (P : X -> Prop) k l : Forall P l -> Forall P (skipn k l).
Proof. revert k. induction l as [|a l IH]; intros [|k] H; cbn; try constructor; inversion H; subst; auto. Qed.

Lemma chunks_Forall {X} (P : X -> Prop) k n l : Forall P l -> Forall (Forall P) (chunks k n l).
Proof.
  revert l. induction n as [|n IH]; intros l H; cbn [chunks]; constructor.
  - apply Forall_firstn; exact H.
  - apply IH, Forall_skipn; exact H.
Qed.

Lemma concat_length_const {X} n (ll : list (list X)) :
  Forall (fun r => length r = n) ll -> length (concat ll) = (length ll * n)%nat.
Proof.
  induction 1 as [|r ll Hr _ IH]; [reflexivity|]. cbn [concat length]. rewrite app_length, IH, Hr. lia.
Qed.

Lemma nth_In_len {X} (l : list X) i d : (i < length l)%nat -> In (nth i l d) l.
Proof. apply nth_In. Qed.

Lemma nth_error_lt {X} (l : list X) i x : nth_error l i = Some x -> (i < length l)%nat.
Proof. intros H. apply nth_error_Some. congruence. Qed.

Section Transfer.
  Variables (N M : nat) (ns : option Z) (n : nat).
  Variable g : list (list nat) -> RL -> RL -> RL -> res (arr R * arr R).
  Hypothesis Hinst : inst_stmt N M ns n g.

  Variables (pis : list (list nat)) (o f u : RL).
  Hypothesis Hpis : length pis = N.
  Hypothesis Hperm : Forall (is_perm M) pis.
  Hypothesis Ho : length o = (N * M * 9)%nat.
  Hypothesis Hf : length f = (N * M)%nat.
  Hypothesis Hu : length u = (N * n)%nat.

  (* a successful generated call is the packed result of the model *)
  Lemma gen_unpack ao af :
    g pis o f u = Ok (ao, af) ->
    exists oo ff, ao = A (concat (concat oo)) /\ af = A (concat ff) /\
      model N M ns n pis o f u = Ok (oo, ff).
  Proof.
    rewrite (Hinst pis o f u Hpis Hperm Ho Hf Hu). unfold pack.
    destruct (model N M ns n pis o f u) as [[oo ff]|e]; [|discriminate].
    intros H. injection H as <- <-. exists oo, ff. repeat split.
  Qed.

  (* row i of the result is the one-snapshot computation on snapshot i with ITS permutation and
     ITS row of variates; the permutation and the row are those of the hypotheses *)
  Lemma gen_row oo ff :
    model N M ns n pis o f u = Ok (oo, ff) ->
    (n_of [N; M] ns = n) ->
    forall i orow frow, nth_error oo i = Some orow -> nth_error ff i = Some frow ->
    exists osnap fsnap pi urow,
      nth_error (grains N M o) i = Some osnap /\ nth_error (rows N M f) i = Some fsnap /\
      nth_error pis i = Some pi /\ nth_error (rows N n u) i = Some urow /\
      length fsnap = M /\ is_perm (length fsnap) pi /\ length urow = n /\
      @resample_one NumR RL faithful osnap fsnap pi urow = Ok (orow, frow).
  Proof.
    unfold model. intros H Hn i orow frow Hio Hif.
    destruct (batch_rowwise _ _ _ _ _ _ _ _ _ _ H i orow frow Hio Hif) as (osnap & fsnap & H1 & H2 & H3).
    change (T NumR) with R in *.
    pose proof (nth_error_lt _ _ _ H2) as Li. unfold rows in Li. rewrite chunks_length in Li.
    assert (Lf : length fsnap = M).
    { pose proof (chunks_each_length M N f ltac:(lia)) as F. rewrite Forall_forall in F.
      apply F. eapply nth_error_In; exact H2. }
    exists osnap, fsnap, (nth i pis []), (nth i (rows N n u) []).
    assert (Hpi : nth_error pis i = Some (nth i pis [])) by (apply nth_error_nth'; lia).
    assert (Hur : nth_error (rows N n u) i = Some (nth i (rows N n u) []))
      by (apply nth_error_nth'; unfold rows; rewrite chunks_length; lia).
    split; [exact H1|]. split; [exact H2|]. split; [exact Hpi|]. split; [exact Hur|]. split; [exact Lf|].
    split; [|split].
    - rewrite Lf. rewrite Forall_forall in Hperm. apply Hperm. eapply nth_error_In; exact Hpi.
    - pose proof (chunks_each_length n N u ltac:(lia)) as F. rewrite Forall_forall in F.
      apply F. eapply nth_error_In; exact Hur.
    - cbv beta in H3. rewrite Hn, Nat.eqb_refl in H3. exact H3.
  Qed.

  (* (a) pairing: every output pair is an input grain of the SAME snapshot *)
  Theorem gen_membership ao af :
    g pis o f u = Ok (ao, af) ->
    exists oo ff, ao = A (concat (concat oo)) /\ af = A (concat ff) /\
    forall i s orow frow ori x,
      nth_error oo i = Some orow -> nth_error ff i = Some frow ->
      nth_error orow s = Some ori -> nth_error frow s = Some x ->
      exists osnap fsnap j, nth_error (grains N M o) i = Some osnap /\ nth_error (rows N M f) i = Some fsnap /\
        nth_error osnap j = Some ori /\ nth_error fsnap j = Some x.
  Proof.
    intros H. destruct (gen_unpack _ _ H) as (oo & ff & -> & -> & Hm).
    exists oo, ff. split; [reflexivity|]. split; [reflexivity|].
    unfold model in Hm. exact (draw_membership _ _ false _ _ _ _ _ _ _ Hm).
  Qed.

  Hypothesis Hn : n_of [N; M] ns = n.

  (* output shapes: N rows of n entries; flat length N * n *)
  Lemma gen_shapes oo ff :
    model N M ns n pis o f u = Ok (oo, ff) ->
    length ff = N /\ Forall (fun r => length r = n) ff /\ length (concat ff) = (N * n)%nat.
  Proof.
    intros Hm.
    assert (L : length ff = N).
    { unfold model in Hm. apply resample_inv in Hm. destruct Hm as (_ & _ & rs & Hl & _ & ->).
      rewrite map_length, (loop_length _ _ _ _ _ _ _ _ Hl). unfold grains.
      rewrite map_length, chunks_length. reflexivity. }
    assert (Fl : Forall (fun r => length r = n) ff).
    { apply Forall_forall. intros frow Hin. apply In_nth_error in Hin. destruct Hin as [i Hi].
      assert (Hoi : exists orow, nth_error oo i = Some orow).
      { unfold model in Hm. apply resample_inv in Hm. destruct Hm as (_ & _ & rs & _ & -> & ->).
        apply nth_error_map_inv in Hi. destruct Hi as ([a b] & Hr & _). exists a.
        rewrite nth_error_map, Hr. reflexivity. }
      destruct Hoi as [orow Hoi].
      destruct (gen_row _ _ Hm Hn i orow frow Hoi Hi) as (osnap & fsnap & pi & urow & _ & _ & _ & _ & _ & _ & Lu & H1).
      apply resample_one_lengths in H1. destruct H1 as [_ H1]. change (T NumR) with R in *. congruence. }
    split; [exact L|]. split; [exact Fl|]. rewrite (concat_length_const n ff Fl), L. reflexivity.
  Qed.

  (* (b) zero-volume grains are never drawn: variates in (0,1), non-negative volumes summing to 1
         in every snapshot  =>  every returned volume is > 0 *)
  Theorem gen_zero_volume_never ao af :
    g pis o f u = Ok (ao, af) ->
    Forall (fun x => 0 < x < 1) u ->
    Forall (fun r => Forall (fun x => 0 <= x) r /\ lsum r = 1) (rows N M f) ->
    forall k, (k < N * n)%nat -> 0 < af k.
  Proof.
    intros H HU HF. destruct (gen_unpack _ _ H) as (oo & ff & -> & -> & Hm).
    destruct (gen_shapes _ _ Hm) as (L & Fl & Lc).
    assert (P : Forall (Forall (fun x => 0 < x)) ff).
    { apply Forall_forall. intros frow Hin. apply In_nth_error in Hin. destruct Hin as [i Hi].
      assert (Hoi : exists orow, nth_error oo i = Some orow).
      { pose proof Hm as Hm'. unfold model in Hm'. apply resample_inv in Hm'.
        destruct Hm' as (_ & _ & rs & _ & -> & ->).
        apply nth_error_map_inv in Hi. destruct Hi as ([a b] & Hr & _). exists a.
        rewrite nth_error_map, Hr. reflexivity. }
      destruct Hoi as [orow Hoi].
      destruct (gen_row _ _ Hm Hn i orow frow Hoi Hi)
        as (osnap & fsnap & pi & urow & _ & G2 & _ & G4 & _ & Gp & _ & H1).
      rewrite Forall_forall in HF. destruct (HF fsnap (nth_error_In _ _ G2)) as [F1 F2].
      eapply resample_one_positive; try eassumption.
      pose proof (chunks_Forall (fun x => 0 < x < 1) n N u HU) as FU. rewrite Forall_forall in FU.
      apply FU. eapply nth_error_In; exact G4. }
    intros k Hk. unfold mk_arr.
    assert (Fc : Forall (fun x => 0 < x) (concat ff)).
    { clear -P. induction P as [|r ll Hr _ IH]; [constructor|]. cbn [concat]. apply Forall_app. split; assumption. }
    rewrite Forall_forall in Fc. apply Fc. apply nth_In. lia.
  Qed.

  (* (c) no positivity assumed on the variates (they are in [0,1)): a returned volume <= 0 at
         (snapshot i, sample s) is possible only when that variate is exactly 0 *)
  Theorem gen_zero_volume_only_at_u0 ao af :
    g pis o f u = Ok (ao, af) ->
    Forall (fun x => 0 <= x < 1) u ->
    Forall (fun r => Forall (fun x => 0 <= x) r /\ lsum r = 1) (rows N M f) ->
    exists oo ff, ao = A (concat (concat oo)) /\ af = A (concat ff) /\
    forall i s frow x, nth_error ff i = Some frow -> nth_error frow s = Some x -> x <= 0 ->
      exists urow, nth_error (rows N n u) i = Some urow /\ nth_error urow s = Some 0.
  Proof.
    intros H HU HF. destruct (gen_unpack _ _ H) as (oo & ff & -> & -> & Hm).
    exists oo, ff. split; [reflexivity|]. split; [reflexivity|].
    intros i s frow x Hi Hs Hx.
    assert (Hoi : exists orow, nth_error oo i = Some orow).
    { pose proof Hm as Hm'. unfold model in Hm'. apply resample_inv in Hm'.
      destruct Hm' as (_ & _ & rs & _ & -> & ->).
      apply nth_error_map_inv in Hi. destruct Hi as ([a b] & Hr & _). exists a.
      rewrite nth_error_map, Hr. reflexivity. }
    destruct Hoi as [orow Hoi].
    destruct (gen_row _ _ Hm Hn i orow frow Hoi Hi)
      as (osnap & fsnap & pi & urow & _ & G2 & _ & G4 & _ & Gp & _ & H1).
    rewrite Forall_forall in HF. destruct (HF fsnap (nth_error_In _ _ G2)) as [F1 F2].
    exists urow. split; [exact G4|].
    assert (FU : Forall (fun x => 0 <= x < 1) urow).
    { pose proof (chunks_Forall (fun x => 0 <= x < 1) n N u HU) as FU. rewrite Forall_forall in FU.
      apply FU. eapply nth_error_In; exact G4. }
    pose proof (resample_one_zero_only_u0 osnap fsnap pi urow orow frow H1 Gp F1 F2 FU) as Z.
    destruct (Forall2_nth_error_r _ _ _ _ _ Z Hs) as (us & Hus & K). rewrite Hus. f_equal. exact (K Hx).
  Qed.

  (* (d) probability = volume: in snapshot i let fa / oa be the volumes / orientations in sort order
         (a rearrangement of the snapshot).  A variate 0 < u_s that lies in the cumulative-volume
         interval (psum fa k, psum fa (k+1)] -- whose length is the volume fa_k -- returns exactly
         grain k: its volume AND its orientation. *)
  Theorem gen_draw_interval ao af :
    g pis o f u = Ok (ao, af) ->
    Forall (fun r => Forall (fun x => 0 <= x) r /\ lsum r = 1) (rows N M f) ->
    exists oo ff, ao = A (concat (concat oo)) /\ af = A (concat ff) /\
    forall i orow frow, nth_error oo i = Some orow -> nth_error ff i = Some frow ->
    exists osnap fsnap pi urow fa oa,
      nth_error (grains N M o) i = Some osnap /\ nth_error (rows N M f) i = Some fsnap /\
      nth_error pis i = Some pi /\ nth_error (rows N n u) i = Some urow /\
      gather fsnap pi = Ok fa /\ gather osnap pi = Ok oa /\ Permutation fa fsnap /\
      forall s us k, nth_error urow s = Some us -> 0 < us -> (k < length fa)%nat ->
        psum fa k < us <= psum fa (S k) ->
        nth_error frow s = Some (nth k fa 0) /\ nth_error orow s = nth_error oa k /\
        psum fa (S k) - psum fa k = nth k fa 0.
  Proof.
    intros H HF. destruct (gen_unpack _ _ H) as (oo & ff & -> & -> & Hm).
    exists oo, ff. split; [reflexivity|]. split; [reflexivity|].
    intros i orow frow Hoi Hi.
    destruct (gen_row _ _ Hm Hn i orow frow Hoi Hi)
      as (osnap & fsnap & pi & urow & G1 & G2 & G3 & G4 & _ & Gp & _ & H1).
    rewrite Forall_forall in HF. destruct (HF fsnap (nth_error_In _ _ G2)) as [F1 F2].
    destruct (resample_one_inv false osnap fsnap pi urow orow frow H1) as (fa & oa & c & Hfa & Hoa & Hc & K1 & K2).
    destruct (sorted_is_rearrangement fsnap pi fa Gp Hfa) as (Pf & Sf & Nf).
    exists osnap, fsnap, pi, urow, fa, oa. repeat split; try assumption.
    - destruct (Forall2_nth_error_l _ _ _ _ _ K2 H0) as (x & Hx & Kx).
      destruct (draw_interval fa c k us (Nf F1) ltac:(lra) Hc H3 H2) as [E _].
      rewrite (proj2 E H4) in Kx. rewrite Hx. f_equal. symmetry. apply nth_error_nth. exact Kx.
    - destruct (Forall2_nth_error_l _ _ _ _ _ K1 H0) as (x & Hx & Kx).
      destruct (draw_interval fa c k us (Nf F1) ltac:(lra) Hc H3 H2) as [E _].
      rewrite (proj2 E H4) in Kx. congruence.
    - apply interval_length. exact H3.
  Qed.
End Transfer.
