(* Proofs_geometry.v -- lemmas about the generated coordinate functions of pydrex.geometry
   (R instance): a small atan2 library, spherical <-> cartesian, Lambert projection, poles. *)
From Coq Require Import Reals ZArith List Bool Lra Lia Psatz.
From PV Require Import Num NumR.
From PV.gen Require Import Gen_geometry.
Import ListNotations.
Open Scope R_scope.

(* ------------------------------------------------------------------------- *)
(* small facts                                                               *)
(* ------------------------------------------------------------------------- *)
Lemma sumsq_pos x y : x <> 0 \/ y <> 0 -> 0 < x * x + y * y.
Proof. intros [H|H]; nra. Qed.

Lemma sumsq3_pos x y z : x <> 0 \/ y <> 0 \/ z <> 0 -> 0 < x * x + y * y + z * z.
Proof. intros [H|[H|H]]; nra. Qed.

Lemma sumsq3_zero x y z : x * x + y * y + z * z = 0 -> x = 0 /\ y = 0 /\ z = 0.
Proof. intros H; repeat split; nra. Qed.

Lemma sqrt_sqr_abs x : sqrt (x * x) = Rabs x.
Proof. rewrite <- sqrt_Rsqr_abs. reflexivity. Qed.

Lemma sqrt_mul_self x : 0 <= x -> sqrt x * sqrt x = x.
Proof. apply sqrt_sqrt. Qed.

Lemma sqrt_pos_ne x : 0 < x -> sqrt x <> 0.
Proof. intros H. pose proof (sqrt_lt_R0 x H). lra. Qed.

(* sqrt (1 + (y/x)^2) = sqrt (x^2+y^2) / |x| *)
Lemma sqrt_one_plus_ratio y x : x <> 0 ->
  sqrt (1 + (y / x)²) = sqrt (x * x + y * y) / Rabs x.
Proof.
  intros Hx.
  assert (Hax : 0 < Rabs x) by (apply Rabs_pos_lt; exact Hx).
  replace (1 + (y / x)²) with ((x * x + y * y) / (Rabs x * Rabs x)).
  - rewrite sqrt_div_alt by nra.
    rewrite sqrt_sqr_abs. rewrite Rabs_Rabsolu. reflexivity.
  - unfold Rsqr. replace (Rabs x * Rabs x) with (x * x).
    + field; exact Hx.
    + unfold Rabs; destruct (Rcase_abs x); ring.
Qed.

(* ------------------------------------------------------------------------- *)
(* atan2                                                                     *)
(* ------------------------------------------------------------------------- *)
Lemma cos_Ratan2 y x : x <> 0 \/ y <> 0 ->
  cos (Ratan2 y x) = x / sqrt (x * x + y * y).
Proof.
  intros H. pose proof (sumsq_pos x y H) as Hp. pose proof (sqrt_pos_ne _ Hp) as Hs.
  unfold Ratan2.
  destruct (Rlt_dec 0 x) as [Hx|Hx].
  - rewrite cos_atan, sqrt_one_plus_ratio by lra. rewrite Rabs_right by lra. field; split; lra.
  - destruct (Rlt_dec x 0) as [Hx'|Hx'].
    + assert (E : sqrt (1 + (y / x)²) = sqrt (x * x + y * y) / - x).
      { rewrite sqrt_one_plus_ratio by lra. rewrite Rabs_left by lra. reflexivity. }
      destruct (Rle_dec 0 y).
      * rewrite cos_plus, cos_PI, sin_PI, cos_atan, E. field; split; lra.
      * rewrite cos_minus, cos_PI, sin_PI, cos_atan, E. field; split; lra.
    + assert (x = 0) by lra. subst x.
      destruct (Rlt_dec 0 y); [rewrite cos_PI2; field; exact Hs|].
      destruct (Rlt_dec y 0).
      * replace (- PI / 2) with (- (PI / 2)) by field. rewrite cos_neg, cos_PI2. field; exact Hs.
      * exfalso. destruct H; lra.
Qed.

Lemma sin_Ratan2 y x : x <> 0 \/ y <> 0 ->
  sin (Ratan2 y x) = y / sqrt (x * x + y * y).
Proof.
  intros H. pose proof (sumsq_pos x y H) as Hp. pose proof (sqrt_pos_ne _ Hp) as Hs.
  unfold Ratan2.
  destruct (Rlt_dec 0 x) as [Hx|Hx].
  - rewrite sin_atan, sqrt_one_plus_ratio by lra. rewrite Rabs_right by lra. field; split; lra.
  - destruct (Rlt_dec x 0) as [Hx'|Hx'].
    + assert (E : sqrt (1 + (y / x)²) = sqrt (x * x + y * y) / - x).
      { rewrite sqrt_one_plus_ratio by lra. rewrite Rabs_left by lra. reflexivity. }
      destruct (Rle_dec 0 y).
      * rewrite sin_plus, cos_PI, sin_PI, sin_atan, E. field; split; lra.
      * rewrite sin_minus, cos_PI, sin_PI, sin_atan, E. field; split; lra.
    + assert (x = 0) by lra. subst x.
      assert (E0 : sqrt (0 * 0 + y * y) = Rabs y).
      { replace (0 * 0 + y * y) with (y * y) by ring. apply sqrt_sqr_abs. }
      destruct (Rlt_dec 0 y).
      * rewrite sin_PI2, E0, Rabs_right by lra. field; lra.
      * destruct (Rlt_dec y 0).
        -- replace (- PI / 2) with (- (PI / 2)) by field.
           rewrite sin_neg, sin_PI2, E0, Rabs_left by lra. field; lra.
        -- exfalso. destruct H; lra.
Qed.

Lemma Ratan2_range y x : - PI < Ratan2 y x <= PI.
Proof.
  pose proof PI_RGT_0 as Hpi.
  unfold Ratan2.
  destruct (Rlt_dec 0 x).
  - pose proof (atan_bound (y / x)). lra.
  - destruct (Rlt_dec x 0) as [Hx|Hx].
    + destruct (Rle_dec 0 y) as [Hy|Hy].
      * assert (y / x <= 0).
        { unfold Rdiv. assert (/ x < 0) by (apply Rinv_lt_0_compat; lra). nra. }
        pose proof (atan_bound (y / x)).
        assert (atan (y / x) <= 0).
        { destruct (Req_dec (y / x) 0) as [E|E]; [rewrite E, atan_0; lra|].
          rewrite <- atan_0. left. apply atan_increasing. lra. }
        lra.
      * assert (0 < y / x).
        { unfold Rdiv. assert (/ x < 0) by (apply Rinv_lt_0_compat; lra). nra. }
        pose proof (atan_bound (y / x)).
        assert (0 < atan (y / x)) by (rewrite <- atan_0; apply atan_increasing; lra).
        lra.
    + destruct (Rlt_dec 0 y); [lra|]. destruct (Rlt_dec y 0); lra.
Qed.

(* ------------------------------------------------------------------------- *)
(* to_cartesian / to_spherical                                               *)
(* ------------------------------------------------------------------------- *)
Definition norm3 (x y z : R) : R := sqrt (x * x + y * y + z * z).

(* characterisation of the generated to_spherical *)
Lemma to_spherical_char (x y z : R) : x <> 0 \/ y <> 0 \/ z <> 0 ->
  exists r p t : arr R,
    @k_to_spherical NumR x y z = Ok (r, p, t) /\
    r 0%nat = norm3 x y z /\ p 0%nat = Ratan2 y x /\ t 0%nat = acos (z / norm3 x y z).
Proof.
  intros H. pose proof (sumsq3_pos x y z H) as Hp.
  pose proof (sqrt_pos_ne _ Hp) as Hs.
  unfold k_to_spherical. numR.
  destruct (Reqb (sqrt (x * x + y * y + z * z)) 0) eqn:E.
  - apply Reqb_true in E. contradiction.
  - eexists _, _, _. split; [reflexivity|]. unfold mk_arr, norm3; cbn [nth]. auto.
Qed.

Lemma to_spherical_origin : @k_to_spherical NumR 0 0 0 = Err DivZero.
Proof.
  unfold k_to_spherical. numR.
  replace (0 * 0 + 0 * 0 + 0 * 0) with 0 by ring. rewrite sqrt_0.
  destruct (Reqb 0 0) eqn:E; [reflexivity|]. apply Reqb_false in E. congruence.
Qed.

Lemma to_cartesian_char (p t r : R) :
  let '(x, y, z) := @k_to_cartesian NumR p t r in
  x 0%nat = r * sin t * cos p /\ y 0%nat = r * sin t * sin p /\ z 0%nat = r * cos t.
Proof. unfold k_to_cartesian, mk_arr; numR; cbn [nth]. auto. Qed.

Lemma ratio_bounds x y z : x <> 0 \/ y <> 0 \/ z <> 0 -> -1 <= z / norm3 x y z <= 1.
Proof.
  intros H. pose proof (sumsq3_pos x y z H) as Hp. unfold norm3.
  set (n := sqrt (x * x + y * y + z * z)).
  assert (Hn : 0 < n) by (apply sqrt_lt_R0; exact Hp).
  assert (Hnn : n * n = x * x + y * y + z * z) by (apply sqrt_sqrt; lra).
  assert (Hle : - n <= z <= n) by (split; nra).
  split.
  - apply Rmult_le_reg_r with n; [exact Hn|]. unfold Rdiv. rewrite Rmult_assoc, Rinv_l by lra. lra.
  - apply Rmult_le_reg_r with n; [exact Hn|]. unfold Rdiv. rewrite Rmult_assoc, Rinv_l by lra. lra.
Qed.

(* sin (acos (z/n)) = sqrt (x^2+y^2) / n *)
Lemma sin_colat x y z : x <> 0 \/ y <> 0 \/ z <> 0 ->
  sin (acos (z / norm3 x y z)) = sqrt (x * x + y * y) / norm3 x y z.
Proof.
  intros H. pose proof (sumsq3_pos x y z H) as Hp.
  rewrite sin_acos by (apply ratio_bounds; exact H).
  unfold norm3. set (n := sqrt (x * x + y * y + z * z)).
  assert (Hn : 0 < n) by (apply sqrt_lt_R0; exact Hp).
  assert (Hnn : n * n = x * x + y * y + z * z) by (apply sqrt_sqrt; lra).
  replace (1 - (z / n)²) with ((x * x + y * y) / (n * n)).
  - rewrite sqrt_div_alt by nra. rewrite sqrt_sqr_abs, Rabs_right by lra. reflexivity.
  - unfold Rsqr. replace (x * x + y * y) with (n * n - z * z) by lra. field. lra.
Qed.

Theorem sph_cart_roundtrip_proof (x y z : R) : x <> 0 \/ y <> 0 \/ z <> 0 ->
  exists r p t : arr R, @k_to_spherical NumR x y z = Ok (r, p, t) /\
  let '(x', y', z') := @k_to_cartesian NumR (p 0%nat) (t 0%nat) (r 0%nat) in
  x' 0%nat = x /\ y' 0%nat = y /\ z' 0%nat = z.
Proof.
  intros H. destruct (to_spherical_char x y z H) as (r & p & t & E & Hr & Hp & Ht).
  exists r, p, t. split; [exact E|].
  pose proof (to_cartesian_char (p 0%nat) (t 0%nat) (r 0%nat)) as C.
  destruct (@k_to_cartesian NumR (p 0%nat) (t 0%nat) (r 0%nat)) as [[x' y'] z'].
  destruct C as (Cx & Cy & Cz). rewrite Cx, Cy, Cz, Hr, Hp, Ht.
  change (T NumR) with R in *.
  pose proof (sumsq3_pos x y z H) as Hpos.
  assert (Hn : 0 < norm3 x y z) by (apply sqrt_lt_R0; exact Hpos).
  rewrite sin_colat by exact H.
  rewrite cos_acos by (apply ratio_bounds; exact H).
  destruct (Req_dec x 0) as [Ex|Ex]; [destruct (Req_dec y 0) as [Ey|Ey]|].
  - subst x y. replace (0 * 0 + 0 * 0) with 0 by ring. rewrite sqrt_0.
    repeat split; field; lra.
  - rewrite cos_Ratan2, sin_Ratan2 by (right; exact Ey).
    assert (Hs : sqrt (x * x + y * y) <> 0) by (apply sqrt_pos_ne, sumsq_pos; right; exact Ey).
    repeat split; field; lra.
  - rewrite cos_Ratan2, sin_Ratan2 by (left; exact Ex).
    assert (Hs : sqrt (x * x + y * y) <> 0) by (apply sqrt_pos_ne, sumsq_pos; left; exact Ex).
    repeat split; field; lra.
Qed.

Theorem sph_convention_proof (x y z : R) : x <> 0 \/ y <> 0 \/ z <> 0 ->
  exists r p t : arr R, @k_to_spherical NumR x y z = Ok (r, p, t) /\
    r 0%nat = norm3 x y z /\ 0 < r 0%nat /\
    t 0%nat = acos (z / norm3 x y z) /\ 0 <= t 0%nat <= PI /\ cos (t 0%nat) = z / norm3 x y z /\
    - PI < p 0%nat <= PI /\
    sqrt (x * x + y * y) * cos (p 0%nat) = x /\ sqrt (x * x + y * y) * sin (p 0%nat) = y.
Proof.
  intros H. destruct (to_spherical_char x y z H) as (r & p & t & E & Hr & Hp & Ht).
  exists r, p, t. split; [exact E|].
  pose proof (sumsq3_pos x y z H) as Hpos.
  assert (Hn : 0 < norm3 x y z) by (apply sqrt_lt_R0; exact Hpos).
  rewrite Hr, Hp, Ht.
  repeat split; try lra.
  - apply acos_bound.
  - apply acos_bound.
  - apply cos_acos, ratio_bounds, H.
  - apply Ratan2_range.
  - apply Ratan2_range.
  - destruct (Req_dec x 0) as [Ex|Ex]; [destruct (Req_dec y 0) as [Ey|Ey]|].
    + subst. replace (0 * 0 + 0 * 0) with 0 by ring. rewrite sqrt_0. ring.
    + rewrite cos_Ratan2 by (right; exact Ey). field. apply sqrt_pos_ne, sumsq_pos; right; exact Ey.
    + rewrite cos_Ratan2 by (left; exact Ex). field. apply sqrt_pos_ne, sumsq_pos; left; exact Ex.
  - destruct (Req_dec x 0) as [Ex|Ex]; [destruct (Req_dec y 0) as [Ey|Ey]|].
    + subst. replace (0 * 0 + 0 * 0) with 0 by ring. rewrite sqrt_0. ring.
    + rewrite sin_Ratan2 by (right; exact Ey). field. apply sqrt_pos_ne, sumsq_pos; right; exact Ey.
    + rewrite sin_Ratan2 by (left; exact Ex). field. apply sqrt_pos_ne, sumsq_pos; left; exact Ex.
Qed.

(* ------------------------------------------------------------------------- *)
(* Lambert equal-area projection                                             *)
(* ------------------------------------------------------------------------- *)
(* the literal 1e-16 of the source (exact binary64 value) *)
Definition cut16 : R := IZR 2028240960365167 / IZR 20282409603651670423947251286016.

Lemma cut16_pos : 0 < cut16.
Proof. unfold cut16. lra. Qed.
Lemma cut16_small : cut16 < 2 / 10 ^ 16.
Proof. unfold cut16. lra. Qed.

Definition tiny2 (x y : R) : Prop := Rabs x < cut16 /\ Rabs y < cut16.

Lemma classic_tiny2 x y : tiny2 x y \/ ~ tiny2 x y.
Proof.
  unfold tiny2. destruct (Rlt_dec (Rabs x) cut16); destruct (Rlt_dec (Rabs y) cut16); tauto.
Qed.

(* everything the projection does, in one statement: (X, Y) = c * (x, y) with c >= 0;
   c = 0 inside the cut-off |x|,|y| < 1e-16 and when 1 - |z| < 0 (numpy.ma masks the
   square root of a negative number); otherwise c^2 (x^2 + y^2) = 1 - |z| *)
Lemma lambert_spec (x y z : R) :
  exists (X Y : arr R) (c : R),
    @k_lambert_equal_area NumR x y z = (X, Y) /\
    0 <= c /\ X 0%nat = c * x /\ Y 0%nat = c * y /\
    (tiny2 x y -> c = 0) /\
    (1 - Rabs z < 0 -> c = 0) /\
    (~ tiny2 x y -> 0 <= 1 - Rabs z -> c * c * (x * x + y * y) = 1 - Rabs z).
Proof.
  unfold k_lambert_equal_area. numR. fold cut16.
  destruct (Rltb (Rabs x) cut16 && Rltb (Rabs y) cut16) eqn:Ecut.
  - (* masked by the condition *)
    apply andb_true_iff in Ecut. destruct Ecut as [E1 E2]. bool2prop.
    exists (mk_arr 0 [0]), (mk_arr 0 [0]), 0. unfold mk_arr; cbn [nth].
    repeat split; try lra; try ring.
    + intros Hn _. exfalso. apply Hn. split; assumption.
  - assert (Hnt : ~ tiny2 x y).
    { intros [H1 H2]. apply andb_false_iff in Ecut.
      destruct Ecut as [E|E]; bool2prop; lra. }
    assert (Hs : 0 < x * x + y * y).
    { apply sumsq_pos.
      destruct (Req_dec x 0) as [Ex|Ex]; [|left; exact Ex].
      destruct (Req_dec y 0) as [Ey|Ey]; [|right; exact Ey].
      exfalso. apply Hnt. subst. split; rewrite Rabs_R0; apply cut16_pos. }
    destruct (Reqb (x * x + y * y) 0) eqn:E0; [bool2prop; lra|].
    destruct (Rltb ((1 - Rabs z) / (x * x + y * y)) 0) eqn:Eneg; bool2prop.
    + (* masked by the domain of the square root *)
      assert (Hz : 1 - Rabs z < 0).
      { apply Rmult_lt_reg_r with (/ (x * x + y * y)); [apply Rinv_0_lt_compat; lra|].
        unfold Rdiv in Eneg. lra. }
      exists (mk_arr 0 [0]), (mk_arr 0 [0]), 0. unfold mk_arr; cbn [nth].
      repeat split; try lra; try ring.
    + set (q := (1 - Rabs z) / (x * x + y * y)) in *.
      exists (mk_arr 0 [sqrt q * x]), (mk_arr 0 [sqrt q * y]), (sqrt q).
      unfold mk_arr; cbn [nth].
      repeat split; try reflexivity.
      * apply sqrt_pos.
      * intros H; contradiction.
      * intros Hz. exfalso.
        assert (q < 0); [|lra]. unfold q, Rdiv.
        assert (0 < / (x * x + y * y)) by (apply Rinv_0_lt_compat; lra). nra.
      * intros _ Hz. rewrite sqrt_sqrt by exact Eneg. unfold q. field. lra.
Qed.

(* unit vectors: 1 - |z| = (x^2+y^2) / (1 + |z|) *)
Lemma one_minus_absz x y z : x * x + y * y + z * z = 1 ->
  0 <= 1 - Rabs z <= x * x + y * y.
Proof.
  intros H. assert (Ha : 0 <= Rabs z) by apply Rabs_pos.
  assert (Hq : Rabs z * Rabs z = z * z) by (unfold Rabs; destruct (Rcase_abs z); ring).
  split; nra.
Qed.

Lemma lambert_radius_proof (x y z : R) : x * x + y * y + z * z = 1 ->
  exists X Y : arr R, @k_lambert_equal_area NumR x y z = (X, Y) /\
    (~ tiny2 x y -> X 0%nat * X 0%nat + Y 0%nat * Y 0%nat = 1 - Rabs z) /\
    (tiny2 x y -> X 0%nat = 0 /\ Y 0%nat = 0 /\ 0 <= 1 - Rabs z <= 2 * (cut16 * cut16)).
Proof.
  intros Hu. destruct (lambert_spec x y z) as (X & Y & c & E & Hc & HX & HY & Ht & Hn & Hr).
  exists X, Y. split; [exact E|]. pose proof (one_minus_absz x y z Hu) as Hz.
  split.
  - intros Hnt. rewrite HX, HY. specialize (Hr Hnt (proj1 Hz)). nra.
  - intros Hti. specialize (Ht Hti). rewrite HX, HY, Ht.
    destruct Hti as [H1 H2].
    assert (x * x <= cut16 * cut16).
    { replace (x * x) with (Rabs x * Rabs x) by (unfold Rabs; destruct (Rcase_abs x); ring).
      pose proof (Rabs_pos x). nra. }
    assert (y * y <= cut16 * cut16).
    { replace (y * y) with (Rabs y * Rabs y) by (unfold Rabs; destruct (Rcase_abs y); ring).
      pose proof (Rabs_pos y). nra. }
    repeat split; try ring; lra.
Qed.

Lemma lambert_azimuth_proof (x y z : R) :
  exists (X Y : arr R) (c : R), @k_lambert_equal_area NumR x y z = (X, Y) /\
    0 <= c /\ X 0%nat = c * x /\ Y 0%nat = c * y.
Proof.
  destruct (lambert_spec x y z) as (X & Y & c & E & Hc & HX & HY & _).
  exists X, Y, c. auto.
Qed.

Lemma lambert_in_disk_proof (x y z : R) : x * x + y * y + z * z = 1 ->
  exists X Y : arr R, @k_lambert_equal_area NumR x y z = (X, Y) /\
    X 0%nat * X 0%nat + Y 0%nat * Y 0%nat <= 1.
Proof.
  intros Hu. destruct (lambert_radius_proof x y z Hu) as (X & Y & E & Hn & Ht).
  exists X, Y. split; [exact E|].
  destruct (classic_tiny2 x y) as [H|H].
  - destruct (Ht H) as (HX & HY & _). rewrite HX, HY. lra.
  - rewrite (Hn H). pose proof (Rabs_pos z). lra.
Qed.

Lemma lambert_poles_proof (z : R) :
  exists X Y : arr R, @k_lambert_equal_area NumR 0 0 z = (X, Y) /\ X 0%nat = 0 /\ Y 0%nat = 0.
Proof.
  destruct (lambert_spec 0 0 z) as (X & Y & c & E & Hc & HX & HY & _).
  exists X, Y. rewrite HX, HY. repeat split; [exact E|ring|ring].
Qed.

(* the disk-to-sphere lifting (inverse Lambert projection onto the upper hemisphere) *)
Definition lift (X Y : R) : R * R * R :=
  let rho2 := X * X + Y * Y in (X * sqrt (2 - rho2), Y * sqrt (2 - rho2), 1 - rho2).

Lemma lift_unit X Y : X * X + Y * Y <= 1 ->
  let '(x, y, z) := lift X Y in x * x + y * y + z * z = 1.
Proof.
  intros H. unfold lift. set (r := X * X + Y * Y) in *.
  assert (Hs : sqrt (2 - r) * sqrt (2 - r) = 2 - r) by (apply sqrt_sqrt; lra).
  set (s := sqrt (2 - r)) in *.
  replace (X * s * (X * s) + Y * s * (Y * s)) with (r * (s * s)) by (unfold r; ring).
  rewrite Hs. ring.
Qed.

Lemma lambert_inverts_lift_proof (X Y : R) : X * X + Y * Y <= 1 ->
  let '(x, y, z) := lift X Y in
  exists X' Y' : arr R, @k_lambert_equal_area NumR x y z = (X', Y') /\
    (~ tiny2 x y -> X' 0%nat = X /\ Y' 0%nat = Y) /\
    (tiny2 x y -> X' 0%nat = 0 /\ Y' 0%nat = 0 /\ Rabs X < cut16 /\ Rabs Y < cut16).
Proof.
  intros H. unfold lift. set (r := X * X + Y * Y) in *.
  assert (Hr0 : 0 <= r) by (unfold r; nra).
  assert (Hss : sqrt (2 - r) * sqrt (2 - r) = 2 - r) by (apply sqrt_sqrt; lra).
  assert (Hs1 : 1 <= sqrt (2 - r)).
  { rewrite <- sqrt_1 at 1. apply sqrt_le_1_alt. lra. }
  set (s := sqrt (2 - r)) in *.
  destruct (lambert_spec (X * s) (Y * s) (1 - r)) as (X' & Y' & c & E & Hc & HX & HY & Ht & _ & Hn).
  exists X', Y'. split; [exact E|]. split.
  - intros Hnt. specialize (Hn Hnt).
    rewrite (Rabs_right (1 - r)) in Hn by lra.
    assert (Hn' : c * c * (r * (s * s)) = r).
    { replace (r * (s * s)) with (X * s * (X * s) + Y * s * (Y * s)) by (unfold r; ring).
      rewrite Hn; lra. }
    assert (Hrpos : 0 < r).
    { destruct (Req_dec r 0) as [E0|E0]; [|lra]. exfalso. apply Hnt.
      assert (X = 0 /\ Y = 0) as [-> ->] by (unfold r in E0; split; nra).
      rewrite !Rmult_0_l. split; rewrite Rabs_R0; apply cut16_pos. }
    assert (Hcs : c * s = 1).
    { assert ((c * s - 1) * (c * s + 1) = 0) by nra.
      assert (0 <= c * s) by nra. nra. }
    rewrite HX, HY. split.
    + replace (c * (X * s)) with (X * (c * s)) by ring. rewrite Hcs. ring.
    + replace (c * (Y * s)) with (Y * (c * s)) by ring. rewrite Hcs. ring.
  - intros Hti. rewrite HX, HY, (Ht Hti). destruct Hti as [H1 H2].
    repeat split; try ring.
    + apply Rle_lt_trans with (Rabs (X * s)); [|exact H1].
      rewrite Rabs_mult, (Rabs_right s) by lra. pose proof (Rabs_pos X). nra.
    + apply Rle_lt_trans with (Rabs (Y * s)); [|exact H2].
      rewrite Rabs_mult, (Rabs_right s) by lra. pose proof (Rabs_pos Y). nra.
Qed.

(* ------------------------------------------------------------------------- *)
(* poles (one orientation)                                                   *)
(* ------------------------------------------------------------------------- *)
(* component j of A^T . hkl, A a flat row-major 3x3 matrix *)
Definition dirn (A hkl : arr R) (j : nat) : R :=
  A j * hkl 0%nat + A (3 + j)%nat * hkl 1%nat + A (6 + j)%nat * hkl 2%nat.
Definition dnorm (A hkl : arr R) : R :=
  sqrt (dirn A hkl 0 * dirn A hkl 0 + dirn A hkl 1 * dirn A hkl 1 + dirn A hkl 2 * dirn A hkl 2).

(* the reference-axes string "ab": output x = component along a, output y = component
   along b, output z = component along the remaining (upward) axis *)
Definition letter (i : nat) : nat := i.   (* x -> 0, y -> 1, z -> 2 *)
Definition axes_of (ax : Z) : nat * nat :=
  match ax with
  | 0%Z => (0, 1) | 1%Z => (0, 2) | 2%Z => (1, 0) | 3%Z => (1, 2) | 4%Z => (2, 0) | _ => (2, 1)
  end%nat.
Definition upward (ab : nat * nat) : nat := (3 - fst ab - snd ab)%nat.

Definition poles_gen (ax : Z) : arr R -> arr R -> res (arr R * arr R * arr R) :=
  match ax with
  | 0%Z => @k_poles_xy NumR | 1%Z => @k_poles_xz NumR | 2%Z => @k_poles_yx NumR
  | 3%Z => @k_poles_yz NumR | 4%Z => @k_poles_zx NumR | _ => @k_poles_zy NumR
  end.

Definition valid_axes (ax : Z) : Prop := (0 <= ax <= 5)%Z.

Ltac six ax H :=
  unfold valid_axes in H;
  assert (ax = 0 \/ ax = 1 \/ ax = 2 \/ ax = 3 \/ ax = 4 \/ ax = 5)%Z as
    [->|[->|[->|[->|[->| ->]]]]] by lia; clear H.

Lemma poles_gen_char (ax : Z) (A hkl : arr R) : valid_axes ax ->
  dnorm A hkl <> 0 ->
  exists px py pz : arr R, poles_gen ax A hkl = Ok (px, py, pz) /\
    px 0%nat = dirn A hkl (fst (axes_of ax)) / dnorm A hkl /\
    py 0%nat = dirn A hkl (snd (axes_of ax)) / dnorm A hkl /\
    pz 0%nat = dirn A hkl (upward (axes_of ax)) / dnorm A hkl.
Proof.
  intros Hax Hn. six ax Hax;
  cbv [poles_gen k_poles_xy k_poles_xz k_poles_yx k_poles_yz k_poles_zx k_poles_zy];
  numR;
  match goal with |- context [Reqb ?n 0] =>
    change n with (dnorm A hkl); destruct (Reqb (dnorm A hkl) 0) eqn:E end;
  bool2prop; try contradiction;
  eexists _, _, _; (split; [reflexivity|]); unfold mk_arr; cbn [nth axes_of fst snd upward Nat.sub];
  repeat split; reflexivity.
Qed.

Lemma poles_gen_zero (ax : Z) (A hkl : arr R) : valid_axes ax ->
  dnorm A hkl = 0 -> poles_gen ax A hkl = Err DivZero.
Proof.
  intros Hax Hn. six ax Hax;
  cbv [poles_gen k_poles_xy k_poles_xz k_poles_yx k_poles_yz k_poles_zx k_poles_zy];
  numR;
  match goal with |- context [Reqb ?n 0] =>
    change n with (dnorm A hkl); destruct (Reqb (dnorm A hkl) 0) eqn:E end;
  bool2prop; try contradiction; reflexivity.
Qed.

Lemma dnorm_sq A hkl :
  dnorm A hkl * dnorm A hkl
  = dirn A hkl 0 * dirn A hkl 0 + dirn A hkl 1 * dirn A hkl 1 + dirn A hkl 2 * dirn A hkl 2.
Proof. unfold dnorm. apply sqrt_sqrt. nra. Qed.

Lemma poles_gen_unit (ax : Z) (A hkl px py pz : arr R) : valid_axes ax ->
  poles_gen ax A hkl = Ok (px, py, pz) ->
  px 0%nat * px 0%nat + py 0%nat * py 0%nat + pz 0%nat * pz 0%nat = 1.
Proof.
  intros Hax E. destruct (Req_dec (dnorm A hkl) 0) as [Hz|Hz].
  - rewrite (poles_gen_zero ax A hkl Hax Hz) in E. discriminate.
  - destruct (poles_gen_char ax A hkl Hax Hz) as (qx & qy & qz & E' & Hx & Hy & Hzz).
    rewrite E in E'. injection E' as <- <- <-.
    rewrite Hx, Hy, Hzz. pose proof (dnorm_sq A hkl) as Hs.
    six ax Hax; cbn [axes_of fst snd upward Nat.sub] in *; field_simplify_eq; try exact Hz; nra.
Qed.
