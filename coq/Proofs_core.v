(* Proofs_core.v -- lemmas about the generated kernels of pydrex.core (R instance). *)
From Coq Require Import Reals ZArith List Bool Lra Lia.
From PV Require Import Num NumR Model_core.
From PV.gen Require Import Gen_core.
Import ListNotations.
Open Scope R_scope.

Notation RA := (arr NumR).

(* entry (i,j) of a flat 3x3 array *)
Definition m3 (a : arr R) (i j : nat) : R := a (3 * i + j)%nat.

(* (Ad . A^T + A . Ad^T)[p,p'] *)
Definition sym_defect (Ad A : arr R) (p p' : nat) : R :=
  m3 Ad p 0 * m3 A p' 0 + m3 Ad p 1 * m3 A p' 1 + m3 Ad p 2 * m3 A p' 2
  + (m3 A p 0 * m3 Ad p' 0 + m3 A p 1 * m3 Ad p' 1 + m3 A p 2 * m3 Ad p' 2).

Definition lt3 (i : nat) := (i < 3)%nat.

Ltac three i := let H := fresh in intro H; unfold lt3 in H;
  destruct i as [|[|[|i]]]; [ | | | exfalso; lia ]; clear H.

(* The spin vector the generated code computes *)
Definition spin_of (L G : arr R) (g : R) (j : nat) : R :=
  match j with
  | 0%nat => ((m3 L 2 1 - m3 L 1 2) - (m3 G 2 1 - m3 G 1 2) * g) / 2
  | 1%nat => ((m3 L 0 2 - m3 L 2 0) - (m3 G 0 2 - m3 G 2 0) * g) / 2
  | _ => ((m3 L 1 0 - m3 L 0 1) - (m3 G 1 0 - m3 G 0 1) * g) / 2
  end.

(* rows of the rate are  w x a_p  (i.e. Ad = A . W with W skew) *)
Lemma orientation_change_rows (A L G : RA) (g : R) :
  let Ad := k_get_orientation_change A L G g in
  let w := spin_of L G g in
  forall p, lt3 p ->
    m3 Ad p 0 = w 1%nat * m3 A p 2 - w 2%nat * m3 A p 1 /\
    m3 Ad p 1 = w 2%nat * m3 A p 0 - w 0%nat * m3 A p 2 /\
    m3 Ad p 2 = w 0%nat * m3 A p 1 - w 1%nat * m3 A p 0.
Proof.
  intros Ad w p; three p; subst Ad w;
  cbv [k_get_orientation_change m3 spin_of mk_arr nth Nat.add Nat.mul]; numR;
  repeat split; field.
Qed.

Lemma orientation_change_skew (A L G : RA) (g : R) :
  forall p p', lt3 p -> lt3 p' ->
    sym_defect (k_get_orientation_change A L G g) A p p' = 0.
Proof.
  intros p p'; three p; three p';
  cbv [sym_defect k_get_orientation_change m3 mk_arr nth Nat.add Nat.mul]; numR; field.
Qed.

Lemma zeros_skew (A : RA) p p' :
  sym_defect (mk_arr (0:R) [0;0;0;0;0;0;0;0;0]) A p p' = 0.
Proof.
  unfold sym_defect, m3, mk_arr.
  assert (H: forall k, nth k [0;0;0;0;0;0;0;0;0] 0 = 0).
  { intros k; do 9 (destruct k; [reflexivity|]); destruct k; reflexivity. }
  rewrite !H; ring.
Qed.

(* generic tactic: split a hypothesis  H : <generated tree> = Ok v  into its leaves *)
Ltac tree_cases H :=
  repeat match type of H with
  | (if ?c then _ else _) = _ => destruct c eqn:?
  | (match ?c with Ok _ => _ | Err _ => _ end) = _ => destruct c eqn:?
  | (let '(_, _) := ?c in _) = _ => destruct c eqn:?
  | Err _ = Ok _ => discriminate H
  end.

Theorem rotation_and_strain_skew (phase fabric : Z) (A D L : RA) (p n lam : R) Ad E :
  k_get_rotation_and_strain phase fabric A D L p n lam = Ok (Ad, E) ->
  forall i j, lt3 i -> lt3 j -> sym_defect Ad A i j = 0.
Proof.
  intros H i j Hi Hj.
  unfold k_get_rotation_and_strain in H.
  tree_cases H; inversion H; subst;
    first [ apply orientation_change_skew; assumption | apply zeros_skew ].
Qed.

(* ------------------------------------------------------------------------- *)
(* volume-fraction rates, any number of grains                               *)
(* ------------------------------------------------------------------------- *)
Definition rsum (l : list R) : R := fold_right Rplus 0 l.

Lemma fold_left_add_R (l : list R) (a : R) : fold_left (@add NumR) l a = a + rsum l.
Proof.
  revert a; induction l as [|x xs IH]; intros a; cbn [fold_left rsum fold_right].
  - numR. ring.
  - rewrite IH. numR. unfold rsum. ring.
Qed.

Lemma sumf_R (l : list R) : @sumf NumR l = rsum l.
Proof.
  destruct l as [|x xs]; [reflexivity|].
  unfold sumf. rewrite fold_left_add_R. reflexivity.
Qed.

Definition rate1 (c : option R) (phi M m f e : R) : R :=
  match c with None => phi * M * f * (m - e) | Some c => phi * M * f * (c * (m - e)) end.

Lemma frac_rates_R c phi M fs es :
  @frac_rates NumR c phi M fs es
  = map2 (rate1 c phi M (rsum (map2 Rmult fs es))) fs es.
Proof.
  unfold frac_rates. rewrite sumf_R. destruct c; reflexivity.
Qed.

Definition cfac (c : option R) : R := match c with None => 1 | Some c => c end.

Lemma rsum_rates c phi M m fs es : length fs = length es ->
  rsum (map2 (rate1 c phi M m) fs es)
  = cfac c * phi * M * (m * rsum fs - rsum (map2 Rmult fs es)).
Proof.
  revert es; induction fs as [|f fs IH]; intros [|e es] Hl; try discriminate Hl.
  - cbn. ring.
  - cbn [map2 rsum fold_right]. injection Hl as Hl.
    fold (rsum (map2 (rate1 c phi M m) fs es)). rewrite (IH es Hl).
    fold (rsum fs). fold (rsum (map2 Rmult fs es)).
    destruct c; cbn [rate1 cfac]; ring.
Qed.

(* C03: the volume rates sum to zero whenever the fractions sum to one *)
Theorem volume_rates_sum_zero c phi M fs es :
  length fs = length es -> rsum fs = 1 ->
  rsum (@frac_rates NumR c phi M fs es) = 0.
Proof.
  intros Hl Hs. rewrite frac_rates_R, rsum_rates by assumption. rewrite Hs. ring.
Qed.

(* C03: a grain of zero volume has zero volume rate; nth with default 0 *)
Lemma nth_map2 {A B C} (f : A -> B -> C) l1 l2 i da db dc :
  (i < length l1)%nat -> (i < length l2)%nat ->
  nth i (map2 f l1 l2) dc = f (nth i l1 da) (nth i l2 db).
Proof.
  revert l2 i; induction l1 as [|a l1 IH]; intros [|b l2] [|i] H1 H2;
    cbn in *; try lia; try reflexivity. apply IH; lia.
Qed.

Theorem dead_grain c phi M fs es i :
  (i < length fs)%nat -> length fs = length es -> nth i fs 0 = 0 ->
  nth i (@frac_rates NumR c phi M fs es) 0 = 0.
Proof.
  intros Hi Hl H0. rewrite frac_rates_R. change (T NumR) with R in *.
  rewrite (nth_map2 _ _ _ _ 0 0 0) by lia. rewrite H0.
  destruct c; cbn [rate1]; ring.
Qed.

Lemma map2_ext_scale {A B} (f g : A -> B -> R) k l1 l2 :
  (forall a b, g a b = k * f a b) -> map2 g l1 l2 = map (Rmult k) (map2 f l1 l2).
Proof.
  intros H; revert l2; induction l1 as [|a l1 IH]; intros [|b l2]; cbn; try reflexivity.
  rewrite H, IH; reflexivity.
Qed.

(* C03: linear in the mobility and in the phase volume fraction *)
Theorem rates_linear_M c phi M k fs es :
  @frac_rates NumR c phi (k * M) fs es = map (Rmult k) (@frac_rates NumR c phi M fs es).
Proof.
  rewrite !frac_rates_R. apply map2_ext_scale. intros f e; destruct c; cbn [rate1]; ring.
Qed.

Theorem rates_linear_phi c phi M k fs es :
  @frac_rates NumR c (k * phi) M fs es = map (Rmult k) (@frac_rates NumR c phi M fs es).
Proof.
  rewrite !frac_rates_R. apply map2_ext_scale. intros f e; destruct c; cbn [rate1]; ring.
Qed.

Lemma rate1_zero_M c phi m fs es i :
  nth i (map2 (rate1 c phi 0 m) fs es) 0 = 0.
Proof.
  revert es i; induction fs as [|f fs IH]; intros [|e es] [|i]; cbn [map2 nth]; try reflexivity.
  - destruct c; cbn [rate1]; ring.
  - apply IH.
Qed.

Theorem rates_zero_M c phi fs es i :
  nth i (@frac_rates NumR c phi 0 fs es) 0 = 0.
Proof. rewrite frac_rates_R. apply rate1_zero_M. Qed.

(* C03: a grain grows exactly when its energy is below the volume weighted mean *)
Theorem grows_iff_below_mean c phi M fs es i :
  (i < length fs)%nat -> length fs = length es ->
  0 < cfac c -> 0 < phi * M * nth i fs 0 ->
  let emean := rsum (map2 Rmult fs es) in
  (0 < nth i (@frac_rates NumR c phi M fs es) 0 <-> nth i es 0 < emean).
Proof.
  intros Hi Hl Hc Hpos emean. rewrite frac_rates_R. change (T NumR) with R in *.
  rewrite (nth_map2 _ _ _ _ 0 0 0) by lia. fold emean.
  set (f := nth i fs 0) in *. set (e := nth i es 0).
  destruct c as [c|]; cbn [rate1 cfac] in *.
  - split; intros H.
    + assert (0 < c * (emean - e)) by nra. nra.
    + assert (0 < c * (emean - e)) by nra. nra.
  - split; intros H; nra.
Qed.

(* ------------------------------------------------------------------------- *)
(* lifting to Model_core.derivs (any number of grains, every regime)          *)
(* ------------------------------------------------------------------------- *)
Definition skew_wrt (o Ad : arr R) : Prop :=
  forall i j, lt3 i -> lt3 j -> sym_defect Ad o i j = 0.

Lemma grains_length ph fb os (D L : RA) p n lam rs :
  grains ph fb os D L p n lam = Ok rs -> length rs = length os.
Proof.
  revert rs; induction os as [|o os IH]; intros rs H; cbn [grains] in H.
  - inversion H; reflexivity.
  - destruct (k_get_rotation_and_strain ph fb o D L p n lam) as [r|]; [|discriminate].
    destruct (grains ph fb os D L p n lam) as [rs'|]; [|discriminate].
    inversion H; subst; cbn [length]; f_equal; apply IH; reflexivity.
Qed.

Lemma grains_skew ph fb os (D L : RA) p n lam rs :
  grains ph fb os D L p n lam = Ok rs -> Forall2 skew_wrt os (map fst rs).
Proof.
  revert rs; induction os as [|o os IH]; intros rs H; cbn [grains] in H.
  - inversion H; constructor.
  - destruct (k_get_rotation_and_strain ph fb o D L p n lam) as [[Ad E]|] eqn:Hk; [|discriminate].
    destruct (grains ph fb os D L p n lam) as [rs'|]; [|discriminate].
    inversion H; subst; cbn [map fst]. constructor; [|apply IH; reflexivity].
    intros i j Hi Hj. eapply rotation_and_strain_skew; eassumption.
Qed.

Lemma scale9_defect c o Ad i j : lt3 i -> lt3 j ->
  sym_defect (@scale9 NumR c Ad) o i j = c * sym_defect Ad o i j.
Proof.
  three i; three j;
  cbv [sym_defect scale9 m3 mk_arr nth Nat.add Nat.mul]; numR; ring.
Qed.

Lemma scale9_skew c o Ad : skew_wrt o Ad -> skew_wrt o (@scale9 NumR c Ad).
Proof.
  intros H i j Hi Hj. rewrite scale9_defect by assumption. rewrite (H i j Hi Hj). ring.
Qed.

Lemma zeros9_skew o : skew_wrt o (@zeros9 NumR).
Proof. intros i j _ _. apply zeros_skew. Qed.

Definition dislocation_regime (r : Z) : Prop := r = 4%Z \/ r = 6%Z.

(* C03: every grain's orientation rate is its orientation composed with a skew spin *)
Theorem derivs_skew regime ph fb os fs (D L S : RA) p n lam M phi Ads fds :
  dislocation_regime regime ->
  @derivs NumR regime ph fb os fs D L S p n lam M phi = Ok (Ads, fds) ->
  Forall2 skew_wrt os Ads.
Proof.
  intros [Hr|Hr] H; subst regime; cbn [derivs Z.eqb Pos.eqb] in H;
  destruct (grains ph fb os D L p n lam) as [rs|] eqn:Hg; try discriminate;
  inversion H; subst; clear H.
  - eapply grains_skew; eassumption.
  - apply grains_skew in Hg. revert Hg. generalize os.
    induction rs as [|r rs IH]; intros os' Hg; inversion Hg; subst; cbn [map]; constructor.
    + apply scale9_skew; assumption.
    + apply IH; assumption.
Qed.

Lemma rsum_zeros {A} (l : list A) : rsum (map (fun _ => 0) l) = 0.
Proof. induction l; cbn; [reflexivity|]. unfold rsum in IHl. rewrite IHl; ring. Qed.

(* C03: volume rates sum to zero (every accepted regime) *)
Theorem derivs_sum_zero regime ph fb os fs (D L S : RA) p n lam M phi Ads fds :
  length os = length fs -> rsum fs = 1 ->
  @derivs NumR regime ph fb os fs D L S p n lam M phi = Ok (Ads, fds) ->
  rsum fds = 0.
Proof.
  intros Hl Hs H. unfold derivs in H.
  repeat match type of H with
  | (if ?c then _ else _) = _ => destruct c
  end; try discriminate;
  try (inversion H; subst; apply (@rsum_zeros (arr R)));
  destruct (grains ph fb os D L p n lam) as [rs|] eqn:Hg; try discriminate;
  inversion H; subst; apply volume_rates_sum_zero; try assumption;
  rewrite map_length; apply grains_length in Hg; change (T NumR) with R in *; lia.
Qed.

(* C03: frac part of derivs is frac_rates of the grain energies *)
Lemma derivs_fracs regime ph fb os fs (D L S : RA) p n lam M phi Ads fds :
  dislocation_regime regime ->
  @derivs NumR regime ph fb os fs D L S p n lam M phi = Ok (Ads, fds) ->
  exists es c, length es = length os /\ 0 < cfac c /\ fds = @frac_rates NumR c phi M fs es.
Proof.
  intros [Hr|Hr] H; subst regime; cbn [derivs Z.eqb Pos.eqb] in H;
  destruct (grains ph fb os D L p n lam) as [rs|] eqn:Hg; try discriminate;
  inversion H; subst; clear H; apply grains_length in Hg.
  - exists (map snd rs), None. rewrite map_length. cbn [cfac]. repeat split; try assumption; lra.
  - exists (map snd rs), (Some (@three_tenths NumR)). rewrite map_length.
    repeat split; try assumption. cbv [cfac three_tenths]; numR. lra.
Qed.
