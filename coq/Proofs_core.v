(* Proofs_core.v -- lemmas about the generated kernels of pydrex.core (R instance). *)
From Coq Require Import Reals ZArith List Bool Lra Lia.
From PV Require Import Num NumR Model_core.
From PV.gen Require Import Gen_core.
Import ListNotations.
Open Scope R_scope.

Notation RA := (arr NumR).

(* entry (i,j) of a flat 3x3 array *)
Definition m3 (a : arr R) (i j : nat) : R := a (3 * i + j)%nat.

(* (Ad . A^T + A . Ad^T)[p,p'] *)
Definition sym_defect (Ad A : arr R) (p p' : nat) : R :=
  m3 Ad p 0 * m3 A p' 0 + m3 Ad p 1 * m3 A p' 1 + m3 Ad p 2 * m3 A p' 2
  + (m3 A p 0 * m3 Ad p' 0 + m3 A p 1 * m3 Ad p' 1 + m3 A p 2 * m3 Ad p' 2).

Definition lt3 (i : nat) := (i < 3)%nat.

Ltac three i := let H := fresh in intro H; unfold lt3 in H;
  destruct i as [|[|[|i]]]; [ | | | exfalso; lia ]; clear H.

(* The spin vector the generated code computes *)
Definition spin_of (L G : arr R) (g : R) (j : nat) : R :=
  match j with
  | 0%nat => ((m3 L 2 1 - m3 L 1 2) - (m3 G 2 1 - m3 G 1 2) * g) / 2
  | 1%nat => ((m3 L 0 2 - m3 L 2 0) - (m3 G 0 2 - m3 G 2 0) * g) / 2
  | _ => ((m3 L 1 0 - m3 L 0 1) - (m3 G 1 0 - m3 G 0 1) * g) / 2
  end.

(* rows of the rate are  w x a_p  (i.e. Ad = A . W with W skew) *)
Lemma orientation_change_rows (A L G : RA) (g : R) :
  let Ad := k_get_orientation_change A L G g in
  let w := spin_of L G g in
  forall p, lt3 p ->
    m3 Ad p 0 = w 1%nat * m3 A p 2 - w 2%nat * m3 A p 1 /\
    m3 Ad p 1 = w 2%nat * m3 A p 0 - w 0%nat * m3 A p 2 /\
    m3 Ad p 2 = w 0%nat * m3 A p 1 - w 1%nat * m3 A p 0.
Proof.
  intros Ad w p; three p; subst Ad w;
  cbv [k_get_orientation_change m3 spin_of mk_arr nth Nat.add Nat.mul]; numR;
  repeat split; field.
Qed.

Lemma orientation_change_skew (A L G : RA) (g : R) :
  forall p p', lt3 p -> lt3 p' ->
    sym_defect (k_get_orientation_change A L G g) A p p' = 0.
Proof.
  intros p p'; three p; three p';
  cbv [sym_defect k_get_orientation_change m3 mk_arr nth Nat.add Nat.mul]; numR; field.
Qed.

Lemma zeros_skew (A : RA) p p' :
  sym_defect (mk_arr (0:R) [0;0;0;0;0;0;0;0;0]) A p p' = 0.
Proof.
  unfold sym_defect, m3, mk_arr.
  assert (H: forall k, nth k [0;0;0;0;0;0;0;0;0] 0 = 0).
  { intros k; do 9 (destruct k; [reflexivity|]); destruct k; reflexivity. }
  rewrite !H; ring.
Qed.

(* generic tactic: split a hypothesis  H : <generated tree> = Ok v  into its leaves *)
Ltac tree_cases H :=
  repeat match type of H with
  | (if ?c then _ else _) = _ => destruct c eqn:?
  | (match ?c with Ok _ => _ | Err _ => _ end) = _ => destruct c eqn:?
  | (let '(_, _) := ?c in _) = _ => destruct c eqn:?
  | Err _ = Ok _ => discriminate H
  end.

Theorem rotation_and_strain_skew (phase fabric : Z) (A D L : RA) (p n lam : R) Ad E :
  k_get_rotation_and_strain phase fabric A D L p n lam = Ok (Ad, E) ->
  forall i j, lt3 i -> lt3 j -> sym_defect Ad A i j = 0.
Proof.
  intros H i j Hi Hj.
  unfold k_get_rotation_and_strain in H.
  tree_cases H; inversion H; subst;
    first [ apply orientation_change_skew; assumption | apply zeros_skew ].
Qed.
